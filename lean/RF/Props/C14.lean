import RF.Lemmas.Config

/-!
# C14  Configuration is resolved with the documented precedence

Theorems about `RF.Model.Config` (the model of `src/config/{config_type,mod,options,style_edition}.rs`
and of `GetOptsOptions` in `src/bin/main.rs`).  The option table, the per-type defaults and the three
hand-maintained key-dispatch lists come from `RF.Gen.Options`, regenerated from the Rust source on
every run: the theorems below that mention `options`, `defaults`, `configSetterDispatch`,
`cliConfigSetterDispatch`, `overrideValueDispatch` (directly or through `configSet`, `configSetCli`,
`overrideValue`, `defaultWithStyleEdition`) are re-checked against what the source says now.

Quantification: every configuration (association list), every value, every directory tree, every
set of command-line options, every order of the `--config` pairs, unless a hypothesis says otherwise.
"Same effective configuration" is `Equiv`: the same value, `was_set` and `was_set_cli` for every
option name.

Findings proved here as counter-examples: F3 (`override_order_counterexample`), F8
(`heuristic_default_counterexample`, `heuristic_off_counterexample`), F16
(`api_setter_counterexample`), and three more seen while modelling:
`api_alias_counterexample` (the API setter of a deprecated alias does nothing),
F29 (`hide_parse_errors = true` turned `show_parse_errors` ON; repaired, see `hide_parse_errors_negated`),
`same_value_flag_clobber_counterexample` (`unstable_features = true` in a file is reset by
`apply_to`, from `--config` it sticks) and `same_value_stable_channel_counterexample`.
-/
namespace RF.Props.C14
open RF.Config RF.Gen.Options RF.Lemmas.Config

/-! ## Sanity of the generated tables -/

/-- The defaults of 2018 and 2021 are those of 2015, the defaults of 2027 those of 2024 (the two
arms of `style_edition_default!`), for every type struct — by unfolding, no table lookup. -/
theorem defaults_two_classes (ty : String) :
    defaultValFor .e2018 ty = defaultValFor .e2015 ty ∧
    defaultValFor .e2021 ty = defaultValFor .e2015 ty ∧
    defaultValFor .e2027 ty = defaultValFor .e2024 ty := ⟨rfl, rfl, rfl⟩

/-- The default configuration of every style edition is well-formed: exactly the generated option
names, each with a value of its declared type (in particular every `usize`/`bool` default of the
generated table parsed). -/
theorem default_wf (se : StyleEdition) : WF (defaultWithStyleEdition se) := by
  have h15 : WF (defaultWithStyleEdition .e2015) := by decide +kernel
  have h24 : WF (defaultWithStyleEdition .e2024) := by decide +kernel
  cases se
  · exact h15
  · exact (show defaultWithStyleEdition .e2018 = defaultWithStyleEdition .e2015 from rfl) ▸ h15
  · exact (show defaultWithStyleEdition .e2021 = defaultWithStyleEdition .e2015 from rfl) ▸ h15
  · exact h24
  · exact (show defaultWithStyleEdition .e2027 = defaultWithStyleEdition .e2024 from rfl) ▸ h24

/-- Every method named in a generated dispatch table is one the model implements. -/
theorem dispatch_methods_known :
    ∀ T ∈ [configSetterDispatch, cliConfigSetterDispatch, overrideValueDispatch],
      ∀ row ∈ T, row.2 ∈ knownMethods := by decide

/-- The three hand-maintained key lists (`ConfigSetter`, `CliConfigSetter`, `override_value`) are
equal: no key triggers a recomputation through one entry point and not through another. -/
theorem width_key_lists_agree :
    configSetterDispatch = cliConfigSetterDispatch ∧
    cliConfigSetterDispatch = overrideValueDispatch := by decide

/-- The type structs of the options that `set_width_heuristics` reads or writes. -/
def widthStructs : List String :=
  ["MaxWidth", "UseSmallHeuristics", "FnCallWidth", "AttrFnLikeWidth", "StructLitWidth",
   "StructVariantWidth", "ArrayWidth", "ChainWidth", "SingleLineIfElseMaxWidth",
   "SingleLineLetElseMaxWidth"]

/-- The `set_heuristics` row of the generated table lists exactly the options whose type struct is
`max_width`, `use_small_heuristics` or one of the eight widths: every such option is there, and
every key there is such an option (and an option at all). -/
theorem dispatch_covers_width_options :
    (∀ o ∈ options, o.2.1 ∈ widthStructs →
      methodFor overrideValueDispatch o.1 = some "set_heuristics") ∧
    (∀ row ∈ overrideValueDispatch, row.2 = "set_heuristics" →
      ∀ k ∈ row.1, ∃ o ∈ options, o.1 = k ∧ o.2.1 ∈ widthStructs) ∧
    (∀ o ∈ options, o.1 ∈ widthKeys ∨ o.1 = "max_width" ∨ o.1 = "use_small_heuristics" ↔
      o.2.1 ∈ widthStructs) := by decide

/-- From the generated `defaults`: the only type structs whose default depends on the style
edition are `StyleEditionConfig` and `VersionConfig` (the types of `style_edition` and `version`);
the released editions 2015/2018/2021 all get the `_` default of every option, 2027 gets the 2024
defaults, and 2024 differs from 2015 in `style_edition` and `version` only. -/
theorem defaults_edition_table :
    (∀ d ∈ defaults, d.2.2.2.isSome = true ↔ d.1 = "StyleEditionConfig" ∨ d.1 = "VersionConfig") ∧
    (∀ o ∈ options, o.2.1 = "StyleEditionConfig" ∨ o.2.1 = "VersionConfig" ↔
      o.1 = "style_edition" ∨ o.1 = "version") ∧
    defaultWithStyleEdition .e2018 = defaultWithStyleEdition .e2015 ∧
    defaultWithStyleEdition .e2021 = defaultWithStyleEdition .e2015 ∧
    defaultWithStyleEdition .e2027 = defaultWithStyleEdition .e2024 ∧
    (∀ k, getE (defaultWithStyleEdition .e2024) k ≠ getE (defaultWithStyleEdition .e2015) k →
      k = "style_edition" ∨ k = "version") := by
  have h1 : ∀ d ∈ defaults, d.2.2.2.isSome = true ↔
      d.1 = "StyleEditionConfig" ∨ d.1 = "VersionConfig" := by decide +kernel
  have h2 : ∀ o ∈ options, o.2.1 = "StyleEditionConfig" ∨ o.2.1 = "VersionConfig" ↔
      o.1 = "style_edition" ∨ o.1 = "version" := by decide +kernel
  refine ⟨h1, h2, rfl, rfl, rfl, ?_⟩
  intro k hk
  rw [getE_default, getE_default] at hk
  cases hl : options.lookup k with
  | none => simp [hl] at hk
  | some o =>
    have hm := mem_of_lookup options k o hl
    simp only [hl] at hk
    refine (h2 (k, o) hm).1 ?_
    -- a type struct without a 2024 default has the same default in both editions
    cases hd : defaults.lookup o.1 with
    | none => exact absurd (by simp [defaultValFor, hd]) hk
    | some d =>
      obtain ⟨cty, dflt, d24⟩ := d
      cases d24 with
      | none => exact absurd (by simp [defaultValFor, hd]) hk
      | some x =>
        exact (h1 (o.1, cty, dflt, some x) (mem_of_lookup defaults o.1 _ hd)).1 rfl

/-! ## Directory search -/

section Dir
variable {α : Type} [DecidableEq α]

/-- In one directory `.rustfmt.toml` is taken before `rustfmt.toml` (the order of
`CONFIG_FILE_NAMES`); no file, no result. -/
theorem dotted_name_first (t : Tree α) (d : List α) :
    getTomlPath t d =
      if hasDotted t d then some ⟨d, true⟩
      else if hasPlain t d then some ⟨d, false⟩ else none :=
  getTomlPath_eq t d

example : getTomlPath [([1, 2], true, true)] [1, 2] = some ⟨[1, 2], true⟩ := by decide

/-- The config file of the nearest directory at or above the start directory wins: if some ancestor
`a` (or the directory itself) holds a config file, the search returns the file `get_toml_path` picks
in a directory `f.dir` that is an ancestor-or-self of the start, at least as deep as `a`, and no
deeper ancestor holds any config file.  Home and config directories are not consulted. -/
theorem nearest_file_wins (fs : FS α) (dir a : List α) (hex : dirExists fs.tree dir = true)
    (ha : a <+: dir) (hfile : getTomlPath fs.tree a ≠ none) :
    ∃ f, resolveProjectFile fs dir = .ok (some f) ∧ getTomlPath fs.tree f.dir = some f ∧
      f.dir <+: dir ∧ a <+: f.dir ∧
      ∀ b, b <+: dir → f.dir.length < b.length → getTomlPath fs.tree b = none :=
  nearest_file fs dir a hex ha hfile

example :
    resolveProjectFile (α := Nat)
      ⟨[([], false, true), ([1], true, true), ([1, 2], false, false)], none, none, 0, fun _ => none⟩
      [1, 2] = .ok (some ⟨[1], true⟩) := by rfl

/-- With no config file at or above the start directory: the home directory's, else the one in
`<config dir>/rustfmt`, else none. -/
theorem home_then_config_dir (fs : FS α) (dir : List α) (hex : dirExists fs.tree dir = true)
    (hnone : ∀ a, a <+: dir → getTomlPath fs.tree a = none) :
    resolveProjectFile fs dir =
      .ok (orElse (bindO fs.home (getTomlPath fs.tree))
        (bindO fs.configDir fun d => getTomlPath fs.tree (d ++ [fs.rustfmtName]))) :=
  resolve_fallback fs dir hex hnone

example :
    resolveProjectFile (α := Nat)
      ⟨[([1], false, false), ([7], false, true), ([8, 0], true, false)], some [7], some [8], 0,
        fun _ => none⟩ [1] = .ok (some ⟨[7], false⟩) := by rfl

/-- `--config-path` replaces the search wholesale: when it resolves to file `f`, `load_config` reads
`f` and nothing else — the result does not depend on the directory of the file being formatted, nor
on any other config file of the tree (any file system with the same file contents in which
`--config-path` resolves to `f` gives the same result), and the reported path is `f`. -/
theorem config_path_replaces (env : Env) (fs : FS α) (o : CliOptions α) (f : ConfigFile α)
    (hcp : configPath fs.tree o = .ok (some f)) (fp1 fp2 : Option (List α)) :
    loadConfig env fs fp1 (some o) = loadConfig env fs fp2 (some o) ∧
    (∀ fs' : FS α, fs'.read = fs.read → configPath fs'.tree o = .ok (some f) →
      loadConfig env fs' fp1 (some o) = loadConfig env fs fp1 (some o)) ∧
    (∀ c p, loadConfig env fs fp1 (some o) = .ok (c, p) → p = some f) := by
  refine ⟨by rw [loadConfig_config_path env fs fp1 o f hcp, loadConfig_config_path env fs fp2 o f hcp],
    fun fs' hr hcp' => by
      rw [loadConfig_config_path env fs' fp1 o f hcp', loadConfig_config_path env fs fp1 o f hcp,
        fromTomlPath_read env fs' fs hr], ?_⟩
  intro c p h
  rw [loadConfig_config_path env fs fp1 o f hcp] at h
  cases h1 : fromTomlPath env fs f o.editionOv o.styleEditionOv o.versionOv with
  | error e => simp [h1] at h
  | ok c0 =>
    simp only [h1] at h
    cases h2 : applyTo o c0 with
    | none => simp [h2] at h
    | some c' =>
      simp only [h2, Except.ok.injEq, Prod.mk.injEq] at h
      exact h.2.symm

example :
    configPath (α := Nat) [([], false, true), ([5], false, true)]
      { configPath := some (.dir [5]) } = .ok (some ⟨[5], false⟩) := by rfl

end Dir

/-! ## Command line over file -/

section Cli
variable {α : Type}

/-- `--config k=v` overrides any file: whatever configuration `c` the file search produced,
whatever the other pairs, their order in the `HashMap` and the dedicated flags, after `apply_to`
option `k` has value `v` and is marked as set.  (`k` any option other than the eight width options,
whose value is clamped to `max_width`: see `explicit_width_clamped`.)  `apply_to` does not panic
when the pairs are well-typed, which `from_matches` guarantees. -/
theorem cli_over_file (o : CliOptions α) (c : Config) (k : String) (v : Val)
    (hm : (k, v) ∈ o.inlineConfig) (hnd : (o.inlineConfig.map (·.1)).Nodup)
    (hv : ∀ kv ∈ o.inlineConfig, checkVal kv.1 kv.2 = true) (hw : k ∉ widthKeys) :
    ∃ c', applyTo o c = some c' ∧ (getE c' k).val = v ∧ (getE c' k).wasSet = true := by
  obtain ⟨c', h⟩ := applyTo_some o c hv
  exact ⟨c', h, applyTo_inline_wins o c c' h k v hm hnd hw⟩

example : (("tab_spaces", Val.nat 2) ∈ [("max_width", Val.nat 80), ("tab_spaces", Val.nat 2)]) ∧
    checkVal "tab_spaces" (.nat 2) = true ∧ "tab_spaces" ∉ widthKeys := by decide +kernel

/-- A dedicated flag (`--edition`, `--style-edition`, `--check`, `--emit`, `--color`, `--backup`,
`-v`/`-q`, …) overrides any file too, unless a `--config` pair names the same option (the pairs are
applied after the flags). -/
theorem flag_over_file (o : CliOptions α) (c : Config) (cli : Bool) (k : String) (v : Val)
    (hm : (cli, k, v) ∈ flagCalls o) (hk : k ∉ o.inlineConfig.map (·.1))
    (hv : ∀ kv ∈ o.inlineConfig, checkVal kv.1 kv.2 = true) :
    ∃ c', applyTo o c = some c' ∧ (getE c' k).val = v ∧
      (cli = true → (getE c' k).wasSetCli = true) := by
  obtain ⟨c', h⟩ := applyTo_some o c hv
  exact ⟨c', h, applyTo_flag_wins o c c' h cli k v hm hk⟩

example : (true, "style_edition", Val.str "2024") ∈
    flagCalls ({ styleEdition := some .e2024 } : CliOptions Nat) := by decide

end Cli

/-! ## Style edition precedence -/

/-- `style_edition` > `version` > `edition` > 2015: the defaults are those of the style edition
chosen in that order. -/
theorem style_edition_precedence (se : Option StyleEdition) (ed : Option Edition)
    (ver : Option Version) :
    defaultForPossibleStyleEdition se ed ver =
      defaultWithStyleEdition (chosenStyleEdition se ed ver) ∧
    (∀ s, se = some s → chosenStyleEdition se ed ver = s) ∧
    (se = none → ver = some .two → chosenStyleEdition se ed ver = .e2024) ∧
    (se = none → ver = some .one → chosenStyleEdition se ed ver = .e2015) ∧
    (∀ e, se = none → ver = none → ed = some e →
      chosenStyleEdition se ed ver = e.toStyleEdition) ∧
    (se = none → ver = none → ed = none → chosenStyleEdition se ed ver = .e2015) := by
  refine ⟨defaultForPossible_eq se ed ver, ?_, ?_, ?_, ?_, ?_⟩
  · rintro s rfl; rfl
  · rintro rfl rfl; rfl
  · rintro rfl rfl; rfl
  · rintro e rfl rfl rfl; rfl
  · rintro rfl rfl rfl; rfl

/-- A command-line override (`--style-edition`, `--edition`, `--config style_edition=…`, …) beats
the value in the file, field by field, before the precedence above is applied
(`to_parsed_config`). -/
theorem style_edition_override_beats_file (env : Env) (parsed : List (String × Val))
    (seOv : Option StyleEdition) (edOv : Option Edition) (verOv : Option Version) :
    toParsedConfig env parsed seOv edOv verOv =
      fillFromParsedConfig env
        (defaultWithStyleEdition (chosenStyleEdition
          (orElse seOv (parsedStyleEdition parsed)) (orElse edOv (parsedEdition parsed))
          (orElse verOv (parsedVersion parsed)))) parsed := by
  unfold toParsedConfig
  rw [defaultForPossible_eq]

/-- What the `style_edition` option itself reads in a default configuration: "2015" for the
defaults of 2015, 2018 and 2021, "2024" for those of 2024 and 2027 (so `edition = "2021"` alone
leaves `style_edition = "2015"`; harmless today because the defaults coincide). -/
theorem style_edition_field_of_default :
    (∀ se ∈ [StyleEdition.e2015, .e2018, .e2021],
      (getE (defaultWithStyleEdition se) "style_edition").val = .str "2015") ∧
    (∀ se ∈ [StyleEdition.e2024, .e2027],
      (getE (defaultWithStyleEdition se) "style_edition").val = .str "2024") := by decide +kernel

/-! ## Deprecated aliases -/

/-- `override_value` of a deprecated alias maps to its successor exactly when the successor has not
been set: `merge_imports` ↦ `imports_granularity` (`true` ↦ `Crate`, `false` ↦ `Preserve`),
`fn_args_layout` ↦ `fn_params_layout` (same value), `hide_parse_errors` ↦ `show_parse_errors`
(negated — see `hide_parse_errors_negated`). -/
theorem alias_maps (c : Config) :
    (∀ b, ∃ c', overrideValue c "merge_imports" (.bool b) = some c' ∧
      (getE c' "imports_granularity").val =
        if wasSet c "imports_granularity" then (getE c "imports_granularity").val
        else .str (if b then "Crate" else "Preserve")) ∧
    (∀ s, ∃ c', overrideValue c "fn_args_layout" (.str s) = some c' ∧
      (getE c' "fn_params_layout").val =
        if wasSet c "fn_params_layout" then (getE c "fn_params_layout").val else .str s) ∧
    (∀ b, ∃ c', overrideValue c "hide_parse_errors" (.bool b) = some c' ∧
      (getE c' "show_parse_errors").val =
        if wasSet c "show_parse_errors" then (getE c "show_parse_errors").val else .bool (!b)) := by
  have t1 : checkVal "merge_imports" (.bool true) = true ∧
      checkVal "merge_imports" (.bool false) = true := by decide +kernel
  have t3 : checkVal "hide_parse_errors" (.bool true) = true ∧
      checkVal "hide_parse_errors" (.bool false) = true := by decide +kernel
  have t2 : tagOf "fn_args_layout" = some .str := by decide +kernel
  refine ⟨fun b => ?_, fun s => ?_, fun b => ?_⟩
  · have hv : checkVal "merge_imports" (.bool b) = true := by cases b; exact t1.2; exact t1.1
    refine ⟨_, by simp only [overrideValue, hv, if_true]; rfl, ?_⟩
    rw [dispatch_merge_imports, setMergeImports_eq, getE_setAlias]
    simp only [wasSet, getE_setVal, getE_setWasSet, mergeImportsMap]
    by_cases h : (getE c "imports_granularity").wasSet = true <;> cases b <;> simp [h]
  · have hv : checkVal "fn_args_layout" (.str s) = true :=
      checkVal_str _ _ t2 (enumOk_free _ _ (by decide) (by decide) (by decide) (by decide))
    refine ⟨_, by simp only [overrideValue, hv, if_true]; rfl, ?_⟩
    rw [dispatch_fn_args_layout, setFnArgsLayout_eq, getE_setAlias]
    simp only [wasSet, getE_setVal, getE_setWasSet]
    by_cases h : (getE c "fn_params_layout").wasSet = true <;> simp [h]
  · have hv : checkVal "hide_parse_errors" (.bool b) = true := by cases b; exact t3.2; exact t3.1
    refine ⟨_, by simp only [overrideValue, hv, if_true]; rfl, ?_⟩
    rw [dispatch_hide_parse_errors, setHideParseErrors_eq, getE_setAlias]
    simp only [wasSet, getE_setVal, getE_setWasSet]
    by_cases h : (getE c "show_parse_errors").wasSet = true <;> simp [h, negBool]

/-- The alias `hide_parse_errors` is negated into its successor: `--config hide_parse_errors=true`
yields `show_parse_errors = false`.  (The pinned tree copied the value without negating it, finding
F29, repaired by `fix: hide_parse_errors = true must turn show_parse_errors off`.) -/
theorem hide_parse_errors_negated :
    (overrideValue (defaultWithStyleEdition .e2015) "hide_parse_errors" (.bool true)).map
      (fun c => (getE c "show_parse_errors").val) = some (.bool false) ∧
    (overrideValue (defaultWithStyleEdition .e2015) "hide_parse_errors" (.bool false)).map
      (fun c => (getE c "show_parse_errors").val) = some (.bool true) := by decide +kernel

/-- The same mapping for a config file (nightly channel, where the unstable aliases are accepted):
an alias present in the file sets its successor unless the file sets the successor too. -/
theorem alias_maps_file (parsed : List (String × Val)) (seOv edOv verOv) (c : Config)
    (hc0 : c = toParsedConfig ⟨true⟩ parsed seOv edOv verOv) :
    (∀ b, parsed.lookup "merge_imports" = some (.bool b) →
      (getE c "imports_granularity").val =
        match parsed.lookup "imports_granularity" with
        | some g => g
        | none => .str (if b then "Crate" else "Preserve")) ∧
    (∀ v, parsed.lookup "fn_args_layout" = some v →
      (getE c "fn_params_layout").val =
        match parsed.lookup "fn_params_layout" with
        | some g => g
        | none => v) ∧
    (∀ v, parsed.lookup "hide_parse_errors" = some v →
      (getE c "show_parse_errors").val =
        match parsed.lookup "show_parse_errors" with
        | some g => g
        | none => negBool v) := by
  rw [hc0, style_edition_override_beats_file]
  exact alias_file parsed _

example : ([("merge_imports", Val.bool true)] : List (String × Val)).lookup "merge_imports" =
    some (.bool true) := by decide

/-! ## Width heuristics -/

/-- Right after any recomputation of the heuristics, a width option that was set never exceeds
`max_width` — whatever operations came before.  (`c` is any configuration whose
`use_small_heuristics` holds one of the three variants.) -/
theorem explicit_width_clamped (c : Config)
    (hok : (Heuristics.ofVal? (getE c "use_small_heuristics").val).isSome = true) :
    ∀ w ∈ widthKeys, wasSet (setHeuristics c) w = true →
      natOf (setHeuristics c) w ≤ natOf (setHeuristics c) "max_width" :=
  clamped_setHeuristics c hok

example : (Heuristics.ofVal? (getE (defaultWithStyleEdition .e2015) "use_small_heuristics").val).isSome
    = true := by decide +kernel

/-- … and the clamping is an invariant of the whole interface: after ANY sequence of file loads,
`override_value`, `set()` and `set_cli()` calls (on any keys, in any order) starting from a default
configuration, every width option that was set is at most `max_width`.  This uses the generated
dispatch tables: a key that changes `max_width` or a width without triggering `set_heuristics`
would break the proof. -/
theorem explicit_width_clamped_reachable (env : Env) (se : StyleEdition) (ops : List Op)
    (c : Config) (h : runOps env ops (defaultWithStyleEdition se) = some c) :
    ∀ w ∈ widthKeys, wasSet c w = true → natOf c w ≤ natOf c "max_width" :=
  (inv_runOps env ops _ c h (inv_default se)).2

example : (runOps ⟨true⟩ [.file [("fn_call_width", .nat 300)], .override "max_width" (.nat 80),
    .set "chain_width" (.nat 500)] (defaultWithStyleEdition .e2015)).map
      (fun c => (natOf c "fn_call_width", wasSet c "fn_call_width")) = some (80, true) := by decide +kernel

/-- The same for everything `load_config` can return (any tree, file contents, options). -/
theorem explicit_width_clamped_load {α} [DecidableEq α] (env : Env) (fs : FS α)
    (fp : Option (List α)) (opts : Option (CliOptions α)) (c : Config)
    (p : Option (ConfigFile α)) (h : loadConfig env fs fp opts = .ok (c, p)) :
    ∀ w ∈ widthKeys, wasSet c w = true → natOf c w ≤ natOf c "max_width" :=
  (inv_loadConfig env fs fp opts c p h).2

example : (loadConfig ⟨true⟩ (oneFile [("chain_width", .nat 500)]) (some [])
    (some { inlineConfig := [("max_width", .nat 90)] })).toOption.map
      (fun r => (natOf r.1 "chain_width", wasSet r.1 "chain_width")) = some (90, true) := by
  decide +kernel

/-- The integer `scaled` never exceeds `max_width` exactly from `max_width = 70` on (each width has
its own threshold: 60, 70, 18, 35, 60, 60, 50, 50); `WidthHeuristics::set` never does. -/
theorem scaled_le_max_iff (mw : Nat) :
    ((∀ p ∈ (WidthHeuristics.scaled mw).toList, p.2 ≤ mw) ↔ 70 ≤ mw) ∧
    (∀ p ∈ (WidthHeuristics.set mw).toList, p.2 ≤ mw) :=
  ⟨scaled_le_iff mw, set_le mw⟩

/-- Widths derived from `use_small_heuristics` never exceed `max_width` — PARTIAL: for `Max` always,
for `Default` when `max_width ≥ 70`; all eight widths, set or not, after `set_heuristics`. -/
theorem heuristic_widths_le_max_partial (c : Config)
    (h : (getE c "use_small_heuristics").val = .str "Max" ∨
      ((getE c "use_small_heuristics").val = .str "Default" ∧ 70 ≤ natOf c "max_width")) :
    ∀ w ∈ widthKeys, natOf (setHeuristics c) w ≤ natOf (setHeuristics c) "max_width" := by
  rcases h with h | ⟨h, hmw⟩
  · exact widths_le_of_heur_le c (WidthHeuristics.set (natOf c "max_width"))
      (by simp [heurOf, h, Heuristics.ofVal?, natOf]) (set_le _)
  · exact widths_le_of_heur_le c (WidthHeuristics.scaled (natOf c "max_width"))
      (by simp [heurOf, h, Heuristics.ofVal?, natOf]) ((scaled_le_iff _).2 hmw)

example : (getE (defaultWithStyleEdition .e2015) "use_small_heuristics").val = .str "Default" ∧
    70 ≤ natOf (defaultWithStyleEdition .e2015) "max_width" := by decide +kernel

/-- F8: with the default heuristics and `max_width = 50`, `fn_call_width` is 60 and
`attr_fn_like_width` 70; already at `max_width = 69` the latter exceeds it. -/
theorem heuristic_default_counterexample :
    (overrideValue (defaultWithStyleEdition .e2015) "max_width" (.nat 50)).map
      (fun c => (natOf c "max_width", natOf c "fn_call_width", natOf c "attr_fn_like_width"))
      = some (50, 60, 70) ∧
    (overrideValue (defaultWithStyleEdition .e2015) "max_width" (.nat 69)).map
      (fun c => (natOf c "max_width", natOf c "attr_fn_like_width")) = some (69, 70) := by decide +kernel

/-- F8: `use_small_heuristics = Off` sets four of the widths to `usize::MAX` (which is also why
`--print-config current` cannot serialise them). -/
theorem heuristic_off_counterexample :
    (overrideValue (defaultWithStyleEdition .e2015) "use_small_heuristics" (.str "Off")).map
      (fun c => (natOf c "max_width", natOf c "fn_call_width", natOf c "struct_lit_width"))
      = some (100, 18446744073709551615, 0) := by decide +kernel

/-- The integer model of `WidthHeuristics::scaled` agrees with the operation-by-operation f32
emulation for every `max_width ≤ 1000` (the Rust function was compared exhaustively with both:
they agree up to 10 485 783; beyond, only `scaledF32` follows the Rust code). -/
theorem scaled_eq_scaledF32 :
    ∀ mw ∈ List.range 1001, WidthHeuristics.scaled mw = WidthHeuristics.scaledF32 mw := by
  decide +kernel

/-- … and where they part: at 10 485 784 the f32 code gives 6 291 474, the integer formula
6 291 468. -/
theorem scaled_f32_diverges :
    (WidthHeuristics.scaledF32 10485784).fnCallWidth = 6291474 ∧
    (WidthHeuristics.scaled 10485784).fnCallWidth = 6291468 := by decide +kernel

/-! ## Same value, same effect -/

/-- One option `k = v` has the same effect from a config file and from `--config` — PARTIAL.
`load_config` for a file in `/` with `/rustfmt.toml` containing `k = v` and no flag, and
`load_config` with no config file and `--config k=v`, succeed and give the same effective
configuration (same value, `was_set`, `was_set_cli` for every option), for every option/value pair
the parser accepts, provided (1) on the stable channel `k` is a stable option and `v` a stable
variant (the file path drops unstable ones, `--config` does not) and (2) `k` is none of `verbose`,
`file_lines`, `unstable_features`, which `apply_to` overwrites after the file was read. -/
theorem same_value_same_effect_partial (env : Env) (k : String) (v : Val)
    (hv : checkVal k v = true) (hs : isStableOptionAndValue env k v = true)
    (hk : k ∉ ["verbose", "file_lines", "unstable_features"]) :
    ∃ c1 c2,
      loadConfig env (oneFile [(k, v)]) (some []) (some {}) = .ok (c1, some ⟨[], false⟩) ∧
      loadConfig env noFile (some []) (some { inlineConfig := [(k, v)] }) = .ok (c2, none) ∧
      Equiv c1 c2 :=
  same_value_load env k v hv hs hk

example : checkVal "max_width" (.nat 80) = true ∧
    isStableOptionAndValue ⟨false⟩ "max_width" (.nat 80) = true ∧
    "max_width" ∉ ["verbose", "file_lines", "unstable_features"] := by decide +kernel

/-- Why hypothesis (1): on the stable channel `brace_style = "AlwaysNextLine"` in a file is ignored
(with a warning) while `--config brace_style=AlwaysNextLine` takes effect. -/
theorem same_value_stable_channel_counterexample :
    (loadConfig ⟨false⟩ (oneFile [("brace_style", .str "AlwaysNextLine")]) (some [])
        (some {})).toOption.map (fun r => (getE r.1 "brace_style").val)
      = some (.str "SameLineWhere") ∧
    (loadConfig ⟨false⟩ noFile (some [])
        (some { inlineConfig := [("brace_style", .str "AlwaysNextLine")] })).toOption.map
      (fun r => (getE r.1 "brace_style").val) = some (.str "AlwaysNextLine") := by decide +kernel

/-- Why hypothesis (2) — finding: `unstable_features = true` in `rustfmt.toml` is reset to `false`
by `GetOptsOptions::apply_to` (which calls `config.set().unstable_features(false)` when the flag is
absent), whereas `--config unstable_features=true` is applied after that and sticks. -/
theorem same_value_flag_clobber_counterexample :
    (loadConfig ⟨true⟩ (oneFile [("unstable_features", .bool true)]) (some [])
        (some {})).toOption.map (fun r => (getE r.1 "unstable_features").val)
      = some (.bool false) ∧
    (loadConfig ⟨true⟩ noFile (some [])
        (some { inlineConfig := [("unstable_features", .bool true)] })).toOption.map
      (fun r => (getE r.1 "unstable_features").val) = some (.bool true) := by decide +kernel

/-- The public API setter `config.set().k(v)` leaves the same VALUES as `override_value(k, v)` for
every option except the eight width options and the three deprecated aliases (it never marks the
option as set, so the provenance bits differ) — PARTIAL, see the two counter-examples. -/
theorem api_same_values_partial (c : Config) (k : String) (v : Val) (hv : checkVal k v = true)
    (hw : k ∉ widthKeys) (ha : k ∉ ["merge_imports", "fn_args_layout", "hide_parse_errors"]) :
    ∃ c1 c2, configSet c k v = some c1 ∧ overrideValue c k v = some c2 ∧
      ∀ k', (getE c1 k').val = (getE c2 k').val :=
  api_same_values c k v hv hw ha

example : checkVal "max_width" (.nat 120) = true ∧ "max_width" ∉ widthKeys ∧
    "max_width" ∉ ["merge_imports", "fn_args_layout", "hide_parse_errors"] := by decide +kernel

/-- F16: `config.set().fn_call_width(50)` on a default config has no effect — the value stays 60,
because `ConfigSetter` does not mark the option as set and the `set_heuristics()` it triggers
overwrites the value just stored; `override_value` (and a file) give 50.  Same for the other seven
width options. -/
theorem api_setter_counterexample :
    (configSet (defaultWithStyleEdition .e2015) "fn_call_width" (.nat 50)).map
      (fun c => natOf c "fn_call_width") = some 60 ∧
    (overrideValue (defaultWithStyleEdition .e2015) "fn_call_width" (.nat 50)).map
      (fun c => natOf c "fn_call_width") = some 50 ∧
    (∀ w ∈ widthKeys, (configSet (defaultWithStyleEdition .e2015) w (.nat 7)).map
      (fun c => natOf c w) = some (natOf (defaultWithStyleEdition .e2015) w)) := by decide +kernel

/-- Finding (same cause as F16): the API setter of a deprecated alias does nothing to its successor —
`config.set().merge_imports(true)` leaves `imports_granularity = Preserve`, because
`set_merge_imports` only acts when `was_set().merge_imports()`, which the setter never makes true;
`override_value` gives `Crate`. -/
theorem api_alias_counterexample :
    (configSet (defaultWithStyleEdition .e2015) "merge_imports" (.bool true)).map
      (fun c => (getE c "imports_granularity").val) = some (.str "Preserve") ∧
    (overrideValue (defaultWithStyleEdition .e2015) "merge_imports" (.bool true)).map
      (fun c => (getE c "imports_granularity").val) = some (.str "Crate") := by decide +kernel

/-! ## Order of the `--config` pairs -/

/-- F3: `--config max_width=120,fn_call_width=110` — applied in this order `fn_call_width` ends at
110, in the other order at 100 (clamped against the `max_width` of the moment, destructively).
`inline_config` is a `HashMap`, so either order can occur. -/
theorem override_order_counterexample :
    (applyInline [("max_width", .nat 120), ("fn_call_width", .nat 110)]
      (defaultWithStyleEdition .e2015)).map (fun c => natOf c "fn_call_width") = some 110 ∧
    (applyInline [("fn_call_width", .nat 110), ("max_width", .nat 120)]
      (defaultWithStyleEdition .e2015)).map (fun c => natOf c "fn_call_width") = some 100 := by
  decide +kernel

/-- The order of the `--config` pairs does not matter — PARTIAL: when `max_width` is not among them.
For two orders `l1`, `l2` of the same pairs (distinct keys, well-typed values) and any starting
configuration with a valid `use_small_heuristics`, both runs succeed and give the same effective
configuration. -/
theorem override_order_independent_partial (l1 l2 : List (String × Val)) (hp : l1.Perm l2)
    (hnd : (l1.map (·.1)).Nodup) (hmw : "max_width" ∉ l1.map (·.1))
    (hv : ∀ kv ∈ l1, checkVal kv.1 kv.2 = true) (c : Config)
    (hc : (Heuristics.ofVal? (getE c "use_small_heuristics").val).isSome = true) :
    ∃ c1 c2, applyInline l1 c = some c1 ∧ applyInline l2 c = some c2 ∧ Equiv c1 c2 := by
  obtain ⟨c1, h1⟩ := applyInline_some l1 c hv
  obtain ⟨c2, h2⟩ := applyInline_some l2 c (fun kv hkv => hv kv (hp.mem_iff.2 hkv))
  exact ⟨c1, c2, h1, h2, (applyInline_equiv_ovs l1 c c1 h1).trans
    ((ovs_perm l1 l2 hp hnd hmw hv c hc).trans (applyInline_equiv_ovs l2 c c2 h2).symm)⟩

example :
    let l1 := [("fn_call_width", Val.nat 90), ("use_small_heuristics", Val.str "Max")]
    (l1.map (·.1)).Nodup ∧ "max_width" ∉ l1.map (·.1) ∧
    (∀ kv ∈ l1, checkVal kv.1 kv.2 = true) ∧
    (Heuristics.ofVal? (getE (defaultWithStyleEdition .e2015) "use_small_heuristics").val).isSome
      = true := by decide +kernel

example : [("fn_call_width", Val.nat 90), ("use_small_heuristics", Val.str "Max")].Perm
    [("use_small_heuristics", Val.str "Max"), ("fn_call_width", Val.nat 90)] :=
  List.Perm.swap _ _ _

/-- … and when `max_width` IS among them, applying it first makes the rest order-independent
(the fix proposed for F3). -/
theorem override_order_max_width_first (m : Val) (l1 l2 : List (String × Val)) (hp : l1.Perm l2)
    (hnd : (l1.map (·.1)).Nodup) (hmw : "max_width" ∉ l1.map (·.1))
    (hm : checkVal "max_width" m = true) (hv : ∀ kv ∈ l1, checkVal kv.1 kv.2 = true) (c : Config)
    (hc : (Heuristics.ofVal? (getE c "use_small_heuristics").val).isSome = true) :
    ∃ c1 c2, applyInline (("max_width", m) :: l1) c = some c1 ∧
      applyInline (("max_width", m) :: l2) c = some c2 ∧ Equiv c1 c2 := by
  have h0 : overrideValue c "max_width" m =
      some (dispatch overrideValueDispatch "max_width" (setVal (setWasSet c "max_width") "max_width" m)) := by
    simp only [overrideValue, hm, if_true]
  have hc0 : HeurOK (dispatch overrideValueDispatch "max_width"
      (setVal (setWasSet c "max_width") "max_width" m)) := by
    rw [heurOK_dispatch]
    unfold HeurOK
    rw [getE_override_store, getE_upd]
    simpa using hc
  obtain ⟨c1, c2, h1, h2, he⟩ := override_order_independent_partial l1 l2 hp hnd hmw hv _ hc0
  exact ⟨c1, c2, by simp only [applyInline, h0, h1], by simp only [applyInline, h0, h2], he⟩

/-- Since the repair of F3 (the generated flag `inlineMaxWidthFirst`), the configuration that
`apply_to` produces does not depend on the iteration order of the `HashMap` of `--config` pairs: for
every command line `o`, every other order `l2` of its pairs (distinct keys — it is a map —, values
accepted by `is_valid_key_val`, `max_width` allowed among them) and every starting configuration
with a valid `use_small_heuristics`, both runs succeed and give the same effective configuration.
This is the full-strength statement whose pre-repair failure is `override_order_counterexample`. -/
theorem apply_to_order_independent {α : Type} (o : CliOptions α) (l2 : List (String × Val))
    (hp : o.inlineConfig.Perm l2) (hnd : (o.inlineConfig.map (·.1)).Nodup)
    (hv : ∀ kv ∈ o.inlineConfig, checkVal kv.1 kv.2 = true) (c : Config)
    (hc : (Heuristics.ofVal? (getE c "use_small_heuristics").val).isSome = true) :
    ∃ c1 c2, applyTo o c = some c1 ∧ applyTo { o with inlineConfig := l2 } c = some c2 ∧
      Equiv c1 c2 := by
  obtain ⟨c0, h0⟩ := applyFlagCalls_some (flagCalls o) c (flagCalls_valid o)
  have hc0 : (Heuristics.ofVal? (getE c0 "use_small_heuristics").val).isSome = true :=
    heurOK_applyFlagCalls _ c c0 h0 hc
  have hf : flagCalls ({ o with inlineConfig := l2 } : CliOptions α) = flagCalls o := rfl
  have hm := filter_max_width_eq o.inlineConfig l2 hp hnd
  let r1 := o.inlineConfig.filter (fun kv => !(kv.1 == "max_width"))
  let r2 := l2.filter (fun kv => !(kv.1 == "max_width"))
  have hpr : r1.Perm r2 := hp.filter _
  have hndr : (r1.map (·.1)).Nodup := (List.filter_sublist.map _).nodup hnd
  have hmwr : "max_width" ∉ r1.map (·.1) := by
    intro hmem
    obtain ⟨kv, hkv, hk⟩ := List.mem_map.1 hmem
    have := (List.mem_filter.1 hkv).2
    simp [hk] at this
  have hvr : ∀ kv ∈ r1, checkVal kv.1 kv.2 = true :=
    fun kv hkv => hv kv (List.mem_filter.1 hkv).1
  have e1 : applyTo o c =
      applyInline (o.inlineConfig.filter (fun kv => kv.1 == "max_width") ++ r1) c0 := by
    simp only [applyTo, h0, bindO, orderInline_eq, maxWidthFirst, r1]
  have e2 : applyTo ({ o with inlineConfig := l2 } : CliOptions α) c =
      applyInline (o.inlineConfig.filter (fun kv => kv.1 == "max_width") ++ r2) c0 := by
    simp only [applyTo, hf, h0, bindO, orderInline_eq, maxWidthFirst, r2, hm]
  rw [e1, e2]
  have hall : ∀ kv ∈ o.inlineConfig.filter (fun kv => kv.1 == "max_width"), kv.1 = "max_width" := by
    intro kv hkv
    have := (List.mem_filter.1 hkv).2
    simpa using this
  have hlen : ((o.inlineConfig.filter (fun kv => kv.1 == "max_width")).map (·.1)).Nodup :=
    (List.filter_sublist.map _).nodup hnd
  cases hmf : o.inlineConfig.filter (fun kv => kv.1 == "max_width") with
  | nil =>
    simp only [List.nil_append]
    exact override_order_independent_partial r1 r2 hpr hndr hmwr hvr c0 hc0
  | cons a r =>
    cases r with
    | nil =>
      obtain ⟨ka, m⟩ := a
      have hka : ka = "max_width" := hall (ka, m) (by rw [hmf]; simp)
      subst hka
      have hmv : checkVal "max_width" m = true :=
        hv ("max_width", m) (List.mem_filter.1 (by rw [hmf]; simp : ("max_width", m) ∈ _)).1
      simp only [List.cons_append, List.nil_append]
      exact override_order_max_width_first m r1 r2 hpr hndr hmwr hmv hvr c0 hc0
    | cons b r' =>
      exfalso
      rw [hmf] at hlen hall
      have ha := hall a (by simp)
      have hb := hall b (by simp)
      simp only [List.map_cons, List.nodup_cons, List.mem_cons, not_or] at hlen
      exact hlen.1.1 (ha.trans hb.symm)

example :
    let o : CliOptions Nat := { inlineConfig := [("fn_call_width", .nat 110), ("max_width", .nat 120)] }
    (o.inlineConfig.map (·.1)).Nodup ∧ (∀ kv ∈ o.inlineConfig, checkVal kv.1 kv.2 = true) ∧
    (applyTo o (defaultWithStyleEdition .e2015)).map (fun c => natOf c "fn_call_width") = some 110 ∧
    (applyTo { o with inlineConfig := o.inlineConfig.reverse } (defaultWithStyleEdition .e2015)).map
      (fun c => natOf c "fn_call_width") = some 110 := by decide +kernel

/-! ## `--print-config`: print, then load the printed text -/

/-- The text printed by `--print-config default|current` re-parses to the same effective
configuration — PARTIAL.  For a configuration `c` that holds exactly the options of the table (true
of everything the code builds, cf. `default_wf`), that can be printed (`toToml c = some l`: no
integer above `i64::MAX`, which excludes `use_small_heuristics = "Off"`, F8a), whose printed values
the parser accepts, and in which no width exceeds `max_width` (which excludes F8b): loading the
printed text as a config file (nightly channel, no command-line override) succeeds and gives every
printed option — every option outside the generated list `tomlHidden` — its value back.  The hidden
ones (`verbose`, `file_lines`, the deprecated aliases, …) are not in the text and come back as
defaults.  Both excluded cases are proved counter-examples below. -/
theorem toml_roundtrip_partial (c : Config) (l : List (String × Val))
    (hkeys : c.map (·.1) = optionNames) (hprint : toToml c = some l)
    (htyped : validParsed l = true)
    (hwidth : ∀ w ∈ widthKeys, natOf c w ≤ natOf c "max_width") :
    ∃ c2, roundTrip ⟨true⟩ c = some c2 ∧
      ∀ k ∈ optionNames, tomlHidden.contains k = false → (getE c2 k).val = (getE c k).val :=
  roundTrip_values c l hkeys hprint htyped hwidth

/-- Non-vacuity: the default configuration of every released style edition, and one loaded from a
file with an explicit width, satisfy the four hypotheses; and the round trip is `[]`-different. -/
example :
    let c := defaultWithStyleEdition .e2024
    c.map (·.1) = optionNames ∧ (toToml c).isSome = true ∧
    ((toToml c).map validParsed) = some true ∧
    (∀ w ∈ widthKeys, natOf c w ≤ natOf c "max_width") ∧
    ((roundTrip ⟨true⟩ c).map (valueDiff c)) = some [] := by decide +kernel

example :
    (fromToml ⟨true⟩ [("max_width", .nat 80), ("chain_width", .nat 500),
        ("use_small_heuristics", .str "Max"), ("merge_imports", .bool true)] none none none).map
      (fun c => (c.map (·.1) == optionNames, (toToml c).map validParsed,
        widthKeys.all (fun w => natOf c w ≤ natOf c "max_width"),
        (roundTrip ⟨true⟩ c).map (valueDiff c))) = some (true, some true, true, some []) := by
  decide +kernel

/-- F8a: the configuration under `use_small_heuristics = "Off"` cannot be printed at all. -/
theorem print_config_off_counterexample :
    (overrideValue (defaultWithStyleEdition .e2015) "use_small_heuristics" (.str "Off")).map toToml
      = some none := by decide +kernel

/-- F8b: under the default heuristics with `max_width = 50` the printed text loads back with
`fn_call_width`, `attr_fn_like_width`, `array_width` and `chain_width` clamped to 50: print / re-parse
is not the identity (hypothesis `hwidth` of `toml_roundtrip_partial` fails). -/
theorem toml_roundtrip_counterexample :
    (overrideValue (defaultWithStyleEdition .e2015) "max_width" (.nat 50)).map
      (fun c => (roundTrip ⟨true⟩ c).map (valueDiff c))
      = some (some ["fn_call_width", "attr_fn_like_width", "array_width", "chain_width"]) := by
  decide +kernel

/-- `to_toml` prints exactly the options outside the hidden list, each once, in declaration order
(for a configuration holding the options of the table), and fails exactly when one of them holds an
integer above `i64::MAX`. -/
theorem print_config_lists_every_option (c : Config) (hkeys : c.map (·.1) = optionNames) :
    (∀ l, toToml c = some l →
      l.map (·.1) = optionNames.filter (fun k => !tomlHidden.contains k)) ∧
    (toToml c = none ↔ ∃ k ∈ optionNames, tomlHidden.contains k = false ∧
      ∃ n, (getE c k).val = .nat n ∧ i64Max < n) := by
  have hmapfilter : ∀ (c : Config), ((allOptions c).filter fun kv => !tomlHidden.contains kv.1).map (·.1) =
      (c.map (·.1)).filter (fun k => !tomlHidden.contains k) := by
    intro c
    induction c with
    | nil => rfl
    | cons a r ih =>
      obtain ⟨k, e⟩ := a
      by_cases h : tomlHidden.contains k = true
      · simp only [allOptions, List.map_cons, List.filter, h, Bool.not_true] at ih ⊢
        exact ih
      · have h' : tomlHidden.contains k = false := by simpa using h
        simp only [allOptions, List.map_cons, List.filter, h', Bool.not_false] at ih ⊢
        rw [ih]
  refine ⟨fun l hl => by rw [toToml_some c l hl, hmapfilter, hkeys], ?_⟩
  unfold toToml
  simp only
  constructor
  · intro h
    split at h
    · cases h
    · next hall =>
      rw [List.all_eq_true] at hall
      have : ∃ kv ∈ (allOptions c).filter (fun kv => !tomlHidden.contains kv.1),
          ¬ (match kv.2 with | .nat n => decide (n ≤ i64Max) | _ => true) = true := by
        apply Classical.byContradiction
        intro hne
        exact hall fun kv hkv => Classical.byContradiction fun hc => hne ⟨kv, hkv, hc⟩
      obtain ⟨kv, hkv, hbad⟩ := this
      obtain ⟨k, v⟩ := kv
      have hm := List.mem_filter.1 hkv
      have hkmem : k ∈ optionNames := by
        rw [← hkeys]
        obtain ⟨p, hp, hpe⟩ := List.mem_map.1 hm.1
        cases hpe
        exact List.mem_map.2 ⟨p, hp, rfl⟩
      have hh : tomlHidden.contains k = false := by simpa using hm.2
      have hlk := lookup_printed c hkeys k hkmem
      rw [hh] at hlk
      simp only [Bool.false_eq_true, if_false] at hlk
      -- the printed list has distinct keys, so the member `(k, v)` is what `lookup` finds
      have hnd : (((allOptions c).filter fun kv => !tomlHidden.contains kv.1).map (·.1)).Nodup := by
        rw [hmapfilter, hkeys]
        exact (List.filter_sublist.nodup (by decide +kernel : optionNames.Nodup))
      have hv : v = (getE c k).val := by
        have := lookup_of_mem_nodup _ k v hkv hnd
        rw [hlk] at this
        exact (Option.some.inj this).symm
      cases v with
      | nat n => exact ⟨k, hkmem, hh, n, hv.symm, by simpa using hbad⟩
      | bool b => simp at hbad
      | str s => simp at hbad
  · rintro ⟨k, hk, hh, n, hn, hlt⟩
    split
    · next hall =>
      exfalso
      rw [List.all_eq_true] at hall
      have hmem : (k, Val.nat n) ∈ (allOptions c).filter (fun kv => !tomlHidden.contains kv.1) := by
        have hlk := lookup_printed c hkeys k hk
        rw [hh, hn] at hlk
        simp only [Bool.false_eq_true, if_false] at hlk
        exact mem_of_lookup _ k _ hlk
      have := hall _ hmem
      simp only [decide_eq_true_eq] at this
      omega
    · rfl

example : (defaultWithStyleEdition .e2015).map (·.1) = optionNames := by decide +kernel

/-! ## Release channel -/

/-- `is_stable_option_and_value`: everything is accepted on the nightly channel; on the stable
channel exactly the stable options with a stable variant. -/
theorem is_stable_option_and_value_spec (env : Env) (k : String) (v : Val) :
    isStableOptionAndValue env k v = (env.nightly || (stableOf k && variantStable k v)) := by
  obtain ⟨n⟩ := env
  unfold isStableOptionAndValue
  cases n <;> cases stableOf k <;> cases variantStable k v <;> rfl

/-- On the stable channel a config file cannot change an unstable option: whatever the file says,
every option marked unstable in the generated table keeps the entry of the default configuration
(value and provenance) after `fill_from_parsed_config` — including the successors
`imports_granularity` / `show_parse_errors` of the (unstable) aliases.  (`--config` is not gated:
`same_value_stable_channel_counterexample`.) -/
theorem stable_channel_gating (se : StyleEdition) (parsed : List (String × Val)) (k : String)
    (hk : stableOf k = false) :
    getE (fillFromParsedConfig ⟨false⟩ (defaultWithStyleEdition se) parsed) k =
      getE (defaultWithStyleEdition se) k := by
  have hwidth : ∀ w ∈ widthKeys, stableOf w = true := by decide +kernel
  have hkw : k ∉ widthKeys := fun h => by rw [hwidth k h] at hk; cases hk
  have hal : stableOf "merge_imports" = false ∧ stableOf "hide_parse_errors" = false ∧
      stableOf "fn_args_layout" = true ∧ stableOf "fn_params_layout" = true := by decide +kernel
  have hfold : ∀ a, stableOf a = false →
      getE (optionNames.foldl (fillStore ⟨false⟩ parsed) (defaultWithStyleEdition se)) a =
        getE (defaultWithStyleEdition se) a := by
    intro a ha
    rw [getE_fillFold]
    split
    · unfold fillEntry
      cases parsed.lookup a with
      | none => rfl
      | some v =>
        have : isStableOptionAndValue ⟨false⟩ a v = false := by
          rw [is_stable_option_and_value_spec, ha]; rfl
        simp [this]
    · rfl
  have hws : ∀ a, stableOf a = false →
      wasSet (setHeuristics (optionNames.foldl (fillStore ⟨false⟩ parsed)
        (defaultWithStyleEdition se))) a = false := by
    intro a ha
    rw [wasSet_setHeuristics]
    unfold wasSet
    rw [hfold a ha]
    exact wasSet_default se a
  unfold fillFromParsedConfig setVersion
  simp only
  rw [setMergeImports_eq, setAlias_of_not_set _ _ _ _ (hws _ hal.1)]
  have hws2 : wasSet (setFnArgsLayout (setHeuristics (optionNames.foldl (fillStore ⟨false⟩ parsed)
      (defaultWithStyleEdition se)))) "hide_parse_errors" = false := by
    rw [setFnArgsLayout_eq, wasSet_setAlias]; exact hws _ hal.2.1
  rw [setHideParseErrors_eq, setAlias_of_not_set _ _ _ _ hws2]
  have hk1 : k ∉ ["fn_args_layout", "fn_params_layout"] := by
    intro h
    simp only [List.mem_cons, List.not_mem_nil, or_false] at h
    rcases h with rfl | rfl
    · rw [hal.2.2.1] at hk; cases hk
    · rw [hal.2.2.2] at hk; cases hk
  rw [local_setFnArgsLayout.1 _ k hk1, getE_setHeuristics_of_not_width _ _ hkw, hfold k hk]

example : stableOf "brace_style" = false ∧
    (getE (fillFromParsedConfig ⟨false⟩ (defaultWithStyleEdition .e2015)
      [("brace_style", .str "AlwaysNextLine"), ("merge_imports", .bool true), ("max_width", .nat 80)])
      "max_width").val = .nat 80 := by decide +kernel

/-- A quirk of the stable channel: `style_edition = "2027"` (an unstable variant) in a file is not
stored (`was_set` stays false) but still SELECTS the defaults — `to_parsed_config` looks at the
parsed value before `is_stable_option_and_value` is asked —, so the configuration gets the 2024
defaults (`style_edition = 2024`, `version = Two`). -/
theorem unstable_variant_still_selects_defaults :
    (fromToml ⟨false⟩ [("style_edition", .str "2027")] none none none).map
      (fun c => ((getE c "style_edition").val, wasSet c "style_edition", (getE c "version").val))
      = some (.str "2024", false, .str "Two") := by decide +kernel

end RF.Props.C14
