//! The repo's own fixtures as a corpus of programs with their `// rustfmt-key: value` headers.
use std::path::{Path, PathBuf};

use rustfmt_nightly::Config;

use crate::util::repo_dir;

#[derive(Clone, Debug)]
pub struct Program {
    pub name: String,
    pub src: String,
    pub cfg: Vec<(String, String)>,
}

fn walk(dir: &Path, out: &mut Vec<PathBuf>) {
    if let Ok(rd) = std::fs::read_dir(dir) {
        let mut es: Vec<_> = rd.flatten().map(|e| e.path()).collect();
        es.sort();
        for p in es {
            if p.is_dir() {
                walk(&p, out);
            } else if p.extension().map(|e| e == "rs").unwrap_or(false) {
                out.push(p);
            }
        }
    }
}

/// `// rustfmt-key: value` headers that are valid configuration overrides
pub fn header_config(src: &str) -> Vec<(String, String)> {
    let mut v = vec![];
    for line in src.lines() {
        let t = line.trim_start();
        if let Some(rest) = t.strip_prefix("//") {
            let rest = rest.trim_start();
            if let Some(kv) = rest.strip_prefix("rustfmt-") {
                if let Some((k, val)) = kv.split_once(':') {
                    let (k, val) = (k.trim().to_string(), val.trim().to_string());
                    // not layout options / not expressible as a plain `--config k=v`
                    const DROP: &[&str] = &["file_lines", "emit_mode", "verbose", "color", "ignore", "required_version", "make_backup", "print_misformatted_file_names", "width_heuristics"];
                    if !val.is_empty() && !val.contains(' ') && !val.contains(',') && !DROP.contains(&k.as_str()) && Config::is_valid_key_val(&k, &val) {
                        v.push((k, val));
                    }
                }
            }
        }
    }
    v
}

/// dirs: e.g. ["tests/source", "tests/target", "src"]
pub fn programs(dirs: &[&str]) -> Vec<Program> {
    let repo = repo_dir();
    let mut files = vec![];
    for d in dirs {
        walk(&repo.join(d), &mut files);
    }
    let mut res = vec![];
    for p in files {
        if let Ok(src) = std::fs::read_to_string(&p) {
            let name = p.strip_prefix(&repo).unwrap_or(&p).to_string_lossy().into_owned();
            let cfg = header_config(&src);
            res.push(Program { name, src, cfg });
        }
    }
    res
}
