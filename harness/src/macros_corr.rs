//! The macro token-stream paths of rustfmt (`src/macros.rs`, `src/parse/macros/mod.rs`) against the Lean model
//! `RF/Model/MacroFmt.lean` (theorems in `RF/Props/MacroFmt.lean`), and end to end under the C01 validator.
//!
//! corr   mac.matcher   `format_macro_args` (the matcher formatter: `MacroArgParser` + `wrap_macro_args`) on the token
//!                      trees rustc gives for the matcher text, at an explicit shape and configuration
//!        mac.replace   `replace_names`
//!        mac.branches  `MacroParser::parse` on the token trees of a definition's body
//!        mac.style     `macro_style` on the source text of a call
//!        mac.args      `parse_macro_args` on argument streams built from a word over {argument, item, `,`, `;`, junk}
//! oracle mac.toks      the statement of `matcher_tokens_preserved` evaluated on the model's answer (a cheap re-check of the
//!                      theorem on the very inputs of the run)
//!        tok.equiv     END TO END: the C01 validator on (source, output of the real formatter) for macro definitions and
//!                      macro calls under format_macro_matchers / format_macro_bodies on / off at widths 20..100
//! direct undo          `rewrite_macro_def` on a definition whose body is a fixed point of formatting: the body that comes
//!                      back must be what the model's undoing loop gives for SOME order of the substitution map
//!        plan          `rewrite_macro` on a call item: delimiter, trailing separator and `;` as the model's `callPlan` says
use std::collections::BTreeSet;
use std::path::Path;
use std::time::Duration;

use rustfmt_nightly::verif_hooks::macros as hm;
use rustfmt_nightly::Config;
use serde_json::json;

use crate::corpus;
use crate::pool::{self, Job, Status};
use crate::toks::encode_tokens;
use crate::util::*;

fn guard<T>(f: impl FnOnce() -> T) -> Option<T> {
    std::panic::catch_unwind(std::panic::AssertUnwindSafe(f)).ok()
}

fn kv(k: &str, v: impl ToString) -> (String, String) {
    (k.to_string(), v.to_string())
}

/// (hard_tabs, tab_spaces, max_width)
type Cfg3 = (bool, usize, usize);
/// (width, block_indent, alignment, offset)
type Shape4 = (usize, usize, usize, usize);

fn mk_cfg(c: Cfg3, matchers: bool, bodies: bool) -> Config {
    let mut config = Config::default();
    config.override_value("hard_tabs", if c.0 { "true" } else { "false" });
    config.override_value("tab_spaces", &c.1.to_string());
    config.override_value("max_width", &c.2.to_string());
    config.override_value("format_macro_matchers", if matchers { "true" } else { "false" });
    config.override_value("format_macro_bodies", if bodies { "true" } else { "false" });
    config
}

fn enc_cfg(c: Cfg3) -> String {
    format!("{}:{}:{}", c.0 as u8, c.1, c.2)
}
fn enc_shape(s: Shape4) -> String {
    format!("{}:{}:{}:{}", s.0, s.1, s.2, s.3)
}

// ------------------------------------------------------------------------------------------------ matcher texts

/// fragments a matcher is put together from (each balanced on its own)
const LETTERS: &[&str] = &[
    "$a:expr", "$b:ident", "$", "a", ":", ",", ";", "=>", "@", "#", "*", "+", "?", "'a", "1", "\"s\"", ".", "::", "crate", "=", "!", "&", "-",
    "()", "(a)", "[a]", "{a}", "($a:expr)", "{$a:tt}", "[$a:tt , b]", "($a:expr, $b:expr)",
];

/// one text per token kind (and a few literal kinds) for the spacing table
const KINDS: &[&str] = &[
    "=", "<", "<=", "==", "!=", ">=", ">", "&&", "||", "!", "~", "+", "-", "*", "/", "%", "^", "&", "|", "<<", ">>", "+=", "-=", "*=", "/=", "%=", "^=", "&=",
    "|=", "<<=", ">>=", "@", ".", "..", "...", "..=", ",", ";", ":", "::", "->", "<-", "=>", "#", "?", "a", "r#b", "self", "1", "1.5", "\"s\"", "'c'", "b'x'",
    "'a", "_", "2u8", "r\"x\"",
];

fn seqs(alpha: &[&str], n: usize) -> Vec<Vec<String>> {
    let mut res: Vec<Vec<String>> = vec![vec![]];
    let mut layer: Vec<Vec<String>> = vec![vec![]];
    for _ in 0..n {
        let mut next = vec![];
        for s in &layer {
            for a in alpha {
                let mut t = s.clone();
                t.push(a.to_string());
                next.push(t);
            }
        }
        res.extend(next.iter().cloned());
        layer = next;
    }
    res
}

/// the matcher texts of the exhaustive families
fn exhaustive_matchers(thorough: bool) -> Vec<String> {
    let mut v: Vec<String> = vec![];
    for s in seqs(LETTERS, if thorough { 3 } else { 2 }) {
        v.push(s.join(" "));
    }
    // every pair of token kinds in three contexts: plain, behind a metavariable, in front of a group
    for a in KINDS {
        v.push(format!("$x:ty {}", a));
        v.push(format!("{} $x:ty", a));
        v.push(format!("{} (c)", a));
        v.push(format!("$x:ty {} (c)", a));
        for b in KINDS {
            v.push(format!("{} {}", a, b));
            v.push(format!("$x:ty {} {}", a, b));
            v.push(format!("{} {} (c)", a, b));
            if thorough {
                v.push(format!("{} {} $x:ty", a, b));
                v.push(format!("{} {} $(c)*", a, b));
            }
        }
    }
    // repetitions: inner x separator x operator x delimiter
    let inner: &[&str] = &["", "$a:expr", "a", "$a:expr => $b:expr", "$a:ident : $b:ty", ",", "$a:tt ,", "a $b:tt", "$($a:tt)*", "$($a:tt),+ ;", "(a)", "$a:expr ;"];
    let seps: &[&str] = &["", ",", ";", "=>", "a", "$", "::", "'a", "1", "a b", "(x)", "/// d\n", "/", "-"];
    let ops: &[&str] = &["*", "+", "?", "", "a", "* *", "? ,", "+ $x:tt"];
    let delims: &[(&str, &str)] = &[("(", ")"), ("[", "]"), ("{", "}")];
    for i in inner {
        for s in seps {
            for op in ops {
                for (l, r) in delims {
                    v.push(format!("${}{}{} {} {}", l, i, r, s, op));
                }
            }
        }
    }
    // the shapes the task names, and the ones found broken on the pinned tree
    for s in [
        "$a:expr", "$($a:ident),*", "$($k:expr => $v:expr),+ $(,)?", "$($($a:tt)*);*", "$( $( $a:ident ),+ ; )* $(;)?", "$crate", "$crate::foo $a:expr", "$$ a:expr",
        "$$", "$a", "$a $b:expr", "$a (x) *", "$a:r#expr", "$ a : expr", "$a b:expr", "$:expr", "$a:'x", "$a:1", "$a:(x)", "$a:", "$(a)", "$(a) b", "$(a) a b *",
        "/// doc\n $a:expr", "/** doc */ $a:expr", "$a:expr /// doc\n", "1 . 5", "1 . , a", "x . 0 . 0", "1 . .", "a => b ; c @ d # e $ f:tt", "@ # $a:tt",
        "$lt:lifetime 'a 'static", "$a:expr, $($b:tt)*", "$v:vis struct $n:ident { $($f:ident : $t:ty),* $(,)? }", "[$($x:expr),*] => $y:expr", "{ $($k:ident = $v:expr;)* }",
        "$(#[$m:meta])* $vis:vis fn $name:ident ( $($arg:ident : $t:ty),* ) -> $ret:ty $body:block",
    ] {
        v.push(s.to_string());
    }
    v
}

fn random_matcher(rng: &mut Rng, depth: usize) -> String {
    let n = rng.range(0, if depth == 0 { 8 } else { 4 });
    let mut parts = vec![];
    for _ in 0..n {
        let r = rng.below(20);
        let p = if r < 5 {
            let name = *rng.pick(&["a", "bb", "name", "x1", "self_", "r#t"]);
            let frag = *rng.pick(&["expr", "ident", "ty", "tt", "pat", "block", "lifetime", "vis", "literal", "path", "meta", "item", "stmt", "pat_param", "r#x", "'q", "3"]);
            format!("${}:{}", name, frag)
        } else if r < 9 && depth < 4 {
            let (l, rr) = *rng.pick(&[("(", ")"), ("[", "]"), ("{", "}")]);
            let sep = *rng.pick(&["", ",", ";", "=>", "|", "a", "$", "+", "/"]);
            let op = *rng.pick(&["*", "+", "?", "*", "+", "", "x"]);
            format!("${}{}{} {} {}", l, random_matcher(rng, depth + 1), rr, sep, op)
        } else if r < 12 && depth < 4 {
            let (l, rr) = *rng.pick(&[("(", ")"), ("[", "]"), ("{", "}")]);
            format!("{}{}{}", l, random_matcher(rng, depth + 1), rr)
        } else if r < 13 {
            "$".to_string()
        } else if r < 17 {
            rng.pick(KINDS).to_string()
        } else {
            rng.pick(&["foo", "some_long_identifier_name", "Ok", "struct", "impl", "for", "where", "'life", "0x1f", "\"a string\"", "crate"]).to_string()
        };
        parts.push(p);
    }
    parts.join(" ")
}

/// `macro_rules! m<k> { (<matcher>) => {}; }` for every matcher, `per` definitions to a source text
fn defs_sources(matchers: &[String], per: usize) -> Vec<(String, Vec<String>)> {
    let mut res = vec![];
    for chunk in matchers.chunks(per) {
        let mut src = String::new();
        for (k, m) in chunk.iter().enumerate() {
            src.push_str(&format!("macro_rules! m{} {{ ({}) => {{}}; }}\n", k, m));
        }
        res.push((src, chunk.to_vec()));
    }
    res
}

const SHAPES: &[Shape4] = &[(95, 0, 0, 0), (1, 0, 0, 0), (4, 4, 0, 0), (7, 0, 3, 3), (10, 8, 0, 0), (14, 4, 2, 2), (20, 0, 0, 0), (30, 12, 0, 0), (9, 0, 0, 0)];
const CFGS: &[Cfg3] = &[(false, 4, 100), (false, 2, 40), (true, 4, 100), (false, 8, 20), (true, 3, 30), (false, 0, 50), (false, 4, 12)];

/// the hook on one source; `None` = a panic escaped (only `Indent::to_string` with hard tabs of width 0 is known to)
fn defs_of(src: &str, c: Cfg3, sh: Shape4) -> Option<Result<Vec<hm::MacroDef>, String>> {
    let config = mk_cfg(c, true, true);
    guard(|| hm::macro_defs(src, &config, sh))
}

fn push_matcher_cases(o: &mut Outcome, src: &str, c: Cfg3, sh: Shape4, family: &str) {
    match defs_of(src, c, sh) {
        Some(Ok(defs)) => {
            for d in defs {
                if let Some(bs) = &d.branches {
                    for b in bs {
                        let expect = match &b.matcher {
                            Some(s) => format!("ok:{}", enc_str(s)),
                            None => "none".to_string(),
                        };
                        let args = format!("{} {} {}", enc_cfg(c), enc_shape(sh), b.args);
                        o.push("corr", "mac.matcher", format!("mac.matcher {}", args), expect, format!("{}: {}", family, b.span.chars().take(80).collect::<String>()), b.matcher.is_some());
                        // the theorem's statement, evaluated: the model's output keeps the tokens
                        let exp2 = if b.matcher.is_some() { "same" } else { "none" };
                        o.push("oracle", "mac.toks", format!("mac.toks {}", args), exp2.to_string(), format!("{}: tokens of the model's answer", family), b.matcher.is_some());
                        o.count(&format!("matcher:{}:{}", family, if b.matcher.is_some() { "formatted" } else { "left-as-written" }));
                    }
                }
            }
        }
        Some(Err(_)) => o.count(&format!("matcher:{}:source-does-not-parse", family)),
        None => o.count(&format!("matcher:{}:panic", family)),
    }
}

fn matcher_cases(o: &mut Outcome, rng: &mut Rng, thorough: bool, fixtures: &[corpus::Program]) {
    let ex = exhaustive_matchers(thorough);
    o.count_n("matcher-texts-exhaustive", ex.len() as u64);
    for (k, (src, _)) in defs_sources(&ex, 50).iter().enumerate() {
        push_matcher_cases(o, src, CFGS[0], SHAPES[0], "exhaustive");
        let sh = SHAPES[1 + k % (SHAPES.len() - 1)];
        let c = CFGS[k % CFGS.len()];
        push_matcher_cases(o, src, c, sh, "exhaustive-narrow");
        if thorough {
            for j in 0..3 {
                push_matcher_cases(o, src, CFGS[(k + j + 1) % CFGS.len()], SHAPES[1 + (k + 3 * j + 2) % (SHAPES.len() - 1)], "exhaustive-narrow");
            }
        }
    }
    // hard tabs of width 0: `Indent::to_string_inner` divides by it; the model says `panic`
    for m in ["$a:expr", "a b", "$($a:expr),*", ""] {
        let src = format!("macro_rules! m {{ ({}) => {{}}; }}\n", m);
        if let Some(Ok(defs)) = defs_of(&src, CFGS[0], SHAPES[0]) {
            let args = defs[0].branches.as_ref().map(|b| b[0].args.clone()).unwrap_or_default();
            let c: Cfg3 = (true, 0, 100);
            let got = match defs_of(&src, c, (20, 4, 0, 0)) {
                None => "panic".to_string(),
                Some(Ok(d)) => match d[0].branches.as_ref().and_then(|b| b[0].matcher.clone()) {
                    Some(s) => format!("ok:{}", enc_str(&s)),
                    None => "none".to_string(),
                },
                Some(Err(e)) => format!("error:{}", e),
            };
            o.push("corr", "mac.matcher", format!("mac.matcher {} {} {}", enc_cfg(c), enc_shape((20, 4, 0, 0)), args), got, format!("tab width 0: ({})", m), true);
        }
    }
    let n = if thorough { 40000 } else { 2500 };
    let mut texts = vec![];
    for _ in 0..n {
        texts.push(random_matcher(rng, 0));
    }
    for (src, _) in defs_sources(&texts, 25) {
        let sh: Shape4 = (rng.range(1, 70), 4 * rng.below(5), if rng.chance(1, 4) { rng.below(9) } else { 0 }, rng.below(5));
        let c: Cfg3 = (rng.chance(1, 5), *rng.pick(&[4usize, 4, 2, 8, 3, 1]), *rng.pick(&[100usize, 60, 20, 37]));
        push_matcher_cases(o, &src, c, sh, "random");
    }
    // every macro definition of the fixtures (top-level items of files that parse)
    let mut seen = BTreeSet::new();
    for (k, p) in fixtures.iter().enumerate() {
        if !p.src.contains("macro") || !seen.insert(p.src.clone()) {
            continue;
        }
        push_matcher_cases(o, &p.src, CFGS[0], SHAPES[0], "fixture");
        push_matcher_cases(o, &p.src, CFGS[k % CFGS.len()], SHAPES[1 + k % (SHAPES.len() - 1)], "fixture-narrow");
        if thorough {
            for w in [12usize, 25, 33, 48, 64] {
                push_matcher_cases(o, &p.src, CFGS[0], (w, 4, 0, 0), "fixture-narrow");
            }
        }
    }
}

// ------------------------------------------------------------------------------------------------ replace_names

/// the model's `isAlnum` / `isWs`; a character on which they differ from `char` is outside the domain
fn model_alnum(c: char) -> bool {
    let n = c as u32;
    if n < 128 {
        c.is_ascii_alphanumeric()
    } else if n < 256 {
        matches!(n, 0xAA | 0xB5 | 0xBA | 0xB2 | 0xB3 | 0xB9 | 0xBC | 0xBD | 0xBE) || (n >= 0xC0 && n != 0xD7 && n != 0xF7)
    } else {
        !model_ws(c)
    }
}
fn model_ws(c: char) -> bool {
    let n = c as u32;
    (9..=13).contains(&n) || n == 32 || n == 0x85 || n == 0xA0 || n == 0x1680 || (0x2000..=0x200A).contains(&n) || n == 0x2028 || n == 0x2029 || n == 0x202F || n == 0x205F || n == 0x3000
}
fn in_domain(s: &str) -> bool {
    s.chars().all(|c| model_alnum(c) == c.is_alphanumeric() && model_ws(c) == c.is_whitespace())
}

fn enc_replace(r: &Option<(String, Vec<(String, String)>)>) -> String {
    match r {
        None => "none".to_string(),
        Some((text, substs)) => {
            let mut pairs: Vec<String> = substs.iter().map(|(a, b)| format!("{}={}", enc_str(a), enc_str(b))).collect();
            pairs.sort();
            format!("{};{}", enc_str(text), if pairs.is_empty() { "_".to_string() } else { pairs.join(",") })
        }
    }
}

const BODY_TOKENS: &[&str] = &[
    "$a", "$b", "$ab", "$ a", "$$a", "$ $ b", "$a$b", "$", "$crate::f", "$a:ty", "za", "zb", "zab", "bza", "zza", "$za", "$z", "z", "a", "b", "+", ",", ";", ".", "::", "(", ")", "$(", "${", "$[",
    "\"s\"", "\"$a\"", "\"za\"", "/* c */", "/* $a */", "'$'", "'x", "$_a", "$a_b", "_", "$1", "1", "$é", "é", "$r#a", "r#a", "$+", "$-a", "$\"s\"a", "$a\"s\"", "$/**/a", "$a/**/", " ", "\n", "!",
];

fn replace_cases(o: &mut Outcome, rng: &mut Rng, thorough: bool, fixture_bodies: &[String]) {
    // the character classes the model assumes, on every character below U+0100 and a sample beyond
    for n in (0u32..0x100).chain([0x3b1, 0x416, 0x4e2d, 0x1680, 0x2003, 0x2028, 0x3000, 0x1f600, 0x661, 0x2160]) {
        if let Some(c) = char::from_u32(n) {
            if model_alnum(c) != c.is_alphanumeric() || model_ws(c) != c.is_whitespace() {
                o.count("replace:char-outside-domain");
                if n < 0x100 {
                    o.direct_failures.push(json!({"sig": "macros:char-class", "what": format!("U+{:04X}: is_alphanumeric / is_whitespace differ from the model's classes", n)}));
                }
            }
        }
    }
    let mut texts: Vec<String> = vec![];
    // all strings over a small alphabet of characters
    let chars: &[&str] = &["$", "a", "z", " ", "_", "(", "+", "\"", "/", "*", "1", "\n", "é", ")"];
    for s in seqs(chars, if thorough { 6 } else { 4 }) {
        texts.push(s.concat());
    }
    // all sequences of tokens, glued and spaced
    for s in seqs(BODY_TOKENS, if thorough { 3 } else { 2 }) {
        texts.push(s.concat());
        texts.push(s.join(" "));
    }
    for _ in 0..(if thorough { 60000 } else { 6000 }) {
        let n = rng.range(1, 9);
        let mut t = String::new();
        for _ in 0..n {
            t.push_str(*rng.pick(BODY_TOKENS));
            if rng.chance(1, 2) {
                t.push(' ');
            }
        }
        texts.push(t);
    }
    texts.extend(fixture_bodies.iter().cloned());
    // how often the hypothesis of the round-trip theorem holds on the macro bodies of the fixtures
    for a in run_model(&fixture_bodies.iter().filter(|b| in_domain(b)).map(|b| format!("mac.safe {}", enc_str(b))).collect::<Vec<_>>(), jobs()) {
        o.count(&format!("replace:fixture-body-hypothesis-{}", a));
    }
    for t in texts {
        if !in_domain(&t) {
            o.count("replace:text-outside-domain");
            continue;
        }
        let r = hm::replace_names(&t);
        o.count(if r.is_some() { "replace:some" } else { "replace:none" });
        let nontrivial = r.as_ref().map(|x| !x.1.is_empty()).unwrap_or(false);
        o.push("corr", "mac.replace", format!("mac.replace {}", enc_str(&t)), enc_replace(&r), format!("replace_names({:?})", t.chars().take(60).collect::<String>()), nontrivial);
    }
}

/// `rewrite_macro_def` on a definition whose body `g! { <body> }` is a fixed point of formatting: what comes back must be
/// what the undoing loop of the model gives for some order of the substitutions
fn undo_cases(o: &mut Outcome, rng: &mut Rng, thorough: bool) {
    // tokens that keep `g! { .. }` one balanced line that parses whatever replace_names makes of the `$`s
    let safe: &[&str] = &["$a", "$b", "$ab", "$ a", "$$a", "$ $ b", "za", "zb", "zab", "bza", "zza", "$za", "$z", "z", "a", "b", "+", ",", "$crate::f", "$a:ty", "$_a", "$a_b", "$1", "zbza", "$bza", "pizza"];
    let glue: &[&str] = &["", " ", " ", " + "];
    let mut bodies: Vec<String> = vec![];
    for s in seqs(safe, if thorough { 3 } else { 2 }) {
        bodies.push(s.join(" "));
        bodies.push(s.concat());
    }
    for _ in 0..(if thorough { 20000 } else { 1500 }) {
        let n = rng.range(1, 6);
        let mut t = String::new();
        for k in 0..n {
            if k > 0 {
                t.push_str(*rng.pick(glue));
            }
            t.push_str(*rng.pick(safe));
        }
        bodies.push(t);
    }
    // the order-dependent shape (known finding MAC-UNDO-ORDER) is an enumerated probe, not part of the stream
    bodies.retain(|b| !b.trim().is_empty() && !undo_order_shape(b));
    let config = mk_cfg((false, 4, 100), false, true);
    let mut reqs = vec![];
    let mut seen = vec![];
    for b in &bodies {
        let old_body = format!("g! {{ {} }}", b.trim());
        let src = format!("macro_rules! m {{\n    ($a:expr)   => {{\n        {}\n    }};\n}}\n", old_body);
        let got = guard(|| hm::macro_defs(&src, &config, (100, 0, 0, 0))).and_then(|r| r.ok()).and_then(|d| d.into_iter().next()).and_then(|d| d.rewrite);
        let line = got.as_ref().and_then(|g| if g.contains("($a:expr) => {") { g.lines().nth(2).map(|l| l.trim().to_string()) } else { None });
        reqs.push(format!("mac.undo.judge {} {}", enc_str(&old_body), enc_str(line.as_deref().unwrap_or(""))));
        seen.push((old_body, line));
    }
    let answers = run_model(&reqs, jobs());
    // the hypothesis of replaceNames_roundtrip_partial, evaluated: where it holds, what the REAL code returns must be the
    // body up to white space (the theorem's conclusion, on the code)
    let safe = run_model(&seen.iter().map(|(b, _)| format!("mac.safe {}", enc_str(b))).collect::<Vec<_>>(), jobs());
    let squeeze = |s: &str| s.chars().filter(|c| !c.is_whitespace()).collect::<String>();
    for ((old_body, line), sf) in seen.iter().zip(safe.iter()) {
        o.count(&format!("undo:hypothesis-{}", sf));
        if let (Some(l), "safe") = (line, sf.as_str()) {
            o.direct_evals += 1;
            if squeeze(l) != squeeze(old_body) {
                o.direct_failures.push(json!({"sig": "macros:undo-theorem", "what": format!("noSpurious holds for `{}` but the body came back as `{}`", old_body, l)}));
            }
        }
    }
    for ((old_body, line), a) in seen.iter().zip(answers.iter()) {
        o.direct_evals += 1;
        match (line, a.as_str()) {
            (Some(_), "ok") => {
                o.count("undo:formatted-as-the-model-says");
                o.direct_distinct += 1;
            }
            (None, "none") | (None, "bail") => o.count(&format!("undo:left-as-written:{}", a)),
            (None, _) => {
                // the body did not format for a reason outside the model (the substituted text does not parse)
                o.count("undo:left-as-written:other");
            }
            (Some(l), other) => o.direct_failures.push(json!({"sig": "macros:undo", "what": format!("body `{}` came back as `{}`; the model's undoing loop says {}", old_body, l, dec_answer(other))})),
        }
    }
}

fn dec_answer(a: &str) -> String {
    match a.strip_prefix("bad:") {
        Some(h) => format!("`{}`", dec_str(h).unwrap_or_default()),
        None => a.to_string(),
    }
}

/// a body on which the result of the undoing loop depends on the iteration order of the `HashMap`
/// (`zb$ab … $bza`: the text in front of a `$name` completes the `z…` form of another name)
fn undo_order_shape(body: &str) -> bool {
    let old_body = format!("g! {{ {} }}", body.trim());
    if !in_domain(&old_body) {
        return true;
    }
    match hm::replace_names(&old_body) {
        Some((_, substs)) if substs.len() >= 2 => {
            // evaluate the loop in Rust in every order of up to 4 entries: different results = order-dependent
            let mut results = BTreeSet::new();
            let n = substs.len().min(4);
            let mut idx: Vec<usize> = (0..n).collect();
            permute(&mut idx, 0, &mut |p| {
                let (mut text, _) = hm::replace_names(&old_body).unwrap();
                let mut bail = false;
                for &i in p {
                    let (old, new) = &substs[i];
                    if old_body.contains(new.as_str()) {
                        bail = true;
                        break;
                    }
                    text = text.replace(new.as_str(), old);
                }
                results.insert(if bail { None } else { Some(text) });
            });
            results.len() > 1
        }
        _ => false,
    }
}

fn permute(v: &mut Vec<usize>, k: usize, f: &mut dyn FnMut(&[usize])) {
    if k == v.len() {
        f(v);
        return;
    }
    for i in k..v.len() {
        v.swap(k, i);
        permute(v, k + 1, f);
        v.swap(k, i);
    }
}

// ------------------------------------------------------------------------------------------------ branch splitter

fn branch_cases(o: &mut Outcome, rng: &mut Rng, thorough: bool, fixtures: &[corpus::Program]) {
    let alpha: &[&str] = &["(a)", "[a]", "{a}", "=>", ";", ",", "a", "=", "()", "{ (b) => {} }"];
    let mut bodies: Vec<String> = seqs(alpha, if thorough { 5 } else { 4 }).into_iter().map(|s| s.join(" ")).collect();
    for _ in 0..(if thorough { 5000 } else { 500 }) {
        let n = rng.range(0, 4);
        let mut t = String::new();
        for _ in 0..n {
            let (l, r) = *rng.pick(&[("(", ")"), ("[", "]"), ("{", "}")]);
            let (bl, br) = *rng.pick(&[("{", "}"), ("{", "}"), ("(", ")"), ("[", "]")]);
            t.push_str(&format!("{}{}{} => {}{}{}{} ", l, random_matcher(rng, 2), r, bl, random_matcher(rng, 2), br, rng.pick(&[";", ";", "", ",", "; ;"])));
        }
        bodies.push(t);
    }
    let config = mk_cfg((false, 4, 100), false, false);
    let mut sources: Vec<String> = vec![];
    for chunk in bodies.chunks(60) {
        let mut src = String::new();
        for (k, b) in chunk.iter().enumerate() {
            src.push_str(&format!("macro_rules! m{} {{ {} }}\n", k, b));
        }
        sources.push(src);
    }
    // declarative macros 2.0: the parser itself makes `(..) => {..}` of the short form
    sources.push("macro a($x:expr) { $x }\nmacro b { ($x:expr) => { $x } }\nmacro c { ($x:expr) => { $x }, ($y:ty) => {} }\nmacro d { ($x:expr) => { $x } ($y:ty) => {} }\npub macro e() {}\n".to_string());
    let mut seen = BTreeSet::new();
    for p in fixtures {
        if p.src.contains("macro") && seen.insert(p.src.clone()) {
            sources.push(p.src.clone());
        }
    }
    for src in &sources {
        let defs = match guard(|| hm::macro_defs(src, &config, (100, 0, 0, 0))) {
            Some(Ok(d)) => d,
            _ => {
                o.count("branches:source-does-not-parse");
                continue;
            }
        };
        for d in defs {
            let expect = match &d.branches {
                None => "none".to_string(),
                Some(bs) if bs.is_empty() => "_".to_string(),
                Some(bs) => bs
                    .iter()
                    .map(|b| {
                        let bd = match b.whole_body.chars().next() {
                            Some('(') => "P",
                            Some('[') => "K",
                            _ => "B",
                        };
                        format!("{}|{}|{}|{}", b.delim, b.args, bd, b.span.ends_with(';') as u8)
                    })
                    .collect::<Vec<_>>()
                    .join(";"),
            };
            o.count(if d.branches.is_some() { "branches:some" } else { "branches:none" });
            let nontrivial = d.branches.as_ref().map(|b| !b.is_empty()).unwrap_or(false);
            o.push("corr", "mac.branches", format!("mac.branches {}", d.body_tokens), expect, format!("MacroParser::parse of `{}`", d.name), nontrivial);
        }
    }
}

// ------------------------------------------------------------------------------------------------ macro calls

fn elem_text(e: char, k: usize) -> String {
    match e {
        'a' => format!("e{}", k),
        'i' => format!("fn f{}() {{}}", k),
        ',' => ",".to_string(),
        ';' => ";".to_string(),
        _ => "=>".to_string(),
    }
}

fn observe_call(rw: &str) -> (char, bool, bool, bool) {
    // delimiter after the `!`, a `,` directly in front of the closing delimiter, a `;` at the end, several lines
    let after = rw.split_once('!').map(|x| x.1).unwrap_or("").trim_start();
    let d = match after.chars().next() {
        Some('(') => 'P',
        Some('[') => 'K',
        Some('{') => 'B',
        _ => '?',
    };
    let semi = rw.trim_end().ends_with(';');
    let core = rw.trim_end().trim_end_matches(';').trim_end();
    let inner = &core[..core.len().saturating_sub(1)];
    let comma = inner.trim_end().ends_with(',');
    (d, comma, semi, rw.contains('\n'))
}

fn call_cases(o: &mut Outcome, rng: &mut Rng, thorough: bool) {
    let config = mk_cfg((false, 4, 100), false, true);
    // --- macro_style: the first of ( [ { outside comments
    let pieces: &[&str] = &["(", "[", "{", "/* ( */", "/* [ */", "/* { */", "\"(\"", "\"{\"", "a", " "];
    let mut snippets: Vec<String> = vec![];
    for s in seqs(pieces, if thorough { 3 } else { 2 }) {
        for (l, r) in [("(", ")"), ("[", "]"), ("{", "}")] {
            // the text between the `!` and the real delimiter can only hold comments and blanks
            let pre: String = s.iter().filter(|p| p.starts_with("/*") || p.as_str() == " ").cloned().collect::<Vec<_>>().concat();
            let inner: String = s.iter().filter(|p| !p.starts_with("/*") && !matches!(p.as_str(), "(" | "[" | "{")).cloned().collect::<Vec<_>>().join(" ");
            snippets.push(format!("foo!{}{}{}{}", pre, l, inner, r));
        }
    }
    snippets.sort();
    snippets.dedup();
    for chunk in snippets.chunks(40) {
        let src: String = chunk.iter().map(|s| format!("{}{}\n", s, if s.ends_with('}') { "" } else { ";" })).collect();
        if let Some(Ok(calls)) = guard(|| hm::macro_calls(&src, &config)) {
            for c in calls {
                o.push("corr", "mac.style", format!("mac.style {}", enc_str(&c.snippet)), c.style.to_string(), format!("macro_style of `{}`", c.snippet), c.snippet.contains("/*"));
            }
        } else {
            o.count("style:source-does-not-parse");
        }
    }
    // --- parse_macro_args and the plan of rewrite_macro_inner
    let mut words: Vec<String> = seqs(&["a", "i", ",", ";", "x"], if thorough { 6 } else { 5 }).into_iter().map(|s| s.concat()).collect();
    for _ in 0..(if thorough { 3000 } else { 300 }) {
        // longer, mostly well-formed lists
        let n = rng.range(1, 9);
        let mut w = String::new();
        for k in 0..n {
            w.push(if rng.chance(1, 8) { 'i' } else { 'a' });
            if k + 1 < n || rng.chance(1, 2) {
                w.push(if rng.chance(1, 12) { ';' } else { ',' });
            }
        }
        words.push(w);
    }
    struct Call {
        name: &'static str,
        open: char,
        word: String,
    }
    let mut calls: Vec<Call> = vec![];
    for w in &words {
        for name in ["foo", "vec"] {
            for open in ['(', '[', '{'] {
                calls.push(Call { name, open, word: w.clone() });
            }
        }
    }
    let mut reqs: Vec<String> = vec![];
    let mut obs: Vec<(String, Option<String>, String)> = vec![];
    for chunk in calls.chunks(60) {
        let mut src = String::new();
        for c in chunk {
            let close = match c.open {
                '(' => ')',
                '[' => ']',
                _ => '}',
            };
            let inner: Vec<String> = c.word.chars().enumerate().map(|(k, e)| elem_text(e, k)).collect();
            src.push_str(&format!("{}!{}{}{}{}\n", c.name, c.open, inner.join(" "), close, if c.open == '{' { "" } else { ";" }));
        }
        let got = match guard(|| hm::macro_calls(&src, &config)) {
            Some(Ok(g)) if g.len() == chunk.len() => g,
            _ => {
                o.count("calls:source-does-not-parse");
                continue;
            }
        };
        for (c, g) in chunk.iter().zip(got.iter()) {
            let orig = match c.open {
                '(' => 'P',
                '[' => 'K',
                _ => 'B',
            };
            let forced = c.name == "vec";
            let style = if forced { 'K' } else { orig };
            let parsed = match &g.parsed {
                None => "none".to_string(),
                Some((v, t, kinds)) => {
                    let bits: String = kinds.chars().map(|k| if k == 'I' { 'i' } else { 'a' }).collect();
                    format!("{}:{}:{}", *v as u8, *t as u8, if bits.is_empty() { "_".to_string() } else { bits })
                }
            };
            let word = if c.word.is_empty() { "_".to_string() } else { c.word.clone() };
            o.count(if g.parsed.is_some() { "args:some" } else { "args:none" });
            o.push("corr", "mac.args", format!("mac.args {} {} {}", style, forced as u8, word), parsed.clone(), format!("parse_macro_args of `{}`", g.snippet), g.parsed.is_some() && !c.word.is_empty());
            if g.forced_bracket != forced || g.style != orig {
                o.direct_failures.push(json!({"sig": "macros:style", "what": format!("`{}`: style {} forced {} (expected {} {})", g.snippet, g.style, g.forced_bracket, orig, forced)}));
            }
            // block indent is the default indent_style
            reqs.push(format!("mac.plan {} 0 {} I {} 0 1 {}", enc_str(&format!("{}!", c.name)), orig, c.word.is_empty() as u8, parsed));
            obs.push((g.snippet.clone(), g.rewrite.clone(), g.name.clone()));
        }
    }
    let answers = run_model(&reqs, jobs());
    for ((snippet, rw, name), plan) in obs.iter().zip(answers.iter()) {
        o.direct_evals += 1;
        let rw = match rw {
            Some(r) => r,
            None => {
                o.count("plan:rewrite-failed");
                continue;
            }
        };
        let (d, comma, semi, multi) = observe_call(rw);
        let p: Vec<&str> = plan.split(':').collect();
        let squeeze = |s: &str| s.chars().filter(|c| !c.is_whitespace()).collect::<String>();
        let tactic_ok = |t: &str| match t {
            "A" => comma,
            "N" => !comma,
            _ => comma == multi,
        };
        let ok = match p.as_slice() {
            ["empty", dd, s] => d.to_string() == *dd && semi == (*s == "1") && squeeze(rw).len() == name.len() + 2 + (semi as usize),
            ["fallback", s] => squeeze(rw) == format!("{}{}", squeeze(snippet), if *s == "1" { ";" } else { "" }),
            ["items", dd, s] => d.to_string() == *dd && semi == (*s == "1"),
            ["vecsemi", dd] => d.to_string() == *dd && !semi && rw.contains(';'),
            ["parens", t, s] => d == 'P' && tactic_ok(t) && semi == (*s == "1"),
            ["array", t, s, _] => d == 'K' && tactic_ok(t) && semi == (*s == "1"),
            ["brace"] => d == 'B' && !semi,
            _ => false,
        };
        o.count(&format!("plan:{}", p[0]));
        if ok {
            o.direct_distinct += 1;
        } else {
            o.direct_failures.push(json!({"sig": format!("macros:plan:{}", p[0]), "what": format!("`{}` was rewritten as `{}`; the model's plan is {}", snippet, rw, plan)}));
        }
    }
}

// ------------------------------------------------------------------------------------------------ end to end

struct E2e {
    id: String,
    src: String,
    cfg: Vec<(String, String)>,
}

fn accepted(r: &pool::FmtOut) -> bool {
    r.status == Status::Ok && !(r.flags[0] || r.flags[1] || r.flags[2] || r.flags[4] || r.flags[5] || r.flags[6])
}

/// bodies of `macro_rules!` arms for the end-to-end family (formatted as Rust after `replace_names`)
const E2E_BODIES: &[&str] = &[
    "$a   +  $b", "f($a  ,  $b)", "let zfoo = 1; $foo   +  zfoo", "g! { $a$b   }", "g! { $a  $ + b   }", "$a ;   $", "f($a,   $ \"s\"  a)", "f($a,   $  a)", "f(\"$a\",   $a  )",
    "f(\"za\",   $a  )", "f(za,   $a  )", "$crate::f($a   ,  1)", "f($a   ,  1);  macro_rules! n { ($a:ty) => {} }", "f($a   ,  1);  g!($a:ty)", "f($a,   $$b, zb)", "f($a,   $/* c */a)",
    "f($a,   $ - a)", "f($a,   $ :: a)", "f($a,   $r#a)", "f($a,   $a$a)", "f($a,   $a.$a  )", "f::<$a  >(   'za)", "f($a,  '$'  , '$', a)", "f($é   ,  1)", "$a_b  +  $a", "$_a  +  1",
    "g! { zb$ab   $bza }", "g! { $z$a  $za }", "$($a  +  1),*", "$( f($a  ,  1); )*", "match $a { $b   =>  1, _ => 2 }", "struct $a { $b : u8 }", "fn $a() -> $b { $a  (  ) }",
    "impl $a for $b { fn f(&self) -> $b { self.0  +  $foo } }", "{ $a  ;  $b }", "pizza($a   , $foo)", "x.$a().$b  ( 1 )", "$a :: $b :: < $foo >  ( )", "'$a: loop { break '$a; }",
];

fn e2e_cases(o: &mut Outcome, rng: &mut Rng, thorough: bool, fixtures: &[corpus::Program]) {
    let mut cases: Vec<E2e> = vec![];
    let widths_all: Vec<usize> = (20..=100).collect();
    let toggles: &[(bool, bool)] = &[(true, true), (true, false), (false, true), (false, false)];
    let mk = |w: usize, m: bool, b: bool| vec![kv("max_width", w), kv("format_macro_matchers", m), kv("format_macro_bodies", b)];
    // (1) definitions: the exhaustive matcher texts, 20 definitions to a file
    let ex = exhaustive_matchers(thorough);
    let ex: Vec<String> = ex.into_iter().filter(|m| !known_dirty_matcher(m)).collect();
    for (k, (src, _)) in defs_sources(&ex, 20).into_iter().enumerate() {
        let ws: Vec<usize> = if thorough { vec![20, 28, 40, 61, 100] } else { vec![*rng.pick(&widths_all), 100] };
        for w in ws {
            cases.push(E2e { id: format!("defs{}@{}", k, w), src: src.clone(), cfg: mk(w, true, true) });
        }
    }
    // (2) bodies x a matcher that names the variables, every toggle
    for (k, body) in E2E_BODIES.iter().enumerate() {
        if known_dirty_body(body) {
            continue;
        }
        let src = format!("macro_rules! m {{ ($a:expr,   $b:expr, $foo:expr $(, $ab:tt $bza:tt $z:tt $za:tt $é:tt $_a:tt)?) => {{ {} }}; }}\n", body);
        let ws: Vec<usize> = if thorough { widths_all.iter().cloned().step_by(3).collect() } else { vec![*rng.pick(&widths_all), *rng.pick(&widths_all), 100] };
        for w in ws {
            for (m, b) in toggles {
                cases.push(E2e { id: format!("body{}@{}:{}{}", k, w, *m as u8, *b as u8), src: src.clone(), cfg: mk(w, *m, *b) });
            }
        }
    }
    // (3) random definitions with several branches
    for k in 0..(if thorough { 6000 } else { 300 }) {
        let n = rng.range(1, 3);
        let mut src = String::from("macro_rules! m {\n");
        for _ in 0..n {
            let mut m = random_matcher(rng, 1);
            while known_dirty_matcher(&m) {
                m = random_matcher(rng, 1);
            }
            src.push_str(&format!("    ({}) => {{ {} }};\n", m, rng.pick(E2E_BODIES.iter().filter(|b| !known_dirty_body(b)).collect::<Vec<_>>().as_slice())));
        }
        src.push_str("}\n");
        let (m, b) = *rng.pick(toggles);
        cases.push(E2e { id: format!("rand{}", k), src, cfg: mk(*rng.pick(&widths_all), m, b) });
    }
    // (4) the macro definitions and macro calls of the fixtures, each item on its own
    let items = crate::boundary::items(fixtures);
    let mac_items: Vec<&crate::boundary::Item> = items.iter().filter(|i| i.src.contains("macro_rules!") || i.src.contains("macro ") || i.src.contains("!(") || i.src.contains("![") || i.src.contains("! {")).collect();
    o.count_n("e2e:fixture-items-with-macros", mac_items.len() as u64);
    for it in &mac_items {
        let ws: Vec<usize> = if thorough { vec![20, 30, 40, 50, 60, 70, 80, 90, 100] } else { vec![*rng.pick(&widths_all)] };
        for w in ws {
            let (m, b) = *rng.pick(toggles);
            let mut cfg = it.cfg.clone();
            cfg.retain(|(k, _)| k != "max_width" && k != "format_macro_matchers" && k != "format_macro_bodies");
            cfg.extend(mk(w, m, b));
            cases.push(E2e { id: format!("{}@{}:{}{}", it.id, w, m as u8, b as u8), src: it.src.clone(), cfg });
        }
    }
    // (5) calls: name x delimiter x trailing separator x position x nesting x argument length
    let mut k = 0;
    for name in ["foo", "vec", "a::b", "println"] {
        for (l, r) in [("(", ")"), ("[", "]"), ("{", "}")] {
            for trail in ["", ",", ";"] {
                for args in ["", "a", "a, b", "alpha_beta_gamma, delta_epsilon_zeta, eta_theta_iota, kappa_lambda_mu", "a; 3", "fn f() {}", "a => b", "x: u8, y", "self", "1, \"s\", 'c'"] {
                    let call = format!("{}!{}{}{}{}", name, l, args, if args.is_empty() { "" } else { trail }, r);
                    let src = format!("{call};\nfn main() {{\n    {call};\n    let x = {call};\n    outer!({call});\n    outer![{call}, {call},];\n    match x {{ {call} => 1, _ => 2 }}\n    let y: {call} = f({call}, {call})?;\n}}\nimpl X {{\n    {call};\n}}\ntrait Y {{\n    {call};\n}}\nextern \"C\" {{\n    {call};\n}}\ntype T = {call};\n", call = call);
                    let ws: Vec<usize> = if thorough { vec![20, 33, 47, 60, 80, 100] } else { vec![*rng.pick(&[20usize, 40, 60, 100])] };
                    for w in ws {
                        cases.push(E2e { id: format!("call{}@{}", k, w), src: src.clone(), cfg: mk(w, false, true) });
                    }
                    k += 1;
                }
            }
        }
    }
    o.count_n("e2e:cases", cases.len() as u64);
    judge_e2e(o, &cases, "tok.equiv");
}

fn judge_e2e(o: &mut Outcome, cases: &[E2e], op: &str) {
    let timeout = Duration::from_secs(20);
    let jobs1: Vec<Job> = cases.iter().map(|c| Job { src: c.src.clone(), cfg: c.cfg.clone(), file_lines: None }).collect();
    let r1 = pool::run_jobs(&jobs1, jobs(), timeout);
    let mut jobs2 = vec![];
    let mut idx2 = vec![];
    for (i, (c, r)) in cases.iter().zip(r1.iter()).enumerate() {
        if !accepted(r) || r.out.is_empty() {
            o.count(&format!("e2e:{}", match &r.status { Status::Ok => "reported", Status::Timeout => "timeout", Status::Panic(_) => "panic", _ => "other" }));
            if let Status::Panic(m) = &r.status {
                o.direct_failures.push(json!({"sig": "macros:panic", "what": format!("panic {} on {}", m, c.id), "src": c.src, "config": crate::gen::cfg_text(&c.cfg)}));
            }
            continue;
        }
        o.count("e2e:judged");
        let req = format!("{} {} {} {}", op, crate::c01::validator_cfg(&c.cfg), encode_tokens(&c.src, false), encode_tokens(&r.out, false));
        o.push("oracle", op, req, "ok".to_string(), format!("{} [{}]", c.id, crate::gen::cfg_text(&c.cfg).replace('\n', " ")), r.out != c.src);
        jobs2.push(Job { src: r.out.clone(), cfg: c.cfg.clone(), file_lines: None });
        idx2.push(i);
    }
    // the output must parse: formatting it once more reports no parse error
    let r2 = pool::run_jobs(&jobs2, jobs(), timeout);
    for (k, r) in r2.iter().enumerate() {
        o.direct_evals += 1;
        let parses = match &r.status {
            Status::Ok => !r.flags[1],
            Status::Timeout | Status::Infra(_) => true,
            _ => false,
        };
        if !parses {
            let c = &cases[idx2[k]];
            o.direct_failures.push(json!({"sig": "macros:output-does-not-parse", "what": format!("{}: the output does not parse", c.id), "src": c.src, "out": jobs2[k].src, "config": crate::gen::cfg_text(&c.cfg)}));
        }
    }
}

// ------------------------------------------------------------------------------------------------ known findings

/// matcher texts that show a known finding (kept out of the seeded stream, run as enumerated probes)
fn known_dirty_matcher(m: &str) -> bool {
    // MAC-INT-DOT: an integer literal followed by `.` is printed without a blank between them (`1 . 5` -> `1.5`)
    let toks: Vec<&str> = m.split_whitespace().collect();
    toks.windows(2).any(|w| w[0].chars().all(|c| c.is_ascii_digit() || c == '_') && w[0].chars().next().map(|c| c.is_ascii_digit()).unwrap_or(false) && w[1].starts_with('.'))
        || toks.windows(2).any(|w| (w[0] == "2u8" || w[0] == "0x1f") && w[1].starts_with('.'))
        // MAC-POUND-STR: `#` and a following string literal are printed without a blank (`# "s"` -> `#"s"`, a reserved prefix in edition 2024)
        || toks.windows(2).any(|w| w[0].ends_with('#') && w[1].starts_with('"'))
}

fn known_dirty_body(b: &str) -> bool {
    // MAC-UNDO-ORDER
    b.contains("zb$ab")
}

fn probes(o: &mut Outcome) {
    let fmt = |src: &str, cfg: Vec<(String, String)>| pool::format_here(&Job { src: src.to_string(), cfg, file_lines: None });
    let equiv = |a: &str, b: &str| run_model(&[format!("tok.equiv - {} {}", encode_tokens(a, false), encode_tokens(b, false))], 1).pop().unwrap_or_default();
    // MAC-INT-DOT
    {
        let src = "macro_rules! m {\n    (1 . 5) => {};\n}\n";
        let r = fmt(src, vec![kv("format_macro_matchers", true)]);
        let a = equiv(src, &r.out);
        o.probes.push(json!({"id": "MAC-INT-DOT", "fails": a != "ok", "what": "format_macro_matchers prints an integer literal and a following `.` without a blank: the matcher `(1 . 5)` becomes `(1.5)`, one float literal", "detail": format!("output {:?}; validator: {}", r.out, a)}));
    }
    // MAC-POUND-STR
    {
        let src = "macro_rules! m {\n    (# \"s\") => {};\n}\n";
        let r = fmt(src, vec![kv("format_macro_matchers", true)]);
        let a = equiv(src, &r.out);
        o.probes.push(json!({"id": "MAC-POUND-STR", "fails": a != "ok", "what": "format_macro_matchers prints `#` and a following string literal without a blank: `(# \"s\")` becomes `(#\"s\")`, which rustc_lexer reads as a guarded-string prefix (reserved, an error in edition 2024)", "detail": format!("output {:?}; validator: {}", r.out, a)}));
    }
    // MAC-UNDO-ORDER: the result depends on the iteration order of a HashMap; 24 runs see both orders with probability 1 - 2^-23
    {
        let src = "macro_rules! m {\n    ($ab:tt, $bza:tt) => {\n        g! { zb$ab $bza }\n    };\n}\n";
        let mut outs = BTreeSet::new();
        for _ in 0..24 {
            let r = fmt(src, vec![]);
            outs.insert(r.out);
        }
        let bad = outs.iter().any(|x| equiv(src, x) != "ok");
        o.probes.push(json!({"id": "MAC-UNDO-ORDER", "fails": bad || outs.len() > 1, "what": "MacroBranch::rewrite undoes replace_names by textual replacement in HashMap order: with `zb` written directly in front of `$ab` and a second variable `$bza`, the text `zbzab` holds the `z…` form of both, and one of the two orders turns `zb$ab` into `$b$ab`", "detail": format!("{} distinct outputs in 24 runs: {:?}", outs.len(), outs.iter().map(|x| x.lines().nth(2).unwrap_or("").trim().to_string()).collect::<Vec<_>>())}));
    }
}

// ------------------------------------------------------------------------------------------------ entry points

fn fixture_bodies(fixtures: &[corpus::Program]) -> Vec<String> {
    let config = mk_cfg((false, 4, 100), false, false);
    let mut v = vec![];
    let mut seen = BTreeSet::new();
    for p in fixtures {
        if !p.src.contains("macro") || !seen.insert(p.src.clone()) {
            continue;
        }
        if let Some(Ok(defs)) = guard(|| hm::macro_defs(&p.src, &config, (100, 0, 0, 0))) {
            for d in defs {
                for b in d.branches.unwrap_or_default() {
                    v.push(b.body.trim().to_string());
                }
            }
        }
    }
    v
}

/// everything; the integrator calls this from C01
pub fn cases(o: &mut Outcome, rng: &mut Rng, thorough: bool) {
    let fixtures = corpus::programs(&["tests/target", "tests/source"]);
    let parts = std::env::var("MACROS_PARTS").unwrap_or_else(|_| "matcher,replace,undo,branches,calls,e2e,probes".into());
    let on = |p: &str| parts.split(',').any(|x| x == p);
    let t0 = std::time::Instant::now();
    let mut lap = |o: &mut Outcome, name: &str| {
        o.notes.push(format!("macros part {} done after {:.1}s", name, t0.elapsed().as_secs_f64()));
    };
    if on("matcher") {
        matcher_cases(o, rng, thorough, &fixtures);
        lap(o, "matcher");
    }
    if on("replace") {
        let bodies = fixture_bodies(&fixtures);
        o.count_n("replace:fixture-bodies", bodies.len() as u64);
        replace_cases(o, rng, thorough, &bodies);
        lap(o, "replace");
    }
    if on("undo") {
        undo_cases(o, rng, thorough);
        lap(o, "undo");
    }
    if on("branches") {
        branch_cases(o, rng, thorough, &fixtures);
        lap(o, "branches");
    }
    if on("calls") {
        call_cases(o, rng, thorough);
        lap(o, "calls");
    }
    if std::env::var_os("MACROS_DUMP").is_none() {
        o.flush(jobs());
    }
    if on("e2e") {
        e2e_cases(o, rng, thorough, &fixtures);
        lap(o, "e2e");
    }
    if on("probes") {
        probes(o);
    }
}

/// `rfverif macros`: the standalone run of this module.
pub fn run(tier: &str, seed: u64, out: &Path) -> i32 {
    let thorough = tier == "thorough";
    let mut o = Outcome::new("MACROS", tier, seed);
    let mut rng = Rng::new(seed ^ 0x3ac05);
    if std::env::var_os("MACROS_SHOW_PANICS").is_none() {
        std::panic::set_hook(Box::new(|_| {}));
    }
    cases(&mut o, &mut rng, thorough);
    if let Ok(path) = std::env::var("MACROS_DUMP") {
        let reqs: Vec<String> = o.cases.iter().map(|c| c.request.clone()).collect();
        let answers = run_model(&reqs, jobs());
        let mut text = String::new();
        for (c, a) in o.cases.iter().zip(answers.iter()) {
            if a != &c.expect {
                text.push_str(&format!("{}\t{}\t{}\t{}\t{}\t{}\n", c.kind, c.op, c.desc, c.request, c.expect, a));
            }
        }
        let _ = std::fs::write(path, text);
    }
    o.finish(out, jobs())
}
