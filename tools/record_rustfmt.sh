#!/bin/sh
# Recording stand-in for `rustfmt` (C19, C18): appends one record per call to the file named by
# $VERIF_RECORD ("call", one "arg <text>" line per argument, "end") and exits with the status
# given in $VERIF_RECORD_STATUS (default 0).  Arguments never contain a newline in the checks that
# use this (file names are \S* captures, the --file-lines JSON is compact).
{
  printf 'call\n'
  for a in "$@"; do
    printf 'arg %s\n' "$a"
  done
  printf 'end\n'
} >> "${VERIF_RECORD:?VERIF_RECORD not set}"
exit "${VERIF_RECORD_STATUS:-0}"
