#!/bin/bash
# mkworker.sh <name> : scratch area for one builder under /tmp/hw/<name>.
#   /tmp/hw/<name>/verif  git worktree of /verif on branch hw-<name> (commit there often: /tmp does not survive a restart,
#                         the branch does), with /verif's Lean and cargo build output copied in
#   /tmp/hw/<name>/repo   git worktree of /repo's HEAD on branch hw-<name>
# the copy's harness depends on the repo worktree and builds into /tmp/hw/<name>/verif/.build/target; the two files
# edited for that (harness/Cargo.toml, harness/.cargo/config.toml) are marked skip-worktree so they are never committed.
set -e
W=$1; [ -n "$W" ] || { echo "usage: mkworker.sh <name>"; exit 2; }
B=/tmp/hw/$W
mkdir -p $B
git -C /repo worktree prune; git -C /verif worktree prune
if [ ! -d $B/repo ]; then
  if git -C /repo rev-parse -q --verify hw-$W >/dev/null; then git -C /repo worktree add -q $B/repo hw-$W
  else git -C /repo worktree add -q -b hw-$W $B/repo HEAD; fi
fi
if [ ! -d $B/verif ]; then
  if git -C /verif rev-parse -q --verify hw-$W >/dev/null; then git -C /verif worktree add -q $B/verif hw-$W
  else git -C /verif worktree add -q -b hw-$W $B/verif HEAD; fi
fi
sed -i "s#path = \"/repo\"#path = \"$B/repo\"#" $B/verif/harness/Cargo.toml
git -C $B/verif update-index --skip-worktree harness/Cargo.toml
mkdir -p $B/verif/work $B/verif/.build $B/verif/evidence
cp -n /repo/Cargo.lock $B/verif/harness/Cargo.lock 2>/dev/null || true
cp -n /repo/rust-toolchain $B/verif/harness/rust-toolchain 2>/dev/null || true
# seed the build output so the first builds are incremental
[ -d $B/verif/lean/.lake ] || cp -a /verif/lean/.lake $B/verif/lean/.lake 2>/dev/null || true
[ -d $B/verif/.build/target ] || cp -a /verif/.build/target $B/verif/.build/target 2>/dev/null || true
[ -x $B/verif/frozen/rustfmt-pinned ] || cp -a /verif/frozen/rustfmt-pinned /verif/frozen/BUILT_FROM /verif/frozen/rustfmt-pinned.sha256 $B/verif/frozen/ 2>/dev/null || true
cat > $B/env.sh <<EOF
export VERIF_REPO=$B/repo
export CARGO_NET_OFFLINE=true
export RUSTC_ICE=0
export LD_LIBRARY_PATH=\$(cd /repo && rustc --print sysroot)/lib:\$LD_LIBRARY_PATH
export RFMODEL=$B/verif/lean/.lake/build/bin/rfmodel
EOF
echo "worker $W ready: $B/verif (run checks with: cd $B/verif && . ../env.sh && ./check Cnn)"
