//! C14, the real-code side that runs through the library API: `rfverif --c14child <spec.json>`.
//! Everything that calls into `rustfmt_nightly::config` happens here, in a child process of the
//! harness, because (a) `dirs::home_dir()` / `dirs::config_dir()` read `HOME` / `XDG_CONFIG_HOME`
//! of the process (the child sets them per case; it is single-threaded), (b) the deprecated-option
//! warnings the config code prints go to the child's stderr, which the parent discards, and (c) a
//! panic of `override_value` must not kill the check.
//!
//! Also here: the option schema (names, value kinds, canonical spellings) read off the running code,
//! and the encodings shared by the child and the parent.
use std::collections::BTreeMap;
use std::path::{Path, PathBuf};
use std::process::{Command, Stdio};
use std::str::FromStr;
use std::time::Duration;

use rustfmt_nightly::verif_hooks::config as hc;
use rustfmt_nightly::{load_config, CliOptions, Color, Config, Edition, EmitMode, FileLines, StyleEdition, Verbosity, Version};
use serde_json::{json, Value};

use crate::util::*;

#[derive(Clone, Copy, PartialEq, Eq, Debug)]
pub enum Kind {
    Nat,
    Bool,
    Str,
}

/// Options whose values are structured; the model holds an opaque string for them.
pub const OPAQUE: &[&str] = &["file_lines", "ignore", "skip_macro_invocations", "width_heuristics", "required_version"];

pub struct Schema {
    pub names: Vec<String>,
    pub kind: BTreeMap<String, Kind>,
    pub stable: BTreeMap<String, bool>,
    /// display of the default (style edition 2015) value
    pub default_display: BTreeMap<String, String>,
    pub pkg_version: String,
    pub width_heuristics_default: String,
}

impl Schema {
    pub fn new() -> Schema {
        let d = Config::default().verif_dump();
        let mut s = Schema { names: vec![], kind: BTreeMap::new(), stable: BTreeMap::new(), default_display: BTreeMap::new(), pkg_version: String::new(), width_heuristics_default: String::new() };
        for (name, display, _, _, stable) in d {
            let n = Config::is_valid_key_val(name, "17");
            let b = Config::is_valid_key_val(name, "true");
            let k = if n && !b { Kind::Nat } else if b && !n { Kind::Bool } else { Kind::Str };
            s.names.push(name.to_string());
            s.kind.insert(name.to_string(), k);
            s.stable.insert(name.to_string(), stable);
            if name == "required_version" {
                s.pkg_version = display.clone();
            }
            if name == "width_heuristics" {
                s.width_heuristics_default = display.clone();
            }
            s.default_display.insert(name.to_string(), display);
        }
        s
    }

    pub fn kind_of(&self, key: &str) -> Kind {
        *self.kind.get(key).unwrap_or(&Kind::Str)
    }

    /// `Display` of a value -> the string the model holds (see RF/Model/Config.lean `defaultVal`):
    /// the structured options have an opaque rendering whose default is the text of the default
    /// expression in options.rs after the last `::`.
    pub fn canon(&self, key: &str, display: &str) -> String {
        match key {
            "file_lines" => if display == "None" { "all()".into() } else { "restricted".into() },
            "ignore" => {
                let inner = display.trim_start_matches('[').trim_end_matches(']');
                if inner.is_empty() { "default()".into() } else { inner.to_string() }
            }
            "skip_macro_invocations" => if display.is_empty() { "default()".into() } else { display.to_string() },
            "width_heuristics" => if display == self.width_heuristics_default { "scaled(100)".into() } else { display.to_string() },
            "required_version" => if display == self.pkg_version { "env!(\"CARGO_PKG_VERSION\").to_owned()".into() } else { display.to_string() },
            _ => display.to_string(),
        }
    }

    /// value in the line-protocol encoding
    pub fn enc_val(&self, key: &str, canon: &str) -> String {
        match self.kind_of(key) {
            Kind::Nat | Kind::Bool => canon.to_string(),
            Kind::Str => format!("x{}", enc_str(canon)),
        }
    }

    /// `key=value:was_set:was_set_cli;…` for the listed keys (all when `keys` is empty)
    pub fn enc_fields(&self, c: &Config, keys: &[String]) -> String {
        let d = c.verif_dump();
        let mut parts = vec![];
        let want: Vec<&str> = if keys.is_empty() { d.iter().map(|e| e.0).collect() } else { keys.iter().map(|s| s.as_str()).collect() };
        for k in want {
            if let Some((name, display, ws, wsc, _)) = d.iter().find(|e| e.0 == k) {
                parts.push(format!("{}={}:{}:{}", name, self.enc_val(name, &self.canon(name, display)), *ws as u8, *wsc as u8));
            }
        }
        parts.join(";")
    }

    /// values only, for every option (name -> encoded value)
    pub fn values(&self, c: &Config) -> Vec<(String, String)> {
        c.verif_dump().into_iter().map(|(n, d, _, _, _)| (n.to_string(), self.enc_val(n, &self.canon(n, &d)))).collect()
    }
}

/// The command-line options of one `load_config` call, as data.  `apply_to` below is a copy of
/// `GetOptsOptions::apply_to` (src/bin/main.rs) for an API client; the real one is exercised through
/// the binary.
#[derive(Clone, Debug, Default)]
pub struct ApiOpts {
    pub verbose: bool,
    pub quiet: bool,
    pub check: bool,
    pub backup: bool,
    pub unstable: bool,
    pub files_with_diff: bool,
    pub skip_children: Option<bool>,
    pub error_on_unformatted: Option<bool>,
    pub edition: Option<String>,
    pub style_edition: Option<String>,
    pub emit: Option<String>,
    pub color: Option<String>,
    pub file_lines: Option<String>,
    pub config_path: Option<PathBuf>,
    /// (key, value text) in the order the client applies them
    pub inline: Vec<(String, String)>,
}

impl ApiOpts {
    pub fn to_json(&self) -> Value {
        json!({
            "verbose": self.verbose, "quiet": self.quiet, "check": self.check, "backup": self.backup, "unstable": self.unstable,
            "files_with_diff": self.files_with_diff, "skip_children": self.skip_children, "error_on_unformatted": self.error_on_unformatted,
            "edition": self.edition, "style_edition": self.style_edition, "emit": self.emit, "color": self.color, "file_lines": self.file_lines,
            "config_path": self.config_path.as_ref().map(|p| p.to_string_lossy().into_owned()),
            "inline": self.inline.iter().map(|(k, v)| json!([k, v])).collect::<Vec<_>>(),
        })
    }
    pub fn from_json(v: &Value) -> ApiOpts {
        let s = |k: &str| v[k].as_str().map(|x| x.to_string());
        let b = |k: &str| v[k].as_bool().unwrap_or(false);
        ApiOpts {
            verbose: b("verbose"),
            quiet: b("quiet"),
            check: b("check"),
            backup: b("backup"),
            unstable: b("unstable"),
            files_with_diff: b("files_with_diff"),
            skip_children: v["skip_children"].as_bool(),
            error_on_unformatted: v["error_on_unformatted"].as_bool(),
            edition: s("edition"),
            style_edition: s("style_edition"),
            emit: s("emit"),
            color: s("color"),
            file_lines: s("file_lines"),
            config_path: s("config_path").map(PathBuf::from),
            inline: v["inline"].as_array().map(|a| a.iter().filter_map(|kv| Some((kv[0].as_str()?.to_string(), kv[1].as_str()?.to_string()))).collect()).unwrap_or_default(),
        }
    }
    fn inline_get(&self, key: &str) -> Option<&str> {
        // a HashMap keeps the last value of a repeated key
        self.inline.iter().rev().find(|(k, _)| k == key).map(|(_, v)| v.as_str())
    }
}

fn emit_of(s: &str) -> Option<EmitMode> {
    EmitMode::from_str(s).ok()
}

impl CliOptions for ApiOpts {
    fn apply_to(self, config: &mut Config) {
        if self.verbose {
            config.set_cli().verbose(Verbosity::Verbose);
        } else if self.quiet {
            config.set_cli().verbose(Verbosity::Quiet);
        } else {
            config.set().verbose(Verbosity::Normal);
        }
        match self.file_lines.as_ref().and_then(|s| s.parse::<FileLines>().ok()) {
            Some(fl) if !fl.is_all() => config.set_cli().file_lines(fl),
            _ => config.set().file_lines(FileLines::default()),
        }
        if self.unstable {
            config.set_cli().unstable_features(true);
        } else {
            config.set().unstable_features(false);
        }
        if let Some(b) = self.skip_children {
            config.set_cli().skip_children(b);
        }
        if let Some(b) = self.error_on_unformatted {
            config.set_cli().error_on_unformatted(b);
        }
        if let Some(e) = self.edition.as_ref().and_then(|e| Edition::from_str(e).ok()) {
            config.set_cli().edition(e);
        }
        if let Some(e) = self.style_edition.as_ref().and_then(|e| StyleEdition::from_str(e).ok()) {
            config.set_cli().style_edition(e);
        }
        if self.check {
            config.set_cli().emit_mode(EmitMode::Diff);
        } else if let Some(m) = self.emit.as_ref().and_then(|m| emit_of(m)) {
            config.set_cli().emit_mode(m);
        }
        if self.backup {
            config.set_cli().make_backup(true);
        }
        if let Some(c) = self.color.as_ref().and_then(|c| Color::from_str(c).ok()) {
            config.set_cli().color(c);
        }
        if self.files_with_diff {
            config.set_cli().print_misformatted_file_names(true);
        }
        // the pairs as a map (last value of a repeated key), `max_width` first
        let mut seen: Vec<(String, String)> = vec![];
        for (k, v) in self.inline.iter() {
            if let Some(e) = seen.iter_mut().find(|(k2, _)| k2 == k) {
                e.1 = v.clone();
            } else {
                seen.push((k.clone(), v.clone()));
            }
        }
        if let Some((_, v)) = seen.iter().find(|(k, _)| k == "max_width") {
            config.override_value("max_width", v);
        }
        for (k, v) in seen.iter() {
            if k != "max_width" {
                config.override_value(k, v);
            }
        }
    }
    fn config_path(&self) -> Option<&Path> {
        self.config_path.as_deref()
    }
    fn edition(&self) -> Option<Edition> {
        let flag = self.edition.as_ref().and_then(|e| Edition::from_str(e).ok());
        self.inline_get("edition").map_or(flag, |e| Edition::from_str(e).ok())
    }
    fn style_edition(&self) -> Option<StyleEdition> {
        let flag = self.style_edition.as_ref().and_then(|e| StyleEdition::from_str(e).ok());
        self.inline_get("style_edition").map_or(flag, |e| StyleEdition::from_str(e).ok())
    }
    fn version(&self) -> Option<Version> {
        self.inline_get("version").and_then(|v| Version::from_str(v).ok())
    }
}

fn err_kind(e: &std::io::Error) -> &'static str {
    match e.kind() {
        std::io::ErrorKind::NotFound => "err:notfound",
        std::io::ErrorKind::InvalidData => "err:invaliddata",
        _ => "err:io",
    }
}

fn str_list(v: &Value) -> Vec<String> {
    v.as_array().map(|a| a.iter().filter_map(|x| x.as_str().map(|s| s.to_string())).collect()).unwrap_or_default()
}

/// the ops of one `cfg.apply*` request, on the real `Config`; `Err` = a panic or a rejected value
fn run_ops(ops: &Value) -> Result<Config, String> {
    let mut c = Config::default();
    for op in ops.as_array().cloned().unwrap_or_default() {
        let t = op[0].as_str().unwrap_or("");
        match t {
            "toml" => {
                c = hc::from_toml(op[1].as_str().unwrap_or(""), Path::new("/nonexistent-c14/rustfmt.toml"))?;
            }
            "override" => {
                let (k, v) = (op[1].as_str().unwrap_or(""), op[2].as_str().unwrap_or(""));
                if !Config::is_valid_key_val(k, v) {
                    return Err("invalid".into());
                }
                c.override_value(k, v);
            }
            "set" | "setcli" => {
                let (k, v) = (op[1].as_str().unwrap_or(""), op[2].as_str().unwrap_or(""));
                if !c.verif_set(t == "setcli", k, v) {
                    return Err("invalid".into());
                }
            }
            "edition" => {
                let se = StyleEdition::from_str(op[1].as_str().unwrap_or("")).map_err(|e| e.to_string())?;
                c = Config::default_for_possible_style_edition(Some(se), None, None);
            }
            _ => return Err(format!("unknown op {}", t)),
        }
    }
    Ok(c)
}

fn one_case(s: &Schema, case: &Value) -> Value {
    match case["t"].as_str().unwrap_or("") {
        "ops" => {
            let keys = str_list(&case["keys"]);
            match std::panic::catch_unwind(|| run_ops(&case["ops"])) {
                Ok(Ok(c)) => {
                    if case["roundtrip"].as_bool().unwrap_or(false) {
                        let res = match c.all_options().to_toml() {
                            Err(_) => "unprintable".to_string(),
                            Ok(text) => match hc::from_toml(&text, Path::new("/nonexistent-c14/rustfmt.toml")) {
                                Err(_) => "rejected".to_string(),
                                Ok(c2) => {
                                    // the options that `to_toml` prints (the hidden ones cannot survive)
                                    let printed: Vec<&str> = text.lines().filter_map(|l| l.split_once(" = ").map(|x| x.0)).collect();
                                    let (a, b) = (s.values(&c), s.values(&c2));
                                    let diff: Vec<String> = a.iter().zip(b.iter()).filter(|(x, y)| x.1 != y.1 && printed.contains(&x.0.as_str())).map(|(x, _)| x.0.clone()).collect();
                                    if diff.is_empty() { "same".to_string() } else { format!("diff:{}", diff.join(",")) }
                                }
                            },
                        };
                        json!({"r": res})
                    } else {
                        json!({"r": s.enc_fields(&c, &keys)})
                    }
                }
                Ok(Err(_)) => json!({"r": "err"}),
                Err(_) => json!({"r": "err", "panic": true}),
            }
        }
        "load" => {
            match case["home"].as_str() {
                Some(h) => std::env::set_var("HOME", h),
                None => std::env::remove_var("HOME"),
            }
            match case["xdg"].as_str() {
                Some(x) => std::env::set_var("XDG_CONFIG_HOME", x),
                None => std::env::remove_var("XDG_CONFIG_HOME"),
            }
            let opts = ApiOpts::from_json(&case["opts"]);
            let dir = case["dir"].as_str().map(PathBuf::from);
            let r = std::panic::catch_unwind(|| load_config(dir.as_deref(), Some(opts)));
            match r {
                Ok(Ok((c, p))) => json!({"path": p.map(|p| p.to_string_lossy().into_owned()), "fields": s.enc_fields(&c, &str_list(&case["keys"]))}),
                Ok(Err(e)) => json!({"err": err_kind(&e), "msg": e.to_string().chars().take(200).collect::<String>()}),
                Err(_) => json!({"err": "err:panic"}),
            }
        }
        "gettoml" => match hc::get_toml_path(Path::new(case["dir"].as_str().unwrap_or(""))) {
            Ok(p) => json!({"path": p.map(|p| p.to_string_lossy().into_owned())}),
            Err(e) => json!({"err": err_kind(&e)}),
        },
        "scaled" => {
            let lo = case["lo"].as_u64().unwrap_or(0) as usize;
            let hi = case["hi"].as_u64().unwrap_or(0) as usize;
            let enc = |w: [usize; 8]| w.iter().map(|x| x.to_string()).collect::<Vec<_>>().join(",");
            let rows: Vec<Value> = (lo..=hi).map(|mw| json!([enc(hc::scaled(mw)), enc(hc::set(mw))])).collect();
            json!({"rows": rows, "null": enc(hc::null())})
        }
        "parse_toml" => {
            // values of a printed configuration re-read by the real parser
            match hc::from_toml(case["text"].as_str().unwrap_or(""), Path::new("/nonexistent-c14/rustfmt.toml")) {
                Ok(c) => json!({"values": s.values(&c).into_iter().map(|(k, v)| json!([k, v])).collect::<Vec<_>>()}),
                Err(e) => json!({"err": e.chars().take(200).collect::<String>()}),
            }
        }
        "default_values" => json!({"values": s.values(&Config::default()).into_iter().map(|(k, v)| json!([k, v])).collect::<Vec<_>>(), "nightly": hc::is_nightly()}),
        other => json!({"err": format!("unknown case type {}", other)}),
    }
}

pub fn child_main(spec_path: &str) -> i32 {
    crate::pool::install_panic_hook();
    let spec: Value = match std::fs::read(spec_path).ok().and_then(|b| serde_json::from_slice(&b).ok()) {
        Some(v) => v,
        None => return 9,
    };
    let s = Schema::new();
    let results: Vec<Value> = spec["cases"].as_array().cloned().unwrap_or_default().iter().map(|c| one_case(&s, c)).collect();
    let _ = std::fs::write(format!("{}.out", spec_path), serde_json::to_vec(&json!({"results": results})).unwrap());
    0
}

/// Runs the cases in `jobs` child processes; results in order.  `None` for a case = its child died or
/// ran out of time (inconclusive).
pub fn run_children(cases: &[Value], scratch: &Path, tag: &str, jobs: usize, timeout: Duration) -> Vec<Option<Value>> {
    let n = cases.len();
    if n == 0 {
        return vec![];
    }
    let jobs = jobs.max(1).min(n);
    let chunk = (n + jobs - 1) / jobs;
    let exe = std::env::current_exe().expect("current_exe");
    let parts: Vec<(usize, &[Value])> = cases.chunks(chunk).enumerate().collect();
    let outs: Vec<Vec<Option<Value>>> = par_map(&parts, |(i, part)| {
        let spec_path = scratch.join(format!("child-{}-{}.json", tag, i));
        let outp = PathBuf::from(format!("{}.out", spec_path.display()));
        let _ = std::fs::remove_file(&outp);
        if std::fs::write(&spec_path, serde_json::to_vec(&json!({"cases": part})).unwrap()).is_err() {
            return vec![None; part.len()];
        }
        let mut cmd = Command::new(&exe);
        cmd.arg("--c14child").arg(&spec_path).env_remove("RUSTFMT_CONFIG").stdin(Stdio::null()).stdout(Stdio::null()).stderr(Stdio::null());
        let mut child = match cmd.spawn() {
            Ok(c) => c,
            Err(_) => return vec![None; part.len()],
        };
        let t0 = std::time::Instant::now();
        loop {
            match child.try_wait() {
                Ok(Some(_)) => break,
                Ok(None) => {
                    if t0.elapsed() > timeout {
                        let _ = child.kill();
                        let _ = child.wait();
                        break;
                    }
                    std::thread::sleep(Duration::from_millis(5));
                }
                Err(_) => break,
            }
        }
        let v: Option<Value> = std::fs::read(&outp).ok().and_then(|b| serde_json::from_slice(&b).ok());
        let _ = std::fs::remove_file(&spec_path);
        let _ = std::fs::remove_file(&outp);
        match v.and_then(|v| v["results"].as_array().cloned()) {
            Some(rs) if rs.len() == part.len() => rs.into_iter().map(Some).collect(),
            _ => vec![None; part.len()],
        }
    });
    outs.into_iter().flatten().collect()
}
