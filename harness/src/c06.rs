//! C06: check mode is read-only and exact; all emit modes agree on the text.
//!
//! Correspondence (model vs code):
//!  A. `emit.kind`  - `create_emitter` observed through `verif_hooks::diff::emit` (which emitter ran
//!                    is read off its effects and output);
//!  B. `emit.run`   - every emitter on pairs of texts (exhaustive small family, newline-only
//!                    differences, real pairs): operations, output, has_diff;
//!  C. `emit.exit`  - the exit status of the real binary vs the formula applied to the session flags
//!                    of the same run made in-process;
//!  D. `emit.cfg` / `emit.e2e` - the real binary over the lattice of --check/--emit/--backup/-l/-q/-v/
//!                    --config emit_mode,make_backup/--config-path/stdin: what `--print-config current`
//!                    shows, and what one whole process does (operations, output, exit status).
//! Search with the real binary (property oracle, independent of the model except for `diff.apply`):
//!  E. matrix {path, stdin} x modes x {-l, --backup, -q} on single files, several files and a module
//!     tree: bytes/mtime/inode of every file before and after, exit status of --check against what
//!     plain `rustfmt` does to a copy, equality of the texts of all modes;
//!  F. histories check -> format -> check, format -> check;
//!  G. enumerated probes of the known findings (F4, F21, F22).
use std::collections::BTreeMap;
use std::path::{Path, PathBuf};
use std::str::FromStr;

use rustfmt_nightly::verif_hooks::{diff as hk, report as hr};
use rustfmt_nightly::{Config, EmitMode, Input, ModifiedLines, Session, Verbosity};
use serde_json::json;

use crate::c12::{dlines, enc_chunks, enc_hunks, enc_script};
use crate::cli::{self, enc_content, Ran, Snap, Src};
use crate::util::*;

// ------------------------------------------------------------------------------------------------
// decoding what an emitter printed into the model's `Out` encoding

fn split_block_text(s: &str) -> Vec<String> {
    let mut v: Vec<String> = s.split('\n').map(|x| x.to_string()).collect();
    v.pop();
    v
}

#[derive(Clone, Debug)]
struct Block {
    ob: u64,
    oe: u64,
    eb: u64,
    ee: u64,
    original: Vec<String>,
    expected: Vec<String>,
}

/// the json report: per file name the blocks; None = not the expected shape
fn parse_json(doc: &str) -> Option<Vec<(String, Vec<Block>)>> {
    let v: serde_json::Value = serde_json::from_str(doc).ok()?;
    let mut res = vec![];
    for f in v.as_array()? {
        let name = f["name"].as_str()?.to_string();
        let mut bs = vec![];
        for b in f["mismatches"].as_array()? {
            bs.push(Block {
                ob: b["original_begin_line"].as_u64()?,
                oe: b["original_end_line"].as_u64()?,
                eb: b["expected_begin_line"].as_u64()?,
                ee: b["expected_end_line"].as_u64()?,
                original: split_block_text(b["original"].as_str()?),
                expected: split_block_text(b["expected"].as_str()?),
            });
        }
        res.push((name, bs));
    }
    Some(res)
}

fn enc_blocks(bs: &[Block]) -> String {
    if bs.is_empty() {
        return "_".into();
    }
    bs.iter().map(|b| format!("{}:{}:{}:{}:{}:{}", b.ob, b.oe, b.eb, b.ee, enc_list(&b.original), enc_list(&b.expected))).collect::<Vec<_>>().join(";")
}

/// a json block as the chunk a reader applies to the original (the model's `blockChunk`)
fn blocks_as_chunks(bs: &[Block]) -> String {
    if bs.is_empty() {
        return "_".into();
    }
    bs.iter().map(|b| format!("{}:{}:{}", b.ob, b.original.len(), enc_list(&b.expected))).collect::<Vec<_>>().join(";")
}

fn unescape_xml(s: &str) -> Option<String> {
    let mut out = String::new();
    let mut rest = s;
    while let Some(c) = rest.chars().next() {
        if c == '&' {
            let mut hit = false;
            for (ent, ch) in [("&lt;", '<'), ("&gt;", '>'), ("&quot;", '"'), ("&apos;", '\''), ("&amp;", '&')] {
                if rest.starts_with(ent) {
                    out.push(ch);
                    rest = &rest[ent.len()..];
                    hit = true;
                    break;
                }
            }
            if !hit {
                return None;
            }
        } else {
            out.push(c);
            rest = &rest[c.len_utf8()..];
        }
    }
    Some(out)
}

/// the checkstyle report: per `<file name="…">` the (line, message text) of its `<error>` elements
fn parse_checkstyle(doc: &str) -> Option<Vec<(String, Vec<(u64, String)>)>> {
    let body = doc.strip_prefix("<?xml version=\"1.0\" encoding=\"utf-8\"?>\n<checkstyle version=\"4.3\">")?;
    let body = body.strip_suffix("</checkstyle>\n").or_else(|| body.strip_suffix("</checkstyle>"))?;
    let mut res = vec![];
    let mut rest = body;
    while !rest.is_empty() {
        rest = rest.strip_prefix("<file name=\"")?;
        let q = rest.find("\">")?;
        let name = rest[..q].to_string();
        rest = &rest[q + 2..];
        let end = rest.find("</file>")?;
        let mut inner = &rest[..end];
        rest = &rest[end + "</file>".len()..];
        let mut errs = vec![];
        while !inner.is_empty() {
            inner = inner.strip_prefix("<error line=\"")?;
            let j = inner.find('"')?;
            let n: u64 = inner[..j].parse().ok()?;
            inner = inner[j..].strip_prefix("\" severity=\"warning\" message=\"Should be `")?;
            let k = inner.find('"')?;
            let msg = inner[..k].strip_suffix('`')?;
            errs.push((n, unescape_xml(msg)?));
            inner = inner[k..].strip_prefix("\" />")?;
        }
        res.push((name, errs));
    }
    Some(res)
}

fn enc_errors(es: &[(u64, String)]) -> String {
    if es.is_empty() { "_".into() } else { es.iter().map(|(n, s)| format!("{}:{}", n, enc_str(s))).collect::<Vec<_>>().join(";") }
}

#[derive(Clone, Debug, PartialEq, Eq)]
struct PrintedHunk {
    lno_orig: u64,
    lines: Vec<(char, String)>,
}

/// what `print_diff` wrote for the file called `name`: `Diff in <name>:<line>:` then prefixed lines
fn parse_hunks(text: &str, name: &str, verbose: bool) -> Option<Vec<PrintedHunk>> {
    let title = format!("Diff in {}:", name);
    let mut res: Vec<PrintedHunk> = vec![];
    for line in text.split_inclusive('\n') {
        let line = line.strip_suffix('\n')?;
        if let Some(r) = line.strip_prefix(&title) {
            if let Some(n) = r.strip_suffix(':').and_then(|n| n.parse::<u64>().ok()) {
                res.push(PrintedHunk { lno_orig: n, lines: vec![] });
                continue;
            }
        }
        let mut cs = line.chars();
        let p = cs.next()?;
        if !matches!(p, ' ' | '+' | '-') {
            return None;
        }
        let mut body = cs.as_str().to_string();
        if verbose {
            body = body.strip_suffix('\u{23ce}')?.to_string();
        }
        res.last_mut()?.lines.push((p, body));
    }
    Some(res)
}

fn render_hunks(hs: &[hk::Hunk]) -> Vec<PrintedHunk> {
    hs.iter()
        .map(|h| PrintedHunk {
            lno_orig: h.line_number_orig as u64,
            lines: h.lines.iter().map(|l| match l {
                hk::Line::Context(s) => (' ', s.clone()),
                hk::Line::Expected(s) => ('+', s.clone()),
                hk::Line::Resulting(s) => ('-', s.clone()),
            }).collect(),
        })
        .collect()
}

/// printed hunks as chunks on the original: a hunk replaces its context and `-` lines by its
/// context and `+` lines
fn hunks_as_chunks(hs: &[PrintedHunk]) -> String {
    if hs.is_empty() {
        return "_".into();
    }
    hs.iter()
        .map(|h| {
            let removed = h.lines.iter().filter(|(p, _)| *p != '+').count();
            let new: Vec<String> = h.lines.iter().filter(|(p, _)| *p != '-').map(|(_, s)| s.clone()).collect();
            format!("{}:{}:{}", h.lno_orig, removed, enc_list(&new))
        })
        .collect::<Vec<_>>()
        .join(";")
}

fn strip_verbose_lines(s: &str) -> String {
    // with -v the session prints these lines between the pieces of the report, also in the middle
    // of a line (the checkstyle / json header does not end in a line break)
    let re = regex::Regex::new(r"(Using rustfmt config file|Formatting |Spent )[^\n]*\n").unwrap();
    re.replace_all(s, "").into_owned()
}

/// The model's `Out` encoding of what one process printed for ONE file called `name`.
/// `empty_means`: how to read an empty output - `nothing`, or, when the caller knows that the
/// modified-lines (stdout) emitter was asked for, `modified:_` (`text:0:-`): the same zero bytes.
fn enc_out_observed(stdout: &str, name: &str, orig: &str, fmt: &str, verbose: bool, empty_means: &str) -> String {
    let s = if verbose { strip_verbose_lines(stdout) } else { stdout.to_string() };
    if s.is_empty() {
        return empty_means.to_string();
    }
    if s.starts_with("<?xml") {
        return match parse_checkstyle(&s) {
            Some(fs) if fs.len() == 1 && fs[0].0 == name => format!("checkstyle:{}", enc_errors(&fs[0].1)),
            Some(fs) if fs.is_empty() => "checkstyle:!no-file-element".into(),
            _ => "checkstyle:!unparsable".into(),
        };
    }
    if s.starts_with('[') {
        if let Some(fs) = parse_json(s.trim_end_matches('\n')) {
            return match fs.len() {
                0 => "json:none".into(),
                1 if fs[0].0 == name => format!("json:{}", enc_blocks(&fs[0].1)),
                _ => "json:!other-files".into(),
            };
        }
    }
    if s == format!("{}\n", name) {
        return "name".into();
    }
    if s == format!("Incorrect newline style in {}\n", name) {
        return "newline".into();
    }
    if s.starts_with(&format!("Diff in {}:", name)) {
        let real = hk::make_diff(orig, fmt, 3);
        return match parse_hunks(&s, name, verbose) {
            Some(p) if p == render_hunks(&real) => format!("hunks:{}", enc_hunks(&real)),
            Some(_) => "hunks:!printed-differs-from-make_diff".into(),
            None => "hunks:!unparsable".into(),
        };
    }
    if let Some(rest) = s.strip_prefix(&format!("{}:\n\n", name)) {
        return format!("text:1:{}", enc_str(rest));
    }
    if let Ok(ml) = ModifiedLines::from_str(&s) {
        if !ml.chunks.is_empty() && ml.to_string() == s {
            return format!("modified:{}", enc_chunks(&ml));
        }
    }
    format!("text:0:{}", enc_str(&s))
}

// ------------------------------------------------------------------------------------------------
// A, B: the emitters in-process

const MODES: [(&str, EmitMode); 7] = [
    ("files", EmitMode::Files),
    ("stdout", EmitMode::Stdout),
    ("coverage", EmitMode::Coverage),
    ("json", EmitMode::Json),
    ("modifiedLines", EmitMode::ModifiedLines),
    ("checkstyle", EmitMode::Checkstyle),
    ("diff", EmitMode::Diff),
];

/// (kind, mode, make_backup) for each emitter
const KINDS: [(&str, EmitMode, bool); 7] = [
    ("filesWithBackup", EmitMode::Files, true),
    ("files", EmitMode::Files, false),
    ("stdout", EmitMode::Stdout, false),
    ("json", EmitMode::Json, false),
    ("modifiedLines", EmitMode::ModifiedLines, false),
    ("checkstyle", EmitMode::Checkstyle, false),
    ("diff", EmitMode::Diff, false),
];

struct Gen {
    files: String,
    backup: String,
}

struct EmitObs {
    out: Vec<u8>,
    has_diff: bool,
    state: (Option<Vec<u8>>, Option<Vec<u8>>, Option<Vec<u8>>),
    touched: bool,
    err: Option<String>,
}

fn emit_here(dir: &Path, mode: EmitMode, backup: bool, l: bool, orig: &str, fmt: &str) -> EmitObs {
    let f = dir.join("e.rs");
    let _ = std::fs::remove_file(dir.join("e.tmp"));
    let _ = std::fs::remove_file(dir.join("e.bk"));
    std::fs::write(&f, orig).unwrap();
    let before = cli::snapshot(dir);
    let r = hk::emit(mode, backup, l, f.to_str().unwrap(), orig, fmt);
    let after = cli::snapshot(dir);
    let state = (cli::content(&f), cli::content(&dir.join("e.tmp")), cli::content(&dir.join("e.bk")));
    match r {
        Ok((out, has_diff)) => EmitObs { out, has_diff, state, touched: before != after, err: None },
        Err(e) => EmitObs { out: vec![], has_diff: false, state, touched: before != after, err: Some(e.to_string()) },
    }
}

fn classify_kind(ob: &EmitObs, name: &str, orig: &str, fmt: &str) -> String {
    if ob.state.2.is_some() {
        return "filesWithBackup".into();
    }
    if ob.state.0.as_deref() == Some(fmt.as_bytes()) {
        return "files".into();
    }
    let s = String::from_utf8_lossy(&ob.out).into_owned();
    if s == fmt {
        return "stdout".into();
    }
    if s.starts_with('[') {
        return "json".into();
    }
    if s.starts_with("<?xml") {
        return "checkstyle".into();
    }
    if ModifiedLines::from_str(&s).map(|m| !m.chunks.is_empty()).unwrap_or(false) {
        return "modifiedLines".into();
    }
    if s == format!("{}\n", name) && ob.has_diff && ob.state.0.as_deref() == Some(orig.as_bytes()) {
        return "diff".into();
    }
    format!("unknown:{}", s.chars().take(40).collect::<String>())
}

fn part_a(o: &mut Outcome, dir: &Path) {
    let (orig, fmt) = ("fn main(){}\nfn g() {}\n", "fn main() {}\nfn g() {}\n");
    let name = dir.join("e.rs").to_string_lossy().into_owned();
    for (mname, mode) in MODES {
        for backup in [false, true] {
            // -l so that the Diff emitter writes the name to `out` instead of printing hunks on the terminal
            let ob = emit_here(dir, mode, backup, true, orig, fmt);
            let k = classify_kind(&ob, &name, orig, fmt);
            o.push("corr", "emit.kind", format!("emit.kind {} {}", mname, backup as u8), k, format!("create_emitter({}, make_backup={})", mname, backup), true);
        }
    }
}

fn small_texts() -> Vec<String> {
    let mut v = vec![];
    let alpha = ["a", "b", ""];
    let mut seqs: Vec<Vec<&str>> = vec![vec![]];
    for x in alpha {
        seqs.push(vec![x]);
        for y in alpha {
            seqs.push(vec![x, y]);
        }
    }
    for s in seqs {
        let j = s.join("\n");
        v.push(j.clone());
        v.push(format!("{}\n", j));
    }
    // terminator variants (the newline-only branch of the Diff emitter)
    for t in ["a\r\nb\r\n", "a\nb\r\n", "a\r\n", "a\r\nb", "\r\n"] {
        v.push(t.to_string());
    }
    v.sort();
    v.dedup();
    v
}

fn pair_run(o: &mut Outcome, dir: &Path, gen: &Gen, orig: &str, fmt: &str, desc: &str) {
    let name = dir.join("e.rs").to_string_lossy().into_owned();
    let (script, _, _, all_both) = enc_script(orig, fmt);
    for (kind, mode, backup) in KINDS {
        for l in [false, true] {
            if kind == "diff" && !l && !all_both {
                // print_diff writes to the terminal, not to `out`: covered on the real binary (part D, E)
                o.count("B:diff-hunks-skipped(in-process output goes to the terminal)");
                continue;
            }
            let ob = emit_here(dir, mode, backup, l, orig, fmt);
            if let Some(e) = &ob.err {
                o.direct_failures.push(json!({"sig": "c06:emit-io-error", "what": format!("emitter {} returned an error: {}", kind, e), "orig": orig, "fmt": fmt}));
                continue;
            }
            let ops = if !ob.touched { "_".to_string() } else if kind == "filesWithBackup" { gen.backup.clone() } else if kind == "files" { gen.files.clone() } else { "!non-files-emitter-touched-the-directory".to_string() };
            let out = enc_out_observed(&String::from_utf8_lossy(&ob.out), &name, orig, fmt, false, match kind { "modifiedLines" => "modified:_", "stdout" => "text:0:-", _ => "nothing" });
            let nontrivial = orig != fmt;
            o.push("corr", "emit.run", format!("emit.run {} {} 1 {} {} {}", kind, l as u8, enc_str(orig), enc_str(fmt), script), format!("{}|{}|{}", ops, out, ob.has_diff as u8), format!("{} kind={} l={}", desc, kind, l), nontrivial);
            if ob.touched {
                // the directory is what the generated list computes
                o.push("corr", "bk.run", format!("bk.run {} {} {} none none", ops, enc_str(orig), enc_str(fmt)), format!("{}:{}:{}", enc_content(&ob.state.0), enc_content(&ob.state.1), enc_content(&ob.state.2)), format!("{} kind={} l={}", desc, kind, l), true);
            }
            o.count(&format!("B:{}:{}", kind, if ob.touched { "wrote" } else { "read-only" }));
        }
    }
}

// ------------------------------------------------------------------------------------------------
// C: exit formula

fn flags_in_process(dir: &Path, text: &str, stdin: bool, check: bool) -> Option<String> {
    let mut config = Config::default();
    config.set().verbose(Verbosity::Quiet);
    if check {
        config.set().emit_mode(EmitMode::Diff);
        config.set().print_misformatted_file_names(true);
    } else if stdin {
        config.set().emit_mode(EmitMode::Stdout);
    } else {
        config.set().emit_mode(EmitMode::Files);
    }
    let input = if stdin {
        Input::Text(text.to_string())
    } else {
        let f = dir.join("inproc.rs");
        std::fs::write(&f, text).ok()?;
        Input::File(f)
    };
    let r = std::panic::catch_unwind(std::panic::AssertUnwindSafe(move || {
        let mut out: Vec<u8> = vec![];
        let mut session = Session::new(config, Some(&mut out));
        let res = session.format(input);
        let mut fl = hr::session_flags(&session);
        if res.is_err() {
            // bin/main.rs: format_and_emit_report adds an operational error when format() fails
            fl[0] = true;
        }
        fl
    }));
    r.ok().map(|fl| fl.iter().map(|b| if *b { '1' } else { '0' }).collect())
}

fn part_c(o: &mut Outcome, plain: &Path, scratch: &Path, pool: &[Src]) {
    let long = format!("fn main() {{\n    let s = \"{}\";\n}}\n", "x".repeat(120));
    let inputs: Vec<(&str, String)> = vec![
        ("formatted", pool[0].fmt.clone()),
        ("unformatted", pool[0].orig.clone()),
        ("unformatted2", pool[1 % pool.len()].orig.clone()),
        ("parse-error", "fn main( {\n".to_string()),
        ("unclosed", "fn main() { let x = (1;\n".to_string()),
        ("too-long-line", long.clone()),
        ("too-long-line-unformatted", long.replace("let s", "let   s")),
        ("trailing-space-in-comment", "fn main() {\n    /* a \n    b */\n}\n".to_string()),
    ];
    for (label, text) in &inputs {
        for stdin in [false, true] {
            for check in [false, true] {
                let d = cli::fresh_dir(scratch, "exit");
                let flags = match flags_in_process(&d, text, stdin, check) {
                    Some(f) => f,
                    None => {
                        o.count("C:in-process-panic");
                        continue;
                    }
                };
                let mut args: Vec<String> = vec![];
                if check {
                    args.push("--check".into());
                }
                let ran = if stdin {
                    cli::rustfmt_stdin(plain, &d, &args, text.as_bytes())
                } else {
                    std::fs::write(d.join("x.rs"), text).unwrap();
                    args.push("x.rs".into());
                    cli::rustfmt(plain, &d, &args)
                };
                if ran.timed_out {
                    o.count("C:timeout");
                    continue;
                }
                let code = match ran.code {
                    Some(c) => c.to_string(),
                    None => ran.status_word(),
                };
                o.count(&format!("C:flags={}:exit={}", flags, code));
                o.push("corr", "emit.exit", format!("emit.exit {} {} {}", check as u8, stdin as u8, flags), code, format!("exit status of the binary, input={} stdin={} check={}", label, stdin, check), flags.contains('1'));
            }
        }
    }
    // a missing file: bin/main.rs adds the operational error itself
    let d = cli::fresh_dir(scratch, "exit_missing");
    for check in [false, true] {
        let mut args: Vec<String> = vec![];
        if check {
            args.push("--check".into());
        }
        args.push("missing.rs".into());
        let ran = cli::rustfmt(plain, &d, &args);
        o.push("corr", "emit.exit", format!("emit.exit {} 0 1000000", check as u8), ran.code.map(|c| c.to_string()).unwrap_or_else(|| ran.status_word()), format!("missing file, check={}", check), true);
    }
}

// ------------------------------------------------------------------------------------------------
// D: the command line end to end

#[derive(Clone, Debug)]
struct CliCase {
    check: bool,
    emit: Option<&'static str>,
    backup: bool,
    l: bool,
    quiet: bool,
    verbose: bool,
    ie: Option<&'static str>,
    ib: Option<bool>,
    stdin: bool,
    bm: &'static str,
    bb: bool,
}

fn mode_cli_name(m: &str) -> &'static str {
    match m {
        "files" => "Files",
        "stdout" => "Stdout",
        "coverage" => "Coverage",
        "json" => "Json",
        "modifiedLines" => "ModifiedLines",
        "checkstyle" => "Checkstyle",
        "diff" => "Diff",
        _ => "?",
    }
}

fn mode_model_name(m: &str) -> String {
    match m {
        "Files" => "files",
        "Stdout" => "stdout",
        "Coverage" => "coverage",
        "Json" => "json",
        "ModifiedLines" => "modifiedLines",
        "Checkstyle" => "checkstyle",
        "Diff" => "diff",
        other => return format!("?{}", other),
    }
    .to_string()
}

impl CliCase {
    fn args(&self) -> Vec<String> {
        let mut a: Vec<String> = vec![];
        if self.check {
            a.push("--check".into());
        }
        if let Some(e) = self.emit {
            a.push("--emit".into());
            a.push(e.into());
        }
        if self.backup {
            a.push("--backup".into());
        }
        if self.l {
            a.push("-l".into());
        }
        if self.quiet {
            a.push("-q".into());
        }
        if self.verbose {
            a.push("-v".into());
        }
        let mut kv = vec![];
        if let Some(m) = self.ie {
            kv.push(format!("emit_mode={}", mode_cli_name(m)));
        }
        if let Some(b) = self.ib {
            kv.push(format!("make_backup={}", b));
        }
        if !kv.is_empty() {
            a.push("--config".into());
            a.push(kv.join(","));
        }
        a
    }
    fn has_base(&self) -> bool {
        self.bm != "files" || self.bb
    }
    fn model_args(&self) -> String {
        let opt = |o: Option<String>| o.unwrap_or_else(|| "none".into());
        format!(
            "1 {} {} {} {} {} {} {} {}",
            self.check as u8,
            opt(self.emit.map(enc_str)),
            self.backup as u8,
            self.l as u8,
            self.quiet as u8,
            self.verbose as u8,
            opt(self.ie.map(|s| s.to_string())),
            opt(self.ib.map(|b| (b as u8).to_string()))
        )
    }
}

fn err_word(stderr: &str) -> Option<&'static str> {
    if stderr.contains("Can't use both `--verbose` and `--quiet`") {
        Some("verboseAndQuiet")
    } else if stderr.contains("Invalid to use `--emit` and `--check`") {
        Some("emitAndCheck")
    } else if stderr.contains("using an unstable") {
        Some("unstableEmit")
    } else if stderr.contains("Invalid value for `--emit`") {
        Some("badEmit")
    } else if stderr.contains("not supported with standard output") {
        Some("stdinBadEmit")
    } else {
        None
    }
}

struct CliObs {
    cfg: String,
    e2e: String,
    state: String,
    wrote: bool,
    timed_out: bool,
}

fn run_cli_case(c: &CliCase, idx: usize, plain: &Path, scratch: &Path, orig: &str, fmt: &str, finals: &(String, String), gen: &Gen) -> CliObs {
    let d = cli::fresh_dir(scratch, &format!("cli{}", idx));
    let x = d.join("x.rs");
    std::fs::write(&x, orig).unwrap();
    let mut pre: Vec<String> = vec![];
    if c.has_base() {
        let toml = format!("emit_mode = \"{}\"\nmake_backup = {}\n", mode_cli_name(c.bm), c.bb);
        if c.stdin {
            // format_string looks for the configuration in the current directory
            std::fs::write(d.join("rustfmt.toml"), toml).unwrap();
        } else {
            // format() builds the session (and its emitter) from --config-path or the defaults only
            std::fs::write(d.join("base.toml"), toml).unwrap();
            pre.push("--config-path".into());
            pre.push("base.toml".into());
        }
    }
    // what --print-config current shows (path form only)
    let cfg = if c.stdin {
        String::new()
    } else {
        let mut a = pre.clone();
        a.extend(c.args());
        a.push("--print-config".into());
        a.push("current".into());
        a.push("x.rs".into());
        let r = cli::rustfmt(plain, &d, &a);
        if r.code == Some(0) {
            let t = r.out_str();
            let get = |k: &str| t.lines().find_map(|l| l.strip_prefix(&format!("{} = ", k)).map(|v| v.trim_matches('"').to_string())).unwrap_or_else(|| "?".into());
            format!("{}:{}", mode_model_name(&get("emit_mode")), if get("make_backup") == "true" { "1" } else { "0" })
        } else {
            match err_word(&r.stderr) {
                Some(w) => format!("err:{}", w),
                None => format!("!{}:{}", r.status_word(), r.stderr.chars().take(80).collect::<String>()),
            }
        }
    };
    let before = cli::snapshot(&d);
    let mut a = pre.clone();
    a.extend(c.args());
    let ran = if c.stdin {
        cli::rustfmt_stdin(plain, &d, &a, orig.as_bytes())
    } else {
        a.push("x.rs".into());
        cli::rustfmt(plain, &d, &a)
    };
    let after = cli::snapshot(&d);
    let state = format!("{}:{}:{}", enc_content(&cli::content(&x)), enc_content(&cli::content(&d.join("x.tmp"))), enc_content(&cli::content(&d.join("x.bk"))));
    let wrote = before != after;
    let e2e = if let (Some(1), Some(w)) = (ran.code, err_word(&ran.stderr)) {
        if wrote { format!("err:{}!but-the-directory-changed", w) } else { format!("err:{}", w) }
    } else {
        let ops = if !wrote { "_".to_string() } else if state == finals.0 { gen.files.clone() } else if state == finals.1 { gen.backup.clone() } else { format!("!other-effect:{}", state.chars().take(60).collect::<String>()) };
        let name = if c.stdin { "<stdin>".to_string() } else { x.to_string_lossy().into_owned() };
        // format_string forces Verbosity::Quiet on standard input
        let out = enc_out_observed(&ran.out_str(), &name, orig, fmt, c.verbose && !c.stdin, if c.ie == Some("modifiedLines") && !c.stdin { "modified:_" } else { "nothing" });
        format!("{}|{}|{}", ops, out, ran.code.map(|c| c.to_string()).unwrap_or_else(|| ran.status_word()))
    };
    let _ = std::fs::remove_dir_all(&d);
    CliObs { cfg, e2e, state, wrote, timed_out: ran.timed_out }
}

fn part_d(o: &mut Outcome, rng: &mut Rng, thorough: bool, plain: &Path, scratch: &Path, pool: &[Src], gen: &Gen) {
    let emits: [Option<&'static str>; 8] = [None, Some("files"), Some("stdout"), Some("json"), Some("checkstyle"), Some("coverage"), Some("diff"), Some("modified-lines")];
    let ies: [Option<&'static str>; 6] = [None, Some("files"), Some("modifiedLines"), Some("diff"), Some("json"), Some("stdout")];
    let ibs = [None, Some(true), Some(false)];
    let bases = [("files", false), ("files", true), ("stdout", false), ("json", true), ("diff", false)];
    let mut cases: Vec<CliCase> = vec![];
    for check in [false, true] {
        for emit in emits {
            for backup in [false, true] {
                for l in [false, true] {
                    for quiet in [false, true] {
                        for stdin in [false, true] {
                            cases.push(CliCase { check, emit, backup, l, quiet, verbose: false, ie: None, ib: None, stdin, bm: "files", bb: false });
                        }
                    }
                }
            }
        }
    }
    let systematic = cases.len();
    let extra = if thorough { 20000 } else { 500 };
    for _ in 0..extra {
        let verbose = rng.chance(1, 6);
        let (bm, bb) = *rng.pick(&bases);
        cases.push(CliCase {
            check: rng.chance(1, 2),
            emit: *rng.pick(&emits),
            backup: rng.chance(1, 3),
            l: rng.chance(1, 3),
            quiet: rng.chance(1, 4),
            verbose,
            ie: *rng.pick(&ies),
            ib: *rng.pick(&ibs),
            stdin: rng.chance(1, 3),
            bm,
            bb,
        });
    }
    // coverage replaces the text the emitter is given; the e2e model is about the formatted text
    let inputs: Vec<(String, String)> = vec![(pool[0].orig.clone(), pool[0].fmt.clone()), (pool[1 % pool.len()].fmt.clone(), pool[1 % pool.len()].fmt.clone())];
    o.count_n("D:cases-systematic", systematic as u64 * inputs.len() as u64);
    o.count_n("D:cases-random(with --config emit_mode/make_backup, --config-path, -v)", extra as u64 * inputs.len() as u64);
    for (orig, fmt) in &inputs {
        let fin = run_model(&[format!("bk.run {} {} {} none none", gen.files, enc_str(orig), enc_str(fmt)), format!("bk.run {} {} {} none none", gen.backup, enc_str(orig), enc_str(fmt))], 1);
        let finals = (fin[0].clone(), fin[1].clone());
        let (script, _, _, _) = enc_script(orig, fmt);
        let idx: Vec<usize> = (0..cases.len()).collect();
        let obs: Vec<CliObs> = par_map(&idx, |i| run_cli_case(&cases[*i], *i, plain, scratch, orig, fmt, &finals, gen));
        for (c, ob) in cases.iter().zip(&obs) {
            let desc = format!("rustfmt {}{}{}", c.args().join(" "), if c.has_base() { format!(" [base emit_mode={} make_backup={}]", c.bm, c.bb) } else { String::new() }, if c.stdin { " < x.rs" } else { " x.rs" });
            let changed = orig != fmt;
            if ob.timed_out || ob.cfg.starts_with("!timeout") {
                o.count("D:timeout");
                continue;
            }
            if !c.stdin {
                o.push("corr", "emit.cfg", format!("emit.cfg {} {} {}", c.model_args(), c.bm, c.bb as u8), ob.cfg.clone(), desc.clone(), true);
            }
            if ob.cfg.starts_with("coverage:") && !ob.e2e.starts_with("err:") {
                o.count("D:coverage-output-not-compared");
                if ob.wrote {
                    o.direct_failures.push(json!({"sig": "c06:non-writing-mode-wrote", "what": format!("coverage mode changed the directory ({})", desc)}));
                }
                continue;
            }
            o.push("corr", "emit.e2e", format!("emit.e2e {} {} {} {} {} {} {}", c.model_args(), c.stdin as u8, c.bm, c.bb as u8, enc_str(orig), enc_str(fmt), script), ob.e2e.clone(), desc.clone(), changed);
            let word = ob.e2e.split('|').next().unwrap_or("").to_string();
            o.count(&format!("D:{}", if ob.e2e.starts_with("err:") { ob.e2e.clone() } else if ob.wrote { format!("wrote:{}", word) } else { format!("read-only:{}", ob.e2e.split('|').nth(1).unwrap_or("").split(':').next().unwrap_or("")) }));
            let _ = &ob.state;
        }
    }
}

// ------------------------------------------------------------------------------------------------
// E, F: the matrix on the real binary

#[derive(Clone, Debug)]
struct Tree {
    label: String,
    /// relative path -> contents
    files: BTreeMap<String, String>,
    /// what is named on the command line
    roots: Vec<String>,
    /// contents of the directory's rustfmt.toml (None = empty)
    config: Option<String>,
}

fn materialize(dir: &Path, t: &Tree) {
    if let Some(c) = &t.config {
        std::fs::write(dir.join("rustfmt.toml"), c).unwrap();
    }
    for (rel, text) in &t.files {
        let p = dir.join(rel);
        if let Some(parent) = p.parent() {
            std::fs::create_dir_all(parent).unwrap();
        }
        std::fs::write(&p, text).unwrap();
        if let Ok(f) = std::fs::File::options().write(true).open(&p) {
            let _ = f.set_modified(std::time::SystemTime::now() - std::time::Duration::from_secs(100_000));
        }
    }
}

/// plain `rustfmt roots…` on a copy: the contents afterwards, or None when anything was reported
fn reference(plain: &Path, scratch: &Path, tag: &str, t: &Tree) -> Option<BTreeMap<String, String>> {
    let d = cli::fresh_dir(scratch, tag);
    materialize(&d, t);
    let r = cli::rustfmt(plain, &d, &t.roots);
    let ok = r.code == Some(0) && r.stderr.is_empty() && r.stdout.is_empty();
    let mut res = BTreeMap::new();
    for rel in t.files.keys() {
        res.insert(rel.clone(), std::fs::read_to_string(d.join(rel)).unwrap_or_default());
    }
    let extra = cli::snapshot(&d).iter().filter(|(k, s)| s.bytes.is_some() && k.as_str() != "rustfmt.toml" && !t.files.contains_key(k.as_str())).count();
    let _ = std::fs::remove_dir_all(&d);
    if ok && extra == 0 { Some(res) } else { None }
}

#[derive(Clone, Copy, Debug, PartialEq, Eq)]
enum Class {
    Check,
    Files,
    FilesBackup,
    Stdout,
    Json,
    Checkstyle,
    Modified,
    DiffNoCheck,
    Coverage,
}

#[derive(Clone, Debug)]
struct ModeSpec {
    args: &'static [&'static str],
    class: Class,
    l: bool,
    q: bool,
    stdin: bool,
}

const fn m(args: &'static [&'static str], class: Class, l: bool, q: bool, stdin: bool) -> ModeSpec {
    ModeSpec { args, class, l, q, stdin }
}

const PATH_MODES: &[ModeSpec] = &[
    m(&["--check"], Class::Check, false, false, false),
    m(&["--check", "-l"], Class::Check, true, false, false),
    m(&["--check", "-q"], Class::Check, false, true, false),
    m(&["--check", "--backup"], Class::Check, false, false, false),
    m(&["--check", "-l", "--backup", "-q"], Class::Check, true, true, false),
    m(&[], Class::Files, false, false, false),
    m(&["--emit", "files"], Class::Files, false, false, false),
    m(&["-l"], Class::Files, true, false, false),
    m(&["--emit", "files", "-l", "-q"], Class::Files, true, true, false),
    m(&["-q"], Class::Files, false, true, false),
    m(&["--backup"], Class::FilesBackup, false, false, false),
    m(&["--backup", "-l"], Class::FilesBackup, true, false, false),
    m(&["--emit", "files", "--backup", "-q"], Class::FilesBackup, false, true, false),
    m(&["--emit", "stdout"], Class::Stdout, false, false, false),
    m(&["--emit", "stdout", "-q"], Class::Stdout, false, true, false),
    m(&["--emit", "stdout", "-l", "--backup"], Class::Stdout, true, false, false),
    m(&["--emit", "json"], Class::Json, false, false, false),
    m(&["--emit", "json", "-l", "--backup", "-q"], Class::Json, true, true, false),
    m(&["--emit", "checkstyle"], Class::Checkstyle, false, false, false),
    m(&["--emit", "checkstyle", "-l", "--backup", "-q"], Class::Checkstyle, true, true, false),
    m(&["--config", "emit_mode=ModifiedLines"], Class::Modified, false, false, false),
    m(&["--config", "emit_mode=ModifiedLines", "-l", "--backup", "-q"], Class::Modified, true, true, false),
    m(&["--config", "emit_mode=Diff"], Class::DiffNoCheck, false, false, false),
    m(&["--emit", "coverage"], Class::Coverage, false, false, false),
];

const STDIN_MODES: &[ModeSpec] = &[
    m(&[], Class::Stdout, false, true, true),
    m(&["--emit", "stdout"], Class::Stdout, false, true, true),
    m(&["-q"], Class::Stdout, false, true, true),
    m(&["--backup", "-l"], Class::Stdout, true, true, true),
    m(&["--check"], Class::Check, false, true, true),
    m(&["--check", "-l"], Class::Check, true, true, true),
    m(&["--check", "--backup", "-q"], Class::Check, false, true, true),
    m(&["--emit", "json"], Class::Json, false, true, true),
    m(&["--emit", "json", "--backup", "-l"], Class::Json, true, true, true),
    m(&["--emit", "checkstyle"], Class::Checkstyle, false, true, true),
];

struct ModeObs {
    ran: Ran,
    before: BTreeMap<String, Snap>,
    after: BTreeMap<String, Snap>,
    dir: PathBuf,
}

fn run_mode(plain: &Path, scratch: &Path, tag: &str, t: &Tree, ms: &ModeSpec) -> ModeObs {
    let d = cli::fresh_dir(scratch, tag);
    materialize(&d, t);
    let before = cli::snapshot(&d);
    let mut args: Vec<String> = ms.args.iter().map(|s| s.to_string()).collect();
    let ran = if ms.stdin {
        cli::rustfmt_stdin(plain, &d, &args, t.files[&t.roots[0]].as_bytes())
    } else {
        args.extend(t.roots.iter().cloned());
        cli::rustfmt(plain, &d, &args)
    };
    let after = cli::snapshot(&d);
    let _ = std::fs::remove_dir_all(&d);
    ModeObs { ran, before, after, dir: d }
}

fn dlines_eq(a: &str, b: &str) -> bool {
    dlines(a) == dlines(b)
}

fn lines_eq(a: &str, b: &str) -> bool {
    a.lines().collect::<Vec<_>>() == b.lines().collect::<Vec<_>>()
}

/// compares a text a mode produced with the reference text: bytes, and separately `str::lines`
fn compare_text(o: &mut Outcome, what: &str, got: &str, want: &str, ctx: &str) {
    if got == want {
        o.count(&format!("E:text:{}:bytes-equal", what));
    } else if lines_eq(got, want) {
        o.count(&format!("E:text:{}:TERMINATORS-DIFFER", what));
        o.direct_failures.push(json!({"sig": "c06:text-differs-in-terminators", "what": format!("{}: same lines as the text `rustfmt` writes to the file, different bytes (line terminators) ({})", what, ctx), "got": got, "want": want}));
    } else {
        o.direct_failures.push(json!({"sig": "c06:text-differs", "what": format!("{}: not the text plain `rustfmt` writes to the file ({})", what, ctx), "got": got.chars().take(600).collect::<String>(), "want": want.chars().take(600).collect::<String>()}));
    }
}

fn read_only_check(o: &mut Outcome, ob: &ModeObs, ctx: &str) -> bool {
    if ob.before == ob.after {
        o.count("E:read-only:untouched(bytes+mtime+inode of every entry)");
        true
    } else {
        let changed: Vec<String> = ob.after.iter().filter(|(k, v)| ob.before.get(*k) != Some(*v)).map(|(k, _)| k.clone()).chain(ob.before.keys().filter(|k| !ob.after.contains_key(*k)).cloned()).collect();
        o.direct_failures.push(json!({"sig": "c06:non-writing-mode-wrote", "what": format!("a non-writing mode changed the directory: {:?} ({})", changed, ctx)}));
        false
    }
}

fn evaluate_mode(o: &mut Outcome, t: &Tree, refd: &BTreeMap<String, String>, ms: &ModeSpec, ob: &ModeObs) {
    let ctx = format!("tree={} `rustfmt {}{}`", t.label, ms.args.join(" "), if ms.stdin { " < file".to_string() } else { format!(" {}", t.roots.join(" ")) });
    let would_rewrite = t.files.iter().any(|(k, v)| &refd[k] != v);
    let abs = |rel: &str| ob.dir.join(rel).to_string_lossy().into_owned();
    let name_of = |rel: &str| if ms.stdin { "<stdin>".to_string() } else { abs(rel) };
    let changed_files: Vec<&String> = t.files.keys().filter(|k| refd[*k] != t.files[*k]).collect();
    if ob.ran.timed_out {
        o.count("E:timeout");
        return;
    }
    if !ob.ran.stderr.is_empty() {
        o.direct_failures.push(json!({"sig": "c06:unexpected-stderr", "what": format!("the reference run was silent but this mode wrote to stderr ({})", ctx), "stderr": ob.ran.stderr.chars().take(300).collect::<String>()}));
    }
    o.count(&format!("E:mode:{:?}{}{}", ms.class, if ms.stdin { ":stdin" } else { "" }, if would_rewrite { ":unformatted" } else { ":formatted" }));
    let out = ob.ran.out_str();
    let code = ob.ran.code;
    // the only file of a stdin run / the files of a path run, in the emission order (path order)
    let subjects: Vec<String> = if ms.stdin { vec![t.roots[0].clone()] } else { t.files.keys().cloned().collect() };
    let want_code_zero = |o: &mut Outcome| {
        if code != Some(0) {
            o.direct_failures.push(json!({"sig": "c06:exit-status", "what": format!("{} where exit 0 was expected ({})", ob.ran.status_word(), ctx)}));
        }
    };
    match ms.class {
        Class::Check => {
            read_only_check(o, ob, &ctx);
            if !ms.stdin {
                // the property's exactness clause
                let want = if would_rewrite { 1 } else { 0 };
                o.count(&format!("E:check-exit:{}", want));
                if code != Some(want) {
                    o.direct_failures.push(json!({"sig": "c06:check-exit", "what": format!("--check ended with {} but plain rustfmt {} rewrite a file ({})", ob.ran.status_word(), if would_rewrite { "would" } else { "would not" }, ctx)}));
                }
            } else {
                // F4 (known finding, probed separately): on stdin the status ignores the diff
                o.count(&format!("E:check-exit-stdin(not asserted, F4):{}", ob.ran.status_word()));
            }
            if ms.l {
                // a file that differs in terminators only is listed as `Incorrect newline style in <name>`
                let mut got: Vec<String> = out.lines().map(|s| s.strip_prefix("Incorrect newline style in ").unwrap_or(s).to_string()).collect();
                got.sort();
                let mut want: Vec<String> = if ms.stdin { if would_rewrite { vec!["<stdin>".into()] } else { vec![] } } else { changed_files.iter().map(|k| abs(k)).collect() };
                want.sort();
                if got != want {
                    o.direct_failures.push(json!({"sig": "c06:check-l-names", "what": format!("--check -l listed {:?}, the files plain rustfmt rewrites are {:?} ({})", got, want, ctx)}));
                }
            } else {
                // split the stream by file: every title names its file
                let mut rest: Vec<&str> = out.split_inclusive('\n').collect();
                for rel in &subjects {
                    let name = name_of(rel);
                    // the Diff emitter's other message: same lines, different terminators
                    let msg = format!("Incorrect newline style in {}\n", name);
                    if let Some(i) = rest.iter().position(|l| *l == msg) {
                        rest.remove(i);
                        let (orig, want) = (&t.files[rel], &refd[rel]);
                        o.count("E:check:newline-style-message");
                        if !(dlines_eq(orig, want) && orig != want) {
                            o.direct_failures.push(json!({"sig": "c06:check-newline-message", "what": format!("--check said `Incorrect newline style` for {} but the texts {} ({})", rel, if orig == want { "are equal" } else { "differ in more than terminators" }, ctx)}));
                        }
                        continue;
                    }
                    let title = format!("Diff in {}:", name);
                    let mine: String = {
                        let mut acc = String::new();
                        let mut taking = false;
                        let mut keep = vec![];
                        for l in rest.drain(..) {
                            if l.starts_with("Diff in ") {
                                taking = l.starts_with(&title);
                            }
                            if taking { acc.push_str(l) } else { keep.push(l) }
                        }
                        rest = keep;
                        acc
                    };
                    let (orig, want) = (&t.files[rel], &refd[rel]);
                    match parse_hunks(&mine, &name, false) {
                        Some(hs) => {
                            if hs.is_empty() != (orig == want) {
                                o.direct_failures.push(json!({"sig": "c06:check-diff-presence", "what": format!("--check printed {} hunks for {} although the text {} ({})", hs.len(), rel, if orig == want { "is unchanged" } else { "differs" }, ctx)}));
                            }
                            o.push("oracle", "diff.apply", format!("diff.apply {} {}", hunks_as_chunks(&hs), enc_list(&dlines(orig))), enc_list(&dlines(want)), format!("text implied by the --check hunks, file {} ({})", rel, ctx), !hs.is_empty());
                        }
                        None => o.direct_failures.push(json!({"sig": "c06:check-output-unparsable", "what": format!("cannot read the hunks printed for {} ({})", rel, ctx), "stdout": mine.chars().take(400).collect::<String>()})),
                    }
                }
                if !rest.is_empty() {
                    o.direct_failures.push(json!({"sig": "c06:check-output-unparsable", "what": format!("--check printed lines that belong to no file of the run ({})", ctx), "stdout": rest.concat().chars().take(400).collect::<String>()}));
                }
            }
        }
        Class::Files | Class::FilesBackup => {
            want_code_zero(o);
            let backup = ms.class == Class::FilesBackup;
            let mut expected_entries: Vec<String> = ob.before.keys().cloned().collect();
            for rel in t.files.keys() {
                let (orig, want) = (&t.files[rel], &refd[rel]);
                let (b, a) = (&ob.before[rel], ob.after.get(rel));
                let got = a.and_then(|s| s.bytes.clone()).map(|b| String::from_utf8_lossy(&b).into_owned()).unwrap_or_default();
                compare_text(o, if backup { "file written by --backup" } else { "file written by --emit files" }, &got, want, &format!("{} file={}", ctx, rel));
                if orig == want {
                    // touched only if the formatted text differs from what is on disk
                    if a != Some(b) {
                        o.direct_failures.push(json!({"sig": "c06:files-touched-unchanged-file", "what": format!("files mode changed mtime/inode/bytes of {} whose formatted text equals what is on disk ({})", rel, ctx)}));
                    } else {
                        o.count("E:files:unchanged-file-untouched");
                    }
                } else {
                    o.count("E:files:changed-file-rewritten");
                    if a.map(|s| s.mtime) == Some(b.mtime) {
                        o.direct_failures.push(json!({"sig": "c06:files-mtime", "what": format!("{} was rewritten but kept its modification time ({})", rel, ctx)}));
                    }
                    if backup {
                        let bk = PathBuf::from(rel).with_extension("bk").to_string_lossy().into_owned();
                        expected_entries.push(bk.clone());
                        if ob.after.get(&bk).and_then(|s| s.bytes.clone()) != Some(orig.as_bytes().to_vec()) {
                            o.direct_failures.push(json!({"sig": "c06:backup-missing", "what": format!("--backup rewrote {} but {} does not hold the original ({})", rel, bk, ctx)}));
                        }
                    }
                }
            }
            expected_entries.sort();
            let got_entries: Vec<String> = ob.after.keys().cloned().collect();
            if got_entries != expected_entries {
                o.direct_failures.push(json!({"sig": "c06:files-entries", "what": format!("directory entries after the run are {:?}, expected {:?} ({})", got_entries, expected_entries, ctx)}));
            }
            // -l lists the rewritten files (plain Files emitter only)
            let mut got: Vec<String> = out.lines().map(|s| s.to_string()).collect();
            got.sort();
            let mut want: Vec<String> = if ms.l && !backup { changed_files.iter().map(|k| abs(k)).collect() } else { vec![] };
            want.sort();
            if got != want {
                o.direct_failures.push(json!({"sig": "c06:files-l-names", "what": format!("files mode printed {:?}, expected {:?} ({})", got, want, ctx)}));
            }
        }
        Class::Stdout => {
            read_only_check(o, ob, &ctx);
            want_code_zero(o);
            let header = !ms.q && !ms.stdin;
            let mut pos = 0usize;
            let mut used = vec![false; subjects.len()];
            let mut ok = true;
            for _ in 0..subjects.len() {
                let mut hit = None;
                // longest match first
                let mut order: Vec<usize> = (0..subjects.len()).filter(|i| !used[*i]).collect();
                order.sort_by_key(|i| std::cmp::Reverse(refd[&subjects[*i]].len()));
                for i in order {
                    let piece = if header { format!("{}:\n\n{}", name_of(&subjects[i]), refd[&subjects[i]]) } else { refd[&subjects[i]].clone() };
                    if out[pos..].starts_with(&piece) {
                        hit = Some((i, piece.len()));
                        break;
                    }
                }
                match hit {
                    Some((i, n)) => {
                        used[i] = true;
                        pos += n;
                        o.count("E:text:--emit stdout / stdin:bytes-equal");
                    }
                    None => {
                        ok = false;
                        break;
                    }
                }
            }
            if !ok || pos != out.len() {
                if subjects.len() == 1 {
                    let got = if header { out.strip_prefix(&format!("{}:\n\n", name_of(&subjects[0]))).unwrap_or(&out).to_string() } else { out.clone() };
                    compare_text(o, if ms.stdin { "text produced on stdin" } else { "text of --emit stdout" }, &got, &refd[&subjects[0]], &ctx);
                } else {
                    o.direct_failures.push(json!({"sig": "c06:text-differs", "what": format!("--emit stdout is not the concatenation of the texts plain rustfmt writes to the files ({})", ctx), "stdout": out.chars().take(600).collect::<String>()}));
                }
            }
        }
        Class::Json => {
            read_only_check(o, ob, &ctx);
            want_code_zero(o);
            match parse_json(out.trim_end_matches('\n')) {
                Some(fs) => {
                    let by: BTreeMap<String, Vec<Block>> = fs.into_iter().collect();
                    for rel in &subjects {
                        let (orig, want) = (&t.files[rel], &refd[rel]);
                        let bs = by.get(&name_of(rel)).cloned().unwrap_or_default();
                        if by.contains_key(&name_of(rel)) != (orig != want) {
                            o.direct_failures.push(json!({"sig": "c06:json-presence", "what": format!("json report {} {} although its text {} ({})", if bs.is_empty() { "omits" } else { "lists" }, rel, if orig == want { "is unchanged" } else { "differs" }, ctx)}));
                        }
                        o.push("oracle", "diff.apply", format!("diff.apply {} {}", blocks_as_chunks(&bs), enc_list(&dlines(orig))), enc_list(&dlines(want)), format!("text implied by the json report, file {} ({})", rel, ctx), !bs.is_empty());
                        let (script, _, _, _) = enc_script(orig, want);
                        o.push("corr", "diff.json", format!("diff.json {}", script), enc_blocks(&bs), format!("json blocks of the binary vs the model on (original, reference text), file {} ({})", rel, ctx), !bs.is_empty());
                    }
                }
                None => o.direct_failures.push(json!({"sig": "c06:json-unparsable", "what": format!("json report not of the expected shape ({})", ctx), "stdout": out.chars().take(400).collect::<String>()})),
            }
        }
        Class::Checkstyle => {
            read_only_check(o, ob, &ctx);
            want_code_zero(o);
            match parse_checkstyle(&out) {
                Some(fs) => {
                    let by: BTreeMap<String, Vec<(u64, String)>> = fs.into_iter().collect();
                    for rel in &subjects {
                        let (orig, want) = (&t.files[rel], &refd[rel]);
                        let es = by.get(&name_of(rel)).cloned();
                        if es.is_none() {
                            o.direct_failures.push(json!({"sig": "c06:checkstyle-file-missing", "what": format!("checkstyle report has no <file> for {} ({})", rel, ctx)}));
                        }
                        let es = es.unwrap_or_default();
                        let (script, _, _, _) = enc_script(orig, want);
                        o.push("corr", "diff.checkstyle", format!("diff.checkstyle {}", script), enc_errors(&es), format!("checkstyle errors of the binary vs the model on (original, reference text), file {} ({})", rel, ctx), !es.is_empty());
                        // a checkstyle report lists only the lines to ADD: a change made of deletions alone has no
                        // <error>, so presence is checked in one direction only
                        if !es.is_empty() && orig == want {
                            o.direct_failures.push(json!({"sig": "c06:checkstyle-presence", "what": format!("checkstyle report has {} errors for {} although its text is unchanged ({})", es.len(), rel, ctx)}));
                        }
                        if es.is_empty() && orig != want {
                            o.count("E:checkstyle:text-differs-by-deletions-only(no <error> possible)");
                        }
                    }
                }
                None => o.direct_failures.push(json!({"sig": "c06:checkstyle-unparsable", "what": format!("checkstyle report not of the expected shape ({})", ctx), "stdout": out.chars().take(400).collect::<String>()})),
            }
        }
        Class::Modified => {
            read_only_check(o, ob, &ctx);
            want_code_zero(o);
            if t.files.len() == 1 {
                let rel = &subjects[0];
                let (orig, want) = (&t.files[rel], &refd[rel]);
                match ModifiedLines::from_str(&out) {
                    Ok(ml) => {
                        o.push("oracle", "diff.apply", format!("diff.apply {} {}", enc_chunks(&ml), enc_list(&dlines(orig))), enc_list(&dlines(want)), format!("text implied by the modified-lines report ({})", ctx), !ml.chunks.is_empty());
                    }
                    Err(()) => o.direct_failures.push(json!({"sig": "c06:modified-unparsable", "what": format!("modified-lines report does not parse ({})", ctx)})),
                }
            } else {
                o.count("E:modified-lines:multi-file(report carries no file names; only read-only and exit checked)");
            }
        }
        Class::DiffNoCheck => {
            read_only_check(o, ob, &ctx);
            want_code_zero(o);
            if out.is_empty() == would_rewrite {
                o.direct_failures.push(json!({"sig": "c06:check-diff-presence", "what": format!("the Diff emitter printed {} although plain rustfmt {} rewrite ({})", if out.is_empty() { "nothing" } else { "hunks" }, if would_rewrite { "would" } else { "would not" }, ctx)}));
            }
        }
        Class::Coverage => {
            read_only_check(o, ob, &ctx);
            want_code_zero(o);
        }
    }
}

fn make_trees(rng: &mut Rng, pool: &[Src], n_each: usize) -> Vec<Tree> {
    let mut ts = vec![];
    let pick = |rng: &mut Rng, unformatted: bool| -> String {
        let s = rng.pick(pool);
        if unformatted { s.orig.clone() } else { s.fmt.clone() }
    };
    for i in 0..n_each {
        // single file, formatted / unformatted
        for unf in [true, false] {
            let mut files = BTreeMap::new();
            files.insert("x.rs".to_string(), pick(rng, unf));
            ts.push(Tree { label: format!("single{}{}", i, if unf { "u" } else { "f" }), files, roots: vec!["x.rs".into()], config: None });
        }
        // several files on the command line
        let n = rng.range(2, 3);
        let mut files = BTreeMap::new();
        let mut roots = vec![];
        for k in 0..n {
            let name = format!("{}{}.rs", ["m", "a", "z"][k], k);
            let u = rng.chance(1, 2);
            files.insert(name.clone(), pick(rng, u));
            roots.push(name);
        }
        if rng.chance(1, 2) {
            roots.reverse();
        }
        ts.push(Tree { label: format!("multi{}", i), files, roots, config: None });
        // module tree: lib.rs -> a.rs, b/mod.rs -> b/c.rs
        let mut files = BTreeMap::new();
        let un: Vec<bool> = (0..4).map(|_| rng.chance(1, 2)).collect();
        let body = |rng: &mut Rng, u: bool| pick(rng, u);
        files.insert("lib.rs".to_string(), format!("{}{}", if un[0] { "mod a;mod   b;\n" } else { "mod a;\nmod b;\n" }, body(rng, un[0])));
        files.insert("a.rs".to_string(), body(rng, un[1]));
        files.insert("b/mod.rs".to_string(), format!("{}{}", if un[2] { "mod    c;\n" } else { "mod c;\n" }, body(rng, un[2])));
        files.insert("b/c.rs".to_string(), body(rng, un[3]));
        ts.push(Tree { label: format!("modtree{}", i), files, roots: vec!["lib.rs".into()], config: None });
        // texts that differ from the formatted text in line terminators only (or also in layout),
        // with the newline style fixed by the configuration: the Diff emitter's newline-style branch
        for (k, (style, to_crlf)) in [("Unix", true), ("Windows", false)].iter().enumerate() {
            let unf = rng.chance(1, 3);
            let text = pick(rng, unf);
            let text = if *to_crlf { text.replace('\n', "\r\n") } else { text };
            let mut files = BTreeMap::new();
            files.insert("x.rs".to_string(), text);
            ts.push(Tree { label: format!("newline{}{}{}", i, k, if unf { "u" } else { "f" }), files, roots: vec!["x.rs".into()], config: Some(format!("newline_style = \"{}\"\n", style)) });
        }
    }
    ts
}

fn part_e(o: &mut Outcome, rng: &mut Rng, thorough: bool, plain: &Path, scratch: &Path, pool: &[Src]) {
    let trees0 = make_trees(rng, pool, if thorough { 40 } else { 3 });
    // "formatted" versions of whole trees: the reference result itself is a second tree
    let refs: Vec<Option<BTreeMap<String, String>>> = par_map(&trees0.iter().enumerate().collect::<Vec<_>>(), |(i, t)| reference(plain, scratch, &format!("ref_t{}", i), t));
    let mut trees: Vec<(Tree, BTreeMap<String, String>)> = vec![];
    let mut formatted_versions: Vec<Tree> = vec![];
    for (t, r) in trees0.into_iter().zip(refs) {
        match r {
            Some(r) => {
                if t.label.starts_with("modtree") || t.label.starts_with("multi") {
                    formatted_versions.push(Tree { label: format!("{}-formatted", t.label), files: r.clone(), roots: t.roots.clone(), config: t.config.clone() });
                }
                trees.push((t, r));
            }
            None => o.count("E:tree-skipped(reference run reported something)"),
        }
    }
    let refs2: Vec<Option<BTreeMap<String, String>>> = par_map(&formatted_versions.iter().enumerate().collect::<Vec<_>>(), |(i, t)| reference(plain, scratch, &format!("ref_f{}", i), t));
    for (t, r) in formatted_versions.into_iter().zip(refs2) {
        if let Some(r) = r {
            trees.push((t, r));
        }
    }
    o.count_n("E:trees", trees.len() as u64);
    // jobs
    let mut jobs: Vec<(usize, &ModeSpec)> = vec![];
    for (ti, (t, _)) in trees.iter().enumerate() {
        for ms in PATH_MODES {
            // F22 (known finding, probed separately): json / checkstyle / modified-lines do not see terminators
            if t.config.is_some() && matches!(ms.class, Class::Json | Class::Checkstyle | Class::Modified) {
                continue;
            }
            jobs.push((ti, ms));
        }
        if t.files.len() == 1 && t.config.is_none() {
            for ms in STDIN_MODES {
                jobs.push((ti, ms));
            }
        }
    }
    o.count_n("E:runs", jobs.len() as u64);
    let indexed: Vec<(usize, &(usize, &ModeSpec))> = jobs.iter().enumerate().collect();
    let obs: Vec<ModeObs> = par_map(&indexed, |(j, (ti, ms))| run_mode(plain, scratch, &format!("m{}", j), &trees[*ti].0, ms));
    for ((ti, ms), ob) in jobs.iter().zip(&obs) {
        let (t, r) = &trees[*ti];
        evaluate_mode(o, t, r, ms, ob);
    }
    o.direct_evals += jobs.len() as u64;
    o.direct_distinct += jobs.len() as u64;

    // F. histories
    let hist: Vec<(String, Vec<(i32, bool)>)> = par_map(&trees.iter().enumerate().collect::<Vec<_>>(), |(i, (t, _))| {
        let mut steps = vec![];
        for (h, seq) in [("cfc", vec!["check", "format", "check"]), ("fc", vec!["format", "check"])] {
            let d = cli::fresh_dir(scratch, &format!("hist{}{}", i, h));
            materialize(&d, t);
            for (si, step) in seq.iter().enumerate() {
                if *step == "check" {
                    // ground truth at this point of the history: would plain rustfmt rewrite a copy?
                    let now = Tree { label: t.label.clone(), roots: t.roots.clone(), config: t.config.clone(), files: t.files.keys().map(|k| (k.clone(), std::fs::read_to_string(d.join(k)).unwrap_or_default())).collect() };
                    let truth = reference(plain, scratch, &format!("hist{}{}r{}", i, h, si), &now).map(|r| r != now.files);
                    let mut a = vec!["--check".to_string()];
                    a.extend(t.roots.iter().cloned());
                    let r = cli::rustfmt(plain, &d, &a);
                    if let (Some(c), Some(tr)) = (r.code, truth) {
                        steps.push((c, tr));
                    }
                } else {
                    let r = cli::rustfmt(plain, &d, &t.roots);
                    if r.code != Some(0) {
                        break;
                    }
                }
            }
            let _ = std::fs::remove_dir_all(&d);
        }
        (t.label.clone(), steps)
    });
    for (label, steps) in hist {
        for (k, (code, truth)) in steps.iter().enumerate() {
            o.direct_evals += 1;
            o.count(&format!("F:history-check#{}:exit{}", k, code));
            if *code != (*truth as i32) {
                o.direct_failures.push(json!({"sig": "c06:check-exit-history", "what": format!("in a check/format history of tree {} check #{} ended with exit {} but plain rustfmt {} rewrite a file at that point", label, k, code, if *truth { "would" } else { "would not" })}));
            }
        }
    }
}

// ------------------------------------------------------------------------------------------------
// G: known findings

fn part_g(o: &mut Outcome, plain: &Path, scratch: &Path) {
    let unf = "fn main(){let x=1;}\nfn g() {}\n";
    {
        let d = cli::fresh_dir(scratch, "probe_f4");
        let r = cli::rustfmt_stdin(plain, &d, &["--check"], unf.as_bytes());
        let fails = r.code == Some(0) && r.out_str().starts_with("Diff in <stdin>");
        o.probes.push(json!({"id": "F4", "fails": fails, "what": "rustfmt --check on standard input prints a diff and exits 0", "detail": format!("{}; stdout starts: {:?}", r.status_word(), r.out_str().chars().take(60).collect::<String>())}));
    }
    {
        let d = cli::fresh_dir(scratch, "probe_f21");
        std::fs::write(d.join("a.rs"), unf).unwrap();
        let r = cli::rustfmt(plain, &d, &["--check", "--config", "emit_mode=files", "a.rs"]);
        let now = std::fs::read_to_string(d.join("a.rs")).unwrap_or_default();
        let fails = now != unf;
        o.probes.push(json!({"id": "F21", "fails": fails, "what": "rustfmt --check --config emit_mode=files a.rs rewrites a.rs (check mode is not read-only) and exits 0", "detail": format!("{}; file rewritten: {}", r.status_word(), fails)}));
    }
    {
        let d = cli::fresh_dir(scratch, "probe_f22");
        let crlf = "fn main() {\r\n    let x = 1;\r\n}\r\n";
        std::fs::write(d.join("w.rs"), crlf).unwrap();
        std::fs::write(d.join("ref.rs"), crlf).unwrap();
        let rr = cli::rustfmt(plain, &d, &["--config", "newline_style=Unix", "ref.rs"]);
        let rewritten = std::fs::read_to_string(d.join("ref.rs")).unwrap_or_default() != crlf;
        let j = cli::rustfmt(plain, &d, &["--config", "newline_style=Unix", "--emit", "json", "w.rs"]);
        let c = cli::rustfmt(plain, &d, &["--config", "newline_style=Unix", "--emit", "checkstyle", "w.rs"]);
        let ml = cli::rustfmt(plain, &d, &["--config", "newline_style=Unix,emit_mode=ModifiedLines", "w.rs"]);
        let k = cli::rustfmt(plain, &d, &["--config", "newline_style=Unix", "--check", "w.rs"]);
        let json_silent = j.out_str().trim() == "[]";
        let cs_silent = parse_checkstyle(&c.out_str()).map(|f| f.iter().all(|(_, e)| e.is_empty())).unwrap_or(false);
        let ml_silent = ml.stdout.is_empty();
        let fails = rewritten && rr.code == Some(0) && (json_silent || cs_silent || ml_silent);
        o.probes.push(json!({"id": "F22", "fails": fails, "what": "CRLF file under newline_style=Unix: files mode rewrites it and --check exits 1, but the json / checkstyle / modified-lines reports say nothing differs (they compare str::lines; only the Diff emitter has the newline-style branch)", "detail": format!("files mode rewrote: {}; --check: {}; json silent: {}; checkstyle silent: {}; modified-lines silent: {}", rewritten, k.status_word(), json_silent, cs_silent, ml_silent)}));
    }
}

// ------------------------------------------------------------------------------------------------

pub fn run(tier: &str, seed: u64, out: &Path) -> i32 {
    let mut o = Outcome::new("C06", tier, seed);
    let thorough = tier == "thorough";
    let mut rng = Rng::new(seed ^ 0xc06);
    std::fs::create_dir_all(out).ok();
    let scratch: PathBuf = std::fs::canonicalize(out).unwrap_or_else(|_| out.to_path_buf()).join("scratch");
    let _ = std::fs::remove_dir_all(&scratch);
    std::fs::create_dir_all(&scratch).unwrap();
    let plain = cli::build_rustfmt(false).unwrap_or_else(|e| panic!("{}", e));
    let ans = run_model(&["bk.ops files".to_string(), "bk.ops filesWithBackup".to_string()], 1);
    if ans.iter().any(|a| a.starts_with('?') || a.starts_with('!')) {
        panic!("model driver does not answer bk.ops: {:?}", ans);
    }
    let gen = Gen { files: ans[0].clone(), backup: ans[1].clone() };
    let pool = cli::sources(&mut rng, if thorough { 60 } else { 12 }, 0, 2500, &plain, &scratch);
    if pool.len() < 4 {
        panic!("could not build the source pool ({})", pool.len());
    }
    o.count_n("sources", pool.len() as u64);

    // A, B
    let d = cli::fresh_dir(&scratch, "inproc");
    part_a(&mut o, &d);
    let ts = small_texts();
    o.count_n("B:small-texts", ts.len() as u64);
    for a in &ts {
        for b in &ts {
            pair_run(&mut o, &d, &gen, a, b, "small");
        }
    }
    for s in pool.iter().take(if thorough { 60 } else { 6 }) {
        pair_run(&mut o, &d, &gen, &s.orig, &s.fmt, &format!("real {}", s.name));
        pair_run(&mut o, &d, &gen, &s.fmt, &s.fmt, &format!("real-formatted {}", s.name));
        // CRLF original against the LF text (what newline_style=Unix does to a CRLF file)
        pair_run(&mut o, &d, &gen, &s.fmt.replace('\n', "\r\n"), &s.fmt, &format!("real-crlf {}", s.name));
    }
    // C
    part_c(&mut o, &plain, &scratch, &pool);
    // D
    part_d(&mut o, &mut rng, thorough, &plain, &scratch, &pool, &gen);
    // E, F
    part_e(&mut o, &mut rng, thorough, &plain, &scratch, &pool);
    // G
    part_g(&mut o, &plain, &scratch);
    let _ = std::fs::remove_dir_all(&scratch);
    o.notes.push("non-trivial: emit.run / emit.e2e = original and formatted text differ; emit.exit = at least one session flag set; diff.apply / diff.json / diff.checkstyle = the report is not empty; matrix runs (part E) count one evaluation per (tree, mode) run".into());
    o.notes.push("nightly = 1 in every emit.cfg / emit.e2e request: the binary is built on the dev channel; the stable-channel branch of from_matches (unstableEmit) is not exercised".into());
    o.finish(out, jobs())
}
