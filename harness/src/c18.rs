//! C18: `cargo fmt` formats the right targets with the right editions.
//! Hook-free: the real `cargo-fmt` binary (built from /repo's working tree) is run in generated
//! workspaces with `RUSTFMT` pointing at a recording stand-in (`tools/rustfmt_standin.sh`).
//! (a) correspondence: the recorded argument vectors and the exit status against the Lean model
//!     (`cf.execute`, `cf.targets`, `cf.exit`, `cf.msgfmt`), the model being fed with the REAL
//!     `cargo metadata --no-deps` answers and the real `canonicalize` results;
//! (b) an oracle that does not use the model: from the generated workspace description the harness
//!     knows which packages are selected and every target's root file and edition.
//! Generated part in `c18gen.rs`.
use std::collections::{BTreeMap, BTreeSet, HashMap};
use std::path::{Path, PathBuf};
use std::process::Command;
use std::time::Duration;

use serde_json::{json, Value};

use crate::c18gen::*;
use crate::util::*;

// ------------------------------------------------------------------------------------------------
// running things

fn verif_dir() -> PathBuf {
    let cwd = std::env::current_dir().unwrap_or_else(|_| PathBuf::from("/verif"));
    if cwd.join("tools/rustfmt_standin.sh").exists() { cwd } else { PathBuf::from("/verif") }
}

fn cargo_fmt_bin() -> PathBuf {
    std::env::var_os("CARGO_FMT_BIN").map(PathBuf::from).unwrap_or_else(|| verif_dir().join(".build/repo-target/debug/cargo-fmt"))
}

fn standin() -> PathBuf {
    verif_dir().join("tools/rustfmt_standin.sh")
}

const TIMEOUT: &str = "<harness: cargo metadata timed out>";

/// `cargo metadata --no-deps --format-version 1 [--manifest-path m] --offline` run in `cwd`.
fn cargo_metadata(cwd: &Path, manifest: Option<&str>) -> Result<Value, String> {
    let mut cmd = Command::new("cargo");
    cmd.current_dir(cwd).args(["metadata", "--format-version", "1", "--no-deps"]);
    if let Some(m) = manifest {
        cmd.arg("--manifest-path").arg(m);
    }
    cmd.arg("--offline");
    let r = run_cmd(&mut cmd, b"", Duration::from_secs(60));
    if r.timed_out {
        return Err(TIMEOUT.into());
    }
    if r.code == Some(0) {
        serde_json::from_slice(&r.stdout).map_err(|e| format!("json: {}", e))
    } else {
        Err(r.stderr.lines().next().unwrap_or("").to_string())
    }
}

#[derive(Default)]
pub struct MetaCache(HashMap<(String, String), Result<Value, String>>);

impl MetaCache {
    fn get(&mut self, cwd: &Path, manifest: Option<&str>) -> Result<Value, String> {
        // an absolute manifest path makes the answer independent of the working directory
        let key = match manifest {
            Some(m) if m.starts_with('/') => (String::new(), m.to_string()),
            Some(m) => (cwd.to_string_lossy().into_owned(), m.to_string()),
            None => (cwd.to_string_lossy().into_owned(), String::new()),
        };
        if let Some(v) = self.0.get(&key) {
            return v.clone();
        }
        let v = cargo_metadata(cwd, manifest);
        self.0.insert(key, v.clone());
        v
    }
}

/// The universe the driver expects (see the header of RF/Driver/CargoFmt.lean): the answer for the
/// manifest the run starts from, the answers for every `<dependency.path>/Cargo.toml` that exists,
/// transitively, and a canonicalisation table for every path an answer mentions.
pub struct World {
    pub tokens: String,
    pub answers: Vec<(Option<String>, Result<Value, String>)>,
}

fn enc_opt(s: Option<&str>) -> String {
    match s {
        None => "none".into(),
        Some(s) => enc_str(s),
    }
}

pub fn build_world(cache: &mut MetaCache, cwd: &Path, manifest: Option<&str>) -> World {
    let mut answers: Vec<(Option<String>, Result<Value, String>)> = vec![];
    let mut seen: BTreeSet<String> = BTreeSet::new();
    let mut queue: Vec<usize> = vec![];
    answers.push((manifest.map(|s| s.to_string()), cache.get(cwd, manifest)));
    queue.push(0);
    while let Some(i) = queue.pop() {
        let mut next = vec![];
        if let Ok(md) = &answers[i].1 {
            for p in md["packages"].as_array().cloned().unwrap_or_default() {
                for d in p["dependencies"].as_array().cloned().unwrap_or_default() {
                    if let Some(path) = d["path"].as_str() {
                        let m = PathBuf::from(path).join("Cargo.toml");
                        let ms = m.to_string_lossy().into_owned();
                        if m.exists() && seen.insert(ms.clone()) {
                            next.push(ms);
                        }
                    }
                }
            }
        }
        for ms in next {
            let a = cache.get(cwd, Some(&ms));
            answers.push((Some(ms), a));
            queue.push(answers.len() - 1);
        }
    }
    // tokens
    let mut toks: Vec<String> = vec![];
    let mut paths: Vec<String> = vec![];
    if let Some(m) = manifest {
        paths.push(m.to_string());
    }
    paths.push(cwd.to_string_lossy().into_owned());
    for (m, a) in &answers {
        match a {
            Err(_) => toks.push(format!("M:{}:err", enc_opt(m.as_deref()))),
            Ok(md) => {
                let root = md["workspace_root"].as_str().unwrap_or("");
                paths.push(root.to_string());
                toks.push(format!("M:{}:ok:{}", enc_opt(m.as_deref()), enc_str(root)));
                for p in md["packages"].as_array().cloned().unwrap_or_default() {
                    let mp = p["manifest_path"].as_str().unwrap_or("");
                    paths.push(mp.to_string());
                    toks.push(format!("P:{}:{}", enc_str(p["name"].as_str().unwrap_or("")), enc_str(mp)));
                    for t in p["targets"].as_array().cloned().unwrap_or_default() {
                        let src = t["src_path"].as_str().unwrap_or("");
                        paths.push(src.to_string());
                        let kinds: Vec<String> = t["kind"].as_array().cloned().unwrap_or_default().iter().map(|k| k.as_str().unwrap_or("").to_string()).collect();
                        toks.push(format!("T:{}:{}:{}", enc_str(src), enc_list(&kinds), t["edition"].as_str().unwrap_or("?")));
                    }
                    for d in p["dependencies"].as_array().cloned().unwrap_or_default() {
                        let n = enc_str(d["name"].as_str().unwrap_or(""));
                        match d["path"].as_str() {
                            Some(path) => toks.push(format!("D:{}:{}", n, enc_str(path))),
                            None => toks.push(format!("D:{}", n)),
                        }
                    }
                }
            }
        }
    }
    let mut done = BTreeSet::new();
    for p in paths {
        if !done.insert(p.clone()) {
            continue;
        }
        let abs = if p.starts_with('/') { PathBuf::from(&p) } else { cwd.join(&p) };
        match std::fs::canonicalize(&abs) {
            Ok(c) => {
                let cs = c.to_string_lossy().into_owned();
                if cs != p {
                    toks.push(format!("L:{}:{}", enc_str(&p), enc_str(&cs)));
                }
            }
            Err(_) => toks.push(format!("X:{}", enc_str(&p))),
        }
    }
    World { tokens: if toks.is_empty() { "_".into() } else { toks.join(";") }, answers }
}

/// The records the stand-in wrote: one argument vector per call.
fn parse_log(bytes: &[u8]) -> Option<Vec<Vec<String>>> {
    let mut res = vec![];
    let mut i = 0;
    let line = |i: &mut usize| -> Option<String> {
        let j = bytes[*i..].iter().position(|&b| b == b'\n')? + *i;
        let s = String::from_utf8_lossy(&bytes[*i..j]).into_owned();
        *i = j + 1;
        Some(s)
    };
    while i < bytes.len() {
        let h = line(&mut i)?;
        let n: usize = h.strip_prefix("argc ")?.parse().ok()?;
        let mut argv = vec![];
        for _ in 0..n {
            let len: usize = line(&mut i)?.parse().ok()?;
            if i + len + 1 > bytes.len() {
                return None;
            }
            argv.push(String::from_utf8_lossy(&bytes[i..i + len]).into_owned());
            i += len + 1;
        }
        res.push(argv);
    }
    Some(res)
}

#[derive(Clone, Debug, PartialEq)]
pub enum St {
    Code(u8),
    Kill,
}

pub struct Observed {
    pub exit: Option<i32>,
    pub records: Vec<Vec<String>>,
    pub stdout: String,
    pub stderr: String,
    pub timed_out: bool,
}

/// Runs `cargo-fmt <argv>` in `cwd`; the k-th rustfmt it starts ends with `statuses[k]`.
/// `missing` = RUSTFMT names a file that does not exist (every spawn fails).
pub fn run_cargo_fmt(scratch: &Path, tag: &str, cwd: &Path, argv: &[String], statuses: &[St], missing: bool) -> Observed {
    let log = scratch.join(format!("{}.log", tag));
    let stf = scratch.join(format!("{}.st", tag));
    let _ = std::fs::remove_file(&log);
    let _ = std::fs::remove_file(scratch.join(format!("{}.log.n", tag)));
    let sttext: String = statuses.iter().map(|s| match s { St::Code(c) => format!("{}\n", c), St::Kill => "kill\n".to_string() }).collect();
    std::fs::write(&stf, sttext).unwrap();
    let mut cmd = Command::new(cargo_fmt_bin());
    cmd.current_dir(cwd).args(argv);
    if missing {
        cmd.env("RUSTFMT", scratch.join("no-such-rustfmt"));
    } else {
        cmd.env("RUSTFMT", standin());
    }
    cmd.env("RF_STANDIN_LOG", &log).env("RF_STANDIN_STATUS", &stf);
    let r = run_cmd(&mut cmd, b"", Duration::from_secs(60));
    let bytes = std::fs::read(&log).unwrap_or_default();
    let records = parse_log(&bytes).unwrap_or_else(|| vec![vec!["<unparsable stand-in log>".into()]]);
    Observed { exit: r.code, records, stdout: String::from_utf8_lossy(&r.stdout).into_owned(), stderr: r.stderr, timed_out: r.timed_out }
}

fn enc_argvs(a: &[Vec<String>]) -> String {
    if a.is_empty() { "_".into() } else { a.iter().map(|v| enc_list(v)).collect::<Vec<_>>().join(";") }
}

fn enc_statuses(s: &[St]) -> String {
    if s.is_empty() {
        return "_".into();
    }
    s.iter().map(|x| match x { St::Code(c) => format!("c{}", c), St::Kill => "sig".to_string() }).collect::<Vec<_>>().join(",")
}

/// What `get_targets` ended with, read off the process: `-v` prints the set, an error prints its message.
fn observed_targets(ob: &Observed, verbose: bool) -> Option<String> {
    let first = ob.stderr.lines().next().unwrap_or("");
    if ob.exit == Some(1) && ob.records.is_empty() {
        if first == "Failed to find targets" {
            return Some("err:notargets".into());
        }
        if let Some(r) = first.strip_prefix("package `") {
            if let Some(n) = r.strip_suffix("` is not a member of the workspace") {
                return Some(format!("err:notmember:{}", enc_str(n)));
            }
        }
        if first.contains("`cargo metadata` exited with an error") {
            return Some("err:metadata".into());
        }
        if first.contains("(os error") {
            return Some("err:io".into());
        }
        return None;
    }
    if verbose && !ob.records.is_empty() {
        let mut ts = vec![];
        for l in ob.stdout.lines() {
            // `[{kind} ({edition})] {path:?}`
            if let Some(r) = l.strip_prefix('[') {
                let (head, path) = r.split_once("] \"")?;
                let path = path.strip_suffix('"')?;
                let (kind, ed) = head.rsplit_once(" (")?;
                let ed = ed.strip_suffix(')')?;
                ts.push(format!("{}@{}@{}", enc_str(path), ed, enc_str(kind)));
            }
        }
        // (no such line: an information flag was forwarded, `get_targets` did not run)
        return if ts.is_empty() { None } else { Some(ts.join(",")) };
    }
    None
}

// ------------------------------------------------------------------------------------------------
// the oracle that does not use the model

/// What the property demands of one run, computed from the generated description alone.
pub enum Expect {
    /// an error before anything is formatted: non-zero exit, no rustfmt started
    Error(&'static str),
    /// one rustfmt, given exactly these arguments, nothing formatted (`--version`, `-- --help` …)
    Info(Vec<String>),
    /// canonical root file -> editions declared for it by the selected targets
    Format(BTreeMap<String, BTreeSet<String>>),
    /// the property does not say (flag conflicts of --message-format)
    Unspecified,
}

pub fn is_info_flag(s: &str) -> bool {
    ["--print-config", "-h", "--help", "-V", "--version"].contains(&s) || s.starts_with("--help=") || s.starts_with("--print-config=")
}

fn canon(p: &Path) -> String {
    std::fs::canonicalize(p).unwrap_or_else(|_| p.to_path_buf()).to_string_lossy().into_owned()
}

fn files_of(u: &Uni, pkgs: &BTreeSet<usize>) -> BTreeMap<String, BTreeSet<String>> {
    let mut m: BTreeMap<String, BTreeSet<String>> = BTreeMap::new();
    for &i in pkgs {
        let p = &u.pkgs[i];
        for t in &p.tgts {
            let f = canon(&p.dir.join(&t.rel));
            m.entry(f).or_default().insert(t.edition.or(p.edition).unwrap_or("2015").to_string());
        }
    }
    m
}

/// members + local path dependencies, transitively (a dependency counts when its directory has a manifest)
fn closure(u: &Uni, start: &[usize]) -> Result<BTreeSet<usize>, &'static str> {
    let mut set: BTreeSet<usize> = start.iter().cloned().collect();
    let mut todo: Vec<usize> = start.to_vec();
    while let Some(i) = todo.pop() {
        for d in &u.pkgs[i].deps {
            if let DepTo::Pkg(j) = d.to {
                if u.pkgs[j].broken {
                    return Err("unusable-dependency-manifest");
                }
                if set.insert(j) {
                    todo.push(j);
                }
            }
        }
    }
    Ok(set)
}

pub fn expectation(u: &Uni, r: &RunSpec) -> Expect {
    if r.quiet && r.verbose {
        return Expect::Error("quiet-and-verbose");
    }
    if r.version {
        return Expect::Info(vec!["--version".into()]);
    }
    if r.pass.iter().any(|s| is_info_flag(s)) {
        return Expect::Info(r.pass.clone());
    }
    if let Some(f) = &r.msgfmt {
        if !["short", "json", "human"].contains(&f.as_str()) {
            return Expect::Error("message-format-value");
        }
        if f == "json" && (r.check || r.pass.iter().any(|a| a == "--check" || a.starts_with("--emit"))) {
            return Expect::Unspecified;
        }
    }
    // the workspace the run starts from
    let scope: Vec<usize>; // packages `cargo metadata` lists for the starting manifest
    let mut current: Option<usize> = None; // the package the manifest / directory denotes
    match &r.manifest {
        Some(m) => {
            if !m.text.ends_with("Cargo.toml") {
                return Expect::Error("manifest-path-not-cargo-toml");
            }
            match m.of {
                ManifestOf::Missing => return Expect::Error("manifest-missing"),
                ManifestOf::WsRoot => {
                    scope = u.members.clone();
                    if !u.virt {
                        current = Some(u.members[0]);
                    }
                }
                ManifestOf::Pkg(i) => {
                    if u.pkgs[i].role == Role::Member {
                        scope = u.members.clone();
                    } else {
                        scope = vec![i];
                    }
                    current = Some(i);
                }
            }
        }
        None => {
            scope = u.members.clone();
            match r.cwd_of {
                CwdOf::WsRoot => current = None, // all members (see below)
                CwdOf::PkgDir(i) | CwdOf::Below(i) => current = Some(i),
            }
        }
    }
    if scope.iter().any(|&i| u.pkgs[i].broken) {
        return Expect::Error("unusable-manifest");
    }
    let selected: BTreeSet<usize> = match &r.sel {
        Sel::All => match closure(u, &scope) {
            Ok(s) => s,
            Err(e) => return Expect::Error(e),
        },
        Sel::Pkgs(names) => {
            let mut s = BTreeSet::new();
            for n in names {
                match scope.iter().find(|&&i| &u.pkgs[i].name == n) {
                    Some(&i) => {
                        s.insert(i);
                    }
                    None => return Expect::Error("unknown-package"),
                }
            }
            s
        }
        Sel::Root => {
            if scope.len() == 1 {
                scope.iter().cloned().collect()
            } else {
                match current {
                    Some(i) => [i].into_iter().collect(),
                    // at the root of the workspace the "current package" is every member
                    // (RF.Props.C18.root_is_current_package states the same reading)
                    None => scope.iter().cloned().collect(),
                }
            }
        }
    };
    Expect::Format(files_of(u, &selected))
}

/// Splits a record into (files, edition, rest).
fn split_record(rec: &[String]) -> Option<(Vec<String>, String, Vec<String>)> {
    let k = rec.iter().position(|a| a == "--edition")?;
    let e = rec.get(k + 1)?.clone();
    Some((rec[..k].to_vec(), e, rec[k + 2..].to_vec()))
}

/// Evaluates the model-free oracle; returns (signature, explanation) of the first violations.
pub fn judge(u: &Uni, r: &RunSpec, ob: &Observed, missing: bool) -> Vec<(String, String)> {
    let mut bad: Vec<(String, String)> = vec![];
    let exit = ob.exit.unwrap_or(-1);
    match expectation(u, r) {
        Expect::Unspecified => {}
        Expect::Error(why) => {
            if !ob.records.is_empty() {
                bad.push(("c18:rustfmt-started-before-error".into(), format!("{}: rustfmt was started {} time(s) although the command line is in error", why, ob.records.len())));
            }
            if exit == 0 {
                bad.push(("c18:error-exits-zero".into(), format!("{}: exit status 0", why)));
            }
        }
        Expect::Info(args) => {
            if missing {
                if exit == 0 {
                    bad.push(("c18:exit-status".into(), "rustfmt could not be started, exit status 0".into()));
                }
            } else {
                if ob.records != vec![args.clone()] {
                    bad.push(("c18:info-flag-not-forwarded".into(), format!("expected a single rustfmt {:?}, saw {:?}", args, ob.records)));
                }
                let st = r.statuses.first().cloned().unwrap_or(St::Code(0));
                if st != St::Kill && (exit != 0) != (st != St::Code(0)) {
                    bad.push(("c18:exit-status".into(), format!("rustfmt ended with {:?}, cargo fmt with {}", st, exit)));
                }
            }
        }
        Expect::Format(files) => {
            if missing {
                if exit == 0 {
                    bad.push(("c18:exit-status".into(), "rustfmt could not be started, exit status 0".into()));
                }
                return bad;
            }
            let mut seen: BTreeMap<String, usize> = BTreeMap::new();
            // the arguments every invocation must carry after `--edition e`
            for rec in &ob.records {
                let Some((fs, e, rest)) = split_record(rec) else {
                    bad.push(("c18:args-shape".into(), format!("no --edition in {:?}", rec)));
                    continue;
                };
                if fs.is_empty() {
                    bad.push(("c18:args-shape".into(), format!("an invocation without files: {:?}", rec)));
                }
                for f in fs {
                    *seen.entry(f.clone()).or_insert(0) += 1;
                    match files.get(&f) {
                        None => bad.push(("c18:file-extra".into(), format!("{} is not a root file of a selected package", f))),
                        Some(eds) => {
                            if !eds.contains(&e) {
                                bad.push(("c18:wrong-edition".into(), format!("{} passed with --edition {}, declared {:?}", f, e, eds)));
                            }
                        }
                    }
                }
                if rest.len() < r.pass.len() || rest[..r.pass.len()] != r.pass[..] {
                    bad.push(("c18:args-passthrough".into(), format!("arguments after `--` {:?} not passed first and unchanged: {:?}", r.pass, rest)));
                }
                let want_check = r.check || r.pass.iter().any(|a| a == "--check");
                let n_check = rest.iter().filter(|a| *a == "--check").count();
                let n_pass = r.pass.iter().filter(|a| *a == "--check").count();
                if want_check != (n_check > 0) || n_check != n_pass.max(want_check as usize) {
                    bad.push(("c18:args-check".into(), format!("--check requested={} but arguments are {:?}", want_check, rest)));
                }
                match r.msgfmt.as_deref() {
                    Some("short") => {
                        if !rest.iter().any(|a| a == "-l" || a == "--files-with-diff") {
                            bad.push(("c18:args-message-format".into(), format!("--message-format short without -l: {:?}", rest)));
                        }
                    }
                    Some("json") => {
                        if !rest.ends_with(&["--emit".to_string(), "json".to_string()]) {
                            bad.push(("c18:args-message-format".into(), format!("--message-format json without --emit json: {:?}", rest)));
                        }
                    }
                    _ => {
                        let extra: Vec<&String> = rest[r.pass.len().min(rest.len())..].iter().filter(|a| *a != "--check").collect();
                        if !extra.is_empty() {
                            bad.push(("c18:args-extra".into(), format!("arguments nobody asked for: {:?}", extra)));
                        }
                    }
                }
            }
            for (f, n) in &seen {
                if *n > 1 {
                    bad.push(("c18:file-twice".into(), format!("{} passed {} times", f, n)));
                }
            }
            for f in files.keys() {
                if !seen.contains_key(f) {
                    bad.push(("c18:file-missing".into(), format!("{} is a root file of a selected package and was not passed to rustfmt", f)));
                }
            }
            // exit status: non-zero exactly when some invocation failed
            let used: Vec<St> = (0..ob.records.len()).map(|k| r.statuses.get(k).cloned().unwrap_or(St::Code(0))).collect();
            let failed = used.iter().any(|s| *s != St::Code(0));
            if (exit != 0) != failed {
                bad.push(("c18:exit-status".into(), format!("rustfmt statuses {:?}, cargo fmt exit {}", used, exit)));
            }
        }
    }
    bad
}

// ------------------------------------------------------------------------------------------------
// one run: real binary, model requests, oracle

#[derive(Default)]
pub struct Res {
    pub cases: Vec<Case>,
    pub failures: Vec<Value>,
    pub counts: BTreeMap<String, u64>,
    pub samples: Vec<Value>,
}

impl Res {
    fn count(&mut self, k: &str) {
        *self.counts.entry(k.to_string()).or_insert(0) += 1;
    }
    fn push(&mut self, kind: &'static str, op: &str, request: String, expect: String, desc: String, nontrivial: bool) {
        self.cases.push(Case { kind, op: op.to_string(), request, expect, desc, nontrivial });
    }
}

fn strategy_text(r: &RunSpec) -> String {
    match &r.sel {
        Sel::All => "all".into(),
        Sel::Root => "root".into(),
        Sel::Pkgs(n) => format!("some:{}", enc_list(n)),
    }
}

fn opts_text(r: &RunSpec) -> String {
    let b = |x: bool| if x { '1' } else { '0' };
    let all = r.sel == Sel::All;
    let pk: Vec<String> = if all { r.also_packages.clone() } else if let Sel::Pkgs(n) = &r.sel { n.clone() } else { vec![] };
    format!(
        "{}{}{}{}{}:{}:{}:{}:{}",
        b(r.quiet), b(r.verbose), b(r.version), b(all), b(r.check),
        enc_list(&pk),
        enc_opt(r.manifest.as_ref().map(|m| m.text.as_str())),
        enc_opt(r.msgfmt.as_deref()),
        enc_list(&r.pass)
    )
}

/// Returns the oracle's verdicts (for probes) after recording everything in `res`.
pub fn do_run(u: &Uni, r: &RunSpec, cache: &mut MetaCache, scratch: &Path, tag: &str, res: &mut Res, with_spawn_failure: bool) -> (Vec<(String, String)>, Observed) {
    let ob = run_cargo_fmt(scratch, tag, &r.cwd, &r.argv, &r.statuses, false);
    let desc = format!("{} | cwd={} | cargo-fmt {}", u.desc, r.cwd.display(), r.argv.join(" "));
    if ob.timed_out || ob.exit.is_none() {
        res.count("run:timeout-or-killed");
        return (vec![], ob);
    }
    let exit = ob.exit.unwrap();
    let early = r.manifest.as_ref().map_or(false, |m| !m.text.ends_with("Cargo.toml"));
    let world = build_world(cache, &r.cwd, if early { None } else { r.manifest.as_ref().map(|m| m.text.as_str()) });
    if world.answers.iter().any(|a| matches!(&a.1, Err(e) if e == TIMEOUT)) {
        // an overloaded machine, not an answer: the model cannot be fed
        res.count("run:metadata-timeout");
        return (vec![], ob);
    }
    let cwd_s = r.cwd.to_string_lossy().into_owned();
    res.count(&format!("answers-in-universe:{}", world.answers.len().min(6)));
    // whole command
    let obs_t = observed_targets(&ob, r.verbose && !r.quiet);
    let nontrivial = !ob.records.is_empty() || obs_t.as_deref().map_or(false, |t| t.starts_with("err:"));
    res.push(
        "corr", "cf.execute",
        format!("cf.execute {} {} {} {}", opts_text(r), enc_str(&cwd_s), world.tokens, enc_statuses(&r.statuses)),
        format!("{}|{}", exit, enc_argvs(&ob.records)),
        desc.clone(), nontrivial,
    );
    // the target set / the selection error
    if let Some(t) = &obs_t {
        let many = t.matches(',').count() >= 1 || t.starts_with("err:");
        res.push(
            "corr", "cf.targets",
            format!("cf.targets {} {} {} {}", strategy_text(r), enc_str(&cwd_s), enc_opt(r.manifest.as_ref().map(|m| m.text.as_str())), world.tokens),
            t.clone(), desc.clone(), many,
        );
        res.count(&format!("targets-observed:{}", if t.starts_with("err:") { t.split(':').take(2).collect::<Vec<_>>().join(":") } else { "set(-v)".into() }));
    }
    // status folding alone
    if !ob.records.is_empty() {
        let used: Vec<St> = (0..ob.records.len()).map(|k| r.statuses.get(k).cloned().unwrap_or(St::Code(0))).collect();
        let nt = used.len() >= 2 && used.iter().any(|s| *s != St::Code(0));
        res.push("corr", "cf.exit", format!("cf.exit {}", enc_statuses(&used)), format!("{}:{}", exit, used.len()), desc.clone(), nt);
    }
    if r.sel == Sel::All && !r.dirty {
        res.push("assume", "cf.namefun", format!("cf.namefun {}", world.tokens), "1".into(), format!("generated universes keep dependency names functional: {}", desc), world.answers.len() >= 2);
    }
    res.count(&format!("invocations:{}", ob.records.len()));
    res.count(&format!("exit:{}", if exit == 0 { "0".to_string() } else if exit == 1 { "1".into() } else { "other".into() }));
    let verdicts = judge(u, r, &ob, false);
    match expectation(u, r) {
        Expect::Error(w) => res.count(&format!("expect:error:{}", w)),
        Expect::Info(_) => res.count("expect:info-flag"),
        Expect::Format(f) => {
            res.count("expect:format");
            res.count(&format!("expected-files:{}", match f.len() { 0 => "0", 1 => "1", 2..=3 => "2-3", 4..=7 => "4-7", _ => "8+" }));
            if f.values().any(|e| e.len() > 1) {
                res.count("expect:shared-file-with-two-editions");
            }
        }
        Expect::Unspecified => res.count("expect:unspecified"),
    }
    if !r.dirty {
        for (sig, what) in &verdicts {
            res.failures.push(json!({"sig": sig, "what": what, "universe": u.desc, "dir": u.base.to_string_lossy(), "cwd": cwd_s, "argv": r.argv, "statuses": enc_statuses(&r.statuses), "exit": exit, "records": ob.records, "stderr": ob.stderr.lines().next().unwrap_or("")}));
        }
    }
    if res.samples.len() < 2 && ob.records.len() >= 2 {
        res.samples.push(json!({"universe": u.desc, "cwd": cwd_s, "argv": r.argv, "statuses": enc_statuses(&r.statuses), "exit": exit, "records": ob.records}));
    }
    // the same command when rustfmt cannot be started at all
    if with_spawn_failure && !ob.records.is_empty() {
        let ob2 = run_cargo_fmt(scratch, &format!("{}m", tag), &r.cwd, &r.argv, &[], true);
        if let Some(e2) = ob2.exit {
            res.count("run:rustfmt-missing");
            // the model's trace lists the attempted spawn; nothing can record it, so the argument vector
            // of the attempt is taken from the run above (it is the first one of the same plan)
            let tr = if ob2.records.is_empty() { vec![ob.records[0].clone()] } else { ob2.records.clone() };
            res.push(
                "corr", "cf.execute",
                format!("cf.execute {} {} {} spawn", opts_text(r), enc_str(&cwd_s), world.tokens),
                format!("{}|{}", e2, enc_argvs(&tr)),
                format!("RUSTFMT missing | {}", desc), true,
            );
            if !r.dirty {
                for (sig, what) in judge(u, r, &ob2, true) {
                    res.failures.push(json!({"sig": sig, "what": what, "universe": u.desc, "cwd": cwd_s, "argv": r.argv, "rustfmt": "missing", "exit": e2}));
                }
                if !ob2.records.is_empty() {
                    res.failures.push(json!({"sig": "c18:harness-standin", "what": "records although RUSTFMT does not exist", "argv": r.argv}));
                }
            }
        }
    }
    (verdicts, ob)
}

// ------------------------------------------------------------------------------------------------
// enumerated probes of shapes known to violate the property on the pinned tree

fn simple_pkg(name: &str, dir: &Path, edition: &'static str, role: Role) -> Pkg {
    Pkg { name: name.into(), dir: dir.to_path_buf(), edition: Some(edition), explicit: false, tgts: vec![Tgt { kind: "lib", name: name.into(), rel: "src/lib.rs".into(), edition: None, crate_type: None }], deps: vec![], role, broken: false }
}

fn dep(key: &str, to: usize) -> DepSpec {
    DepSpec { key: key.into(), to: DepTo::Pkg(to), section: "dependencies", absolute: false }
}

/// virtual workspace `ws` with members a (2021) and b (2018)
fn two_members(base: &Path, tag: &str) -> Uni {
    let base = base.join(tag);
    let root = base.join("ws");
    let mut u = Uni { base: base.clone(), root: root.clone(), virt: true, plain: false, pkgs: vec![simple_pkg("a", &root.join("a"), "2021", Role::Member), simple_pkg("b", &root.join("b"), "2018", Role::Member)], members: vec![0, 1], links: vec![], extra_files: vec![], desc: String::new() };
    u.desc = describe(&u);
    u
}

fn probe_run(o: &mut Outcome, res: &mut Res, id: &str, what: &str, u: &Uni, mut r: RunSpec, scratch: &Path) {
    r.dirty = true;
    if r.argv.is_empty() {
        r.spell(&mut Rng::new(1));
    }
    let mut cache = MetaCache::default();
    let (verdicts, ob) = do_run(u, &r, &mut cache, scratch, &format!("probe-{}", id), res, false);
    o.probes.push(json!({
        "id": id, "fails": !verdicts.is_empty(), "what": what,
        "detail": {"universe": u.desc, "cwd": r.cwd.to_string_lossy(), "argv": r.argv, "statuses": enc_statuses(&r.statuses), "exit": ob.exit, "records": ob.records, "stderr": ob.stderr.lines().next().unwrap_or(""), "oracle": verdicts.iter().map(|(s, w)| format!("{}: {}", s, w)).collect::<Vec<_>>()},
    }));
}

/// A run that must be clean although it sits next to a known finding; a violation is reported as usual.
fn control_run(res: &mut Res, u: &Uni, mut r: RunSpec, scratch: &Path, tag: &str) -> Observed {
    if r.argv.is_empty() {
        r.spell(&mut Rng::new(1));
    }
    let mut cache = MetaCache::default();
    do_run(u, &r, &mut cache, scratch, tag, res, false).1
}

fn probes(o: &mut Outcome, res: &mut Res, base: &Path, scratch: &Path) {
    // F9a: the current package from a sub-directory of a member
    let u = two_members(base, "f9a");
    materialise(&u);
    probe_run(o, res, "F9a", "plain `cargo fmt` in <member>/src of a workspace with two members: \"Failed to find targets\", exit 1, nothing formatted", &u, RunSpec::new(&u.root.join("a/src"), CwdOf::Below(0), Sel::Root), scratch);
    control_run(res, &u, RunSpec::new(&u.root.join("a"), CwdOf::PkgDir(0), Sel::Root), scratch, "f9a-control");
    // F9d: --manifest-path of a virtual workspace
    for (k, text) in [u.root.join("Cargo.toml").to_string_lossy().into_owned(), "Cargo.toml".to_string()].into_iter().enumerate() {
        let mut r = RunSpec::new(&u.root, CwdOf::WsRoot, Sel::Root);
        r.manifest = Some(ManifestArg { text, of: ManifestOf::WsRoot });
        probe_run(o, res, if k == 0 { "F9d" } else { "F9d-relative" }, "`cargo fmt --manifest-path <virtual workspace>/Cargo.toml`: \"Failed to find targets\" where `cd <workspace>; cargo fmt` formats every member", &u, r, scratch);
    }
    control_run(res, &u, RunSpec::new(&u.root, CwdOf::WsRoot, Sel::Root), scratch, "f9d-control");
    // F9b: a rustfmt killed by a signal
    for (id, sts) in [("F9b", vec![St::Kill]), ("F9b-second", vec![St::Code(0), St::Kill])] {
        let mut r = RunSpec::new(&u.root, CwdOf::WsRoot, Sel::All);
        r.statuses = sts;
        probe_run(o, res, id, "a rustfmt process killed by a signal (ExitStatus::code() == None) is folded to success: exit 0", &u, r, scratch);
    }
    {
        // a signal next to a failing exit code: the code decides, the property holds
        let mut r = RunSpec::new(&u.root, CwdOf::WsRoot, Sel::All);
        r.statuses = vec![St::Kill, St::Code(3)];
        control_run(res, &u, r, scratch, "f9b-control");
    }
    // F9c: two path dependencies with one package name
    {
        let base = base.join("f9c");
        let root = base.join("ws");
        let mut u = Uni { base: base.clone(), root: root.clone(), virt: true, plain: false, pkgs: vec![simple_pkg("a", &root.join("a"), "2021", Role::Member), simple_pkg("b", &root.join("b"), "2021", Role::Member), simple_pkg("util", &base.join("x/util"), "2021", Role::Outside), simple_pkg("util", &base.join("y/util"), "2018", Role::Outside)], members: vec![0, 1], links: vec![], extra_files: vec![], desc: String::new() };
        u.pkgs[0].deps.push(dep("util", 2));
        u.pkgs[1].deps.push(dep("util", 3));
        u.desc = describe(&u);
        materialise(&u);
        probe_run(o, res, "F9c", "`cargo fmt --all`: members a and b depend on two different path packages both named `util`; get_targets_recursive keeps dependency NAMES in `visited`, the second one is never formatted", &u, RunSpec::new(&u.root, CwdOf::WsRoot, Sel::All), scratch);
        // the universe is outside the hypothesis of all_is_transitive_closure_partial
        let w = build_world(&mut MetaCache::default(), &u.root, None);
        res.push("corr", "cf.namefun", format!("cf.namefun {}", w.tokens), "0".into(), "F9c universe: World.namesFunctional is false (two manifests for the name util)".into(), true);
    }
    // F9e: a path dependency that lives in a foreign workspace drags that workspace's other members in
    {
        let base = base.join("f9e");
        let root = base.join("ws");
        let mut u = Uni { base: base.clone(), root: root.clone(), virt: true, plain: false, pkgs: vec![simple_pkg("a", &root.join("a"), "2021", Role::Member), simple_pkg("e", &base.join("ext/e"), "2018", Role::Outside), simple_pkg("g", &base.join("ext/g"), "2018", Role::Outside)], members: vec![0], links: vec![], extra_files: vec![], desc: String::new() };
        u.pkgs[0].deps.push(dep("e", 1));
        u.extra_files.push((base.join("ext/Cargo.toml"), "[workspace]\nresolver = \"2\"\nmembers = [\"e\", \"g\"]\n".into()));
        u.desc = format!("{} + foreign workspace ext = {{e, g}}", describe(&u));
        materialise(&u);
        probe_run(o, res, "F9e", "`cargo fmt --all`: member a depends on ../ext/e, a member of another workspace {e, g}; `cargo metadata --manifest-path ext/e/Cargo.toml` lists g too and g/src/lib.rs is formatted although g is neither a member nor a dependency", &u, RunSpec::new(&u.root, CwdOf::WsRoot, Sel::All), scratch);
    }
    // a path shared by two targets: the first inserted (package order, then target order) supplies the edition
    {
        let base = base.join("shared");
        let root = base.join("ws");
        let mut u = two_members(&base, "x");
        u.base = base.clone();
        u.root = root.clone();
        for (i, (n, e)) in [("a", "2018"), ("b", "2021")].iter().enumerate() {
            u.pkgs[i] = simple_pkg(n, &root.join(n), e, Role::Member);
            u.pkgs[i].explicit = true;
            u.pkgs[i].tgts = vec![
                Tgt { kind: "lib", name: n.to_string(), rel: "src/lib.rs".into(), edition: None, crate_type: None },
                Tgt { kind: "bin", name: "s1".into(), rel: "../shared.rs".into(), edition: None, crate_type: None },
                Tgt { kind: "example", name: "s2".into(), rel: "../shared.rs".into(), edition: Some(if i == 0 { "2024" } else { "2015" }), crate_type: None },
            ];
        }
        u.desc = describe(&u);
        materialise(&u);
        for (k, sel) in [Sel::All, Sel::Pkgs(vec!["b".into(), "a".into()]), Sel::Pkgs(vec!["b".into()])].into_iter().enumerate() {
            let r = RunSpec::new(&u.root, CwdOf::WsRoot, sel.clone());
            let ob = control_run(res, &u, r, scratch, &format!("shared{}", k));
            // package order of the real metadata answer, then target order
            let md = cargo_metadata(&u.root, None).unwrap_or(Value::Null);
            let shared = canon(&root.join("shared.rs"));
            let mut first: Option<String> = None;
            for p in md["packages"].as_array().cloned().unwrap_or_default() {
                let name = p["name"].as_str().unwrap_or("").to_string();
                let selected = match &sel { Sel::Pkgs(n) => n.contains(&name), _ => true };
                if !selected {
                    continue;
                }
                for t in p["targets"].as_array().cloned().unwrap_or_default() {
                    if first.is_none() && canon(Path::new(t["src_path"].as_str().unwrap_or(""))) == shared {
                        first = t["edition"].as_str().map(|s| s.to_string());
                    }
                }
            }
            let got: Vec<String> = ob.records.iter().filter_map(|r| split_record(r)).filter(|(fs, _, _)| fs.contains(&shared)).map(|(_, e, _)| e).collect();
            res.count("shared-path:first-inserted-checked");
            if first.is_none() || got != vec![first.clone().unwrap()] {
                res.failures.push(json!({"sig": "c18:shared-path-not-first-inserted", "what": format!("shared root file: edition(s) {:?}, the first inserted target declares {:?}", got, first), "universe": u.desc, "records": ob.records}));
            }
        }
    }
}

// ------------------------------------------------------------------------------------------------
// small correspondences

/// `convert_message_format_to_rustfmt_args` seen through the binary: a one-file crate, no `--check` flag,
/// so the recorded tail after `--edition e` is the converted argument list.
fn msgfmt_cases(res: &mut Res, base: &Path, scratch: &Path, rng: &mut Rng, n: usize) {
    let base = base.join("msgfmt");
    let root = base.join("one");
    let mut u = Uni { base: base.clone(), root: root.clone(), virt: false, plain: true, pkgs: vec![simple_pkg("one", &root, "2021", Role::Member)], members: vec![0], links: vec![], extra_files: vec![], desc: String::new() };
    u.desc = describe(&u);
    materialise(&u);
    let pool = ["--check", "-l", "--files-with-diff", "--emit", "--emit=json", "--emitx", "json", "files", "--config", "a=b", "-L", "--checks", "short"];
    let mut specs: Vec<(String, Vec<String>)> = vec![];
    for f in ["short", "json", "human", "xml"] {
        specs.push((f.to_string(), vec![]));
        for a in pool {
            specs.push((f.to_string(), vec![a.to_string()]));
        }
    }
    while specs.len() < n {
        let f = rng.pick(&["short", "json", "human", "Human", "jso"]).to_string();
        let k = 1 + rng.below(4);
        specs.push((f, (0..k).map(|_| rng.pick(&pool).to_string()).collect()));
    }
    let outs: Vec<(Observed, Vec<String>)> = par_map(&specs.iter().enumerate().collect::<Vec<_>>(), |(i, (f, args))| {
        let mut argv: Vec<String> = vec!["fmt".into(), "--message-format".into(), f.clone()];
        if !args.is_empty() {
            argv.push("--".into());
            argv.extend(args.iter().cloned());
        }
        (run_cargo_fmt(scratch, &format!("mf{}", i), &root, &argv, &[], false), argv)
    });
    for ((f, args), (ob, argv)) in specs.iter().zip(outs.iter()) {
        let first = ob.stderr.lines().next().unwrap_or("");
        let ans = if ob.exit == Some(0) && ob.records.len() == 1 {
            match split_record(&ob.records[0]) {
                Some((_, _, rest)) => format!("ok:{}", enc_list(&rest)),
                None => "unreadable".into(),
            }
        } else if first.starts_with("cannot include --emit arg") {
            "err:emit".into()
        } else if first.starts_with("cannot include --check arg") {
            "err:check".into()
        } else if first.starts_with("invalid --message-format value") {
            "err:invalid".into()
        } else {
            format!("unexpected exit={:?} records={} {}", ob.exit, ob.records.len(), first)
        };
        res.count(&format!("msgfmt:{}", if ans.starts_with("ok:") { "ok".to_string() } else { ans.chars().take(12).collect::<String>() }));
        res.push("corr", "cf.msgfmt", format!("cf.msgfmt {} {}", enc_str(f), enc_list(args)), ans, format!("cargo-fmt {}", argv.join(" ")), true);
    }
}

/// The model's paths are `Path::components()`; its order is `impl Ord for Path` (std, outside /repo).
fn path_cases(o: &mut Outcome, rng: &mut Rng, thorough: bool) {
    let render = |s: &str| -> String {
        let comps: Vec<String> = Path::new(s).components().map(|c| match c {
            std::path::Component::RootDir => String::new(),
            std::path::Component::CurDir => ".".into(),
            std::path::Component::ParentDir => "..".into(),
            std::path::Component::Normal(x) => x.to_string_lossy().into_owned(),
            std::path::Component::Prefix(_) => "<prefix>".into(),
        }).collect();
        if comps.len() == 1 && comps[0].is_empty() { "/".into() } else { comps.join("/") }
    };
    let alphabet = ['/', '.', 'a', '-', ' '];
    let maxlen = if thorough { 6 } else { 5 };
    let mut all: Vec<String> = vec![String::new()];
    let mut layer: Vec<String> = vec![String::new()];
    for _ in 0..maxlen {
        let mut next = vec![];
        for s in &layer {
            for c in alphabet {
                next.push(format!("{}{}", s, c));
            }
        }
        all.extend(next.iter().cloned());
        layer = next;
    }
    for s in &all {
        o.push("assume", "cf.path", format!("cf.path {}", enc_str(s)), enc_str(&render(s)), format!("Path::components of {:?}", s), s.len() > 1);
    }
    let pieces = ["a", "b", "a-b", "a.b", "a b", "ab", "..", ".", "", "A", "é", "a/b"];
    for _ in 0..(if thorough { 20000 } else { 4000 }) {
        let mk = |rng: &mut Rng| -> String {
            let n = rng.below(4);
            let mut s = if rng.chance(2, 3) { "/".to_string() } else { String::new() };
            for i in 0..n {
                if i > 0 {
                    s.push('/');
                }
                s.push_str(*rng.pick(&pieces[..]));
            }
            if rng.chance(1, 6) {
                s.push('/');
            }
            s
        };
        let a = mk(rng);
        let b = if rng.chance(1, 8) { a.clone() } else { mk(rng) };
        let ord = match Path::new(&a).cmp(Path::new(&b)) { std::cmp::Ordering::Less => "lt", std::cmp::Ordering::Equal => "eq", std::cmp::Ordering::Greater => "gt" };
        let bytes_ord = a.as_bytes().cmp(b.as_bytes());
        let differs = (bytes_ord == std::cmp::Ordering::Less) != (ord == "lt");
        if differs {
            o.count("pathcmp:component-order-differs-from-byte-order");
        }
        o.push("assume", "cf.pathcmp", format!("cf.pathcmp {} {}", enc_str(&a), enc_str(&b)), ord.into(), format!("{:?} vs {:?}", a, b), a != b);
    }
}

// ------------------------------------------------------------------------------------------------

pub fn run(tier: &str, seed: u64, out: &Path) -> i32 {
    let mut o = Outcome::new("C18", tier, seed);
    let thorough = tier == "thorough";
    let mut rng = Rng::new(seed ^ 0xc18);
    if !cargo_fmt_bin().exists() {
        eprintln!("cargo-fmt binary not found at {:?}", cargo_fmt_bin());
        return 2;
    }
    std::fs::create_dir_all(out).unwrap();
    let base = std::fs::canonicalize(out).expect("canonicalize the output directory").join("ws");
    let scratch = base.join("scratch");
    let _ = std::fs::remove_dir_all(&base);
    std::fs::create_dir_all(&scratch).unwrap();
    o.notes.push(format!("cargo-fmt = {}; stand-in = {}; workspaces under {}", cargo_fmt_bin().display(), standin().display(), base.display()));

    let t0 = std::time::Instant::now();
    // generated universes
    let n_uni = if thorough { 1500 } else { 100 };
    let per_uni = if thorough { 20 } else { 12 };
    let unis: Vec<(Uni, Rng)> = (0..n_uni).map(|i| { let u = gen_uni(&mut rng, &base, i); (u, rng.fork()) }).collect();
    let results: Vec<Res> = par_map(&unis, |(u, r0)| {
        let mut rng = r0.clone();
        let mut res = Res::default();
        materialise(u);
        let mut cache = MetaCache::default();
        let mut specs = combos(u, &mut rng);
        // a fixed number of runs per universe, drawn without replacement
        for i in (1..specs.len()).rev() {
            let j = rng.below(i + 1);
            specs.swap(i, j);
        }
        specs.truncate(per_uni);
        res.count(&format!("universe:members:{}", u.members.len()));
        res.count(&format!("universe:{}", if u.virt { "virtual" } else if u.plain { "plain-package" } else { "rooted" }));
        res.count(&format!("universe:packages-outside:{}", u.pkgs.iter().filter(|p| p.role == Role::Outside).count()));
        if u.pkgs.iter().any(|p| p.role == Role::Vendored) {
            res.count("universe:with-vendored-non-member");
        }
        if !u.links.is_empty() {
            res.count("universe:with-symlinked-root-file");
        }
        if u.pkgs.iter().any(|p| p.broken) {
            res.count("universe:with-unusable-dependency-manifest");
        }
        let eds: BTreeSet<&str> = u.pkgs.iter().flat_map(|p| p.tgts.iter().map(move |t| t.edition.or(p.edition).unwrap_or("2015"))).collect();
        res.count(&format!("universe:editions:{}", eds.len()));
        for (k, spec) in specs.iter_mut().enumerate() {
            decorate(spec, &mut rng);
            res.count(&format!("sel:{}{}", match spec.sel { Sel::Root => "current", Sel::All => "all", Sel::Pkgs(_) => "-p" }, if spec.manifest.is_some() { "+manifest-path" } else { "" }));
            res.count(&format!("cwd:{}", match spec.cwd_of { CwdOf::WsRoot => "workspace-root", CwdOf::PkgDir(_) => "member-dir", CwdOf::Below(_) => "member/src" }));
            let spawn_fail = rng.chance(1, 12);
            let tag = format!("{}-{}", u.base.file_name().unwrap().to_string_lossy(), k);
            do_run(u, spec, &mut cache, &scratch, &tag, &mut res, spawn_fail);
        }
        res
    });
    eprintln!("c18: universes done {:?}", t0.elapsed());
    let mut probe_res = Res::default();
    probes(&mut o, &mut probe_res, &base, &scratch);
    msgfmt_cases(&mut probe_res, &base, &scratch, &mut rng, if thorough { 400 } else { 120 });
    for r in results.into_iter().chain(std::iter::once(probe_res)) {
        o.cases.extend(r.cases);
        o.direct_failures.extend(r.failures);
        for (k, v) in r.counts {
            o.count_n(&k, v);
        }
        for s in r.samples {
            o.sample(s);
        }
    }
    path_cases(&mut o, &mut rng, thorough);
    // the oracle evaluations are comparisons made here, without the model
    let oracle_runs = o.distribution.iter().filter(|(k, _)| k.starts_with("expect:") && !k.contains("shared-file")).map(|(_, v)| *v).sum::<u64>();
    o.direct_evals = oracle_runs;
    o.direct_distinct = o.distribution.get("expect:format").copied().unwrap_or(0);
    o.notes.push("non-trivial: cf.execute = at least one rustfmt was started or the selection ended in an error; cf.targets = two or more targets or an error; cf.exit = two or more processes, one of them failing; model-free oracle = runs whose expectation is a file set".into());
    let _ = std::fs::remove_dir_all(&scratch);
    eprintln!("c18: implementation side done {:?}; {} model requests, {} bytes", t0.elapsed(), o.cases.len(), o.cases.iter().map(|c| c.request.len()).sum::<usize>());
    o.finish(out, jobs())
}
