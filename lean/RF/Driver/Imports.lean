import RF.Model.Proto
import RF.Model.Sort
import RF.Model.Imports
/-!
Line-protocol operations for the import algebra (C10).

Text encoding (blank-free; `hex` = lower-case hex of the UTF-8 bytes, `-` for the empty string)

  alias   := `-` (None) | hex
  seg     := `I` hex `~` alias      Ident(name, alias)   (name may be `-`: the empty root of `::*`)
           | `S~` alias             Slf(alias)
           | `U~` alias             Super(alias)
           | `C~` alias             Crate(alias)
           | `*`                    Glob
           | `[` trees `]`          List(trees)          (`[]` = empty list)
  tree    := seg (`:` seg)*  |  `@`                      (`@` = empty path)
  trees   := tree (`,` tree)*
  item    := vis `;` attrs `;` cmt `;` tree
  vis     := `n` (visibility None) | `v` hex-or-nothing  (`v` = Some(inherited), `v707562` = key "pub")
  attrs   := `n` (None) | `a` hex                        (rendered attribute text)
  cmt     := `0` | `1`                                   (`contains_comment()`)
  items   := `_` | item (`|` item)*
  groups  := items (`!` items)*
  g       := preserve | crate | module | item | one
  sp      := crate | module | one
  gt      := preserve | std | one
  style   := 2015 | 2018 | 2021 | 2024                   (style edition: selects the order used by every sort)

e.g. `use a::{self, b as c, d::*};` is `v;n;0;I61~-:[S~-,I62~63,I64~-:*]`.

Ops (responses: same encodings; `panic` where Rust panics, `fuel` never happens, `err` = undecodable)

  imp.normalize <style> <item>         -> item                 `UseTree::normalize`
  imp.flatten <g> <item>               -> items                `UseTree::flatten`
  imp.nest <item>                      -> item                 `nest_trailing_self`
  imp.share <sp> <item> <item>         -> 0 | 1                `self.share_prefix(other, sp)`
  imp.merge <style> <item> <item> <sp> -> item                 `self.merge(other, sp)` (the new self)
  imp.mergeinner <style> <sp> <tree> <tree> -> tree               `merge_use_trees_inner(list, t, sp)`;
                                                              first arg must be a single list segment `[..]`
  imp.granularity <style> <g> <items>  -> items                `normalize_use_trees_with_granularity`
  imp.group <items>                    -> groups (3, maybe `_`) `group_imports`
  imp.run <style> <g> <gt> <0|1> <items> -> groups               use-arm of `rewrite_reorderable_or_regroupable_items`
                                                              (normalize, granularity, group, sort if 1, drop empty groups)
  imp.leaves <items>                   -> leaves               ORACLE: canonical (sorted, deduplicated) leaf set
  imp.safe <g> <items>                 -> 0 | 1                ORACLE: hypothesis of the leaf-preservation theorem for
                                                              granularity g on these (normalised) items: `safeFor g items`
  imp.wf <item>                        -> 0 | 1                ORACLE: `wfPath true` (hypothesis of `normalize_leaves`) and not `bareSelf`
  imp.cmp <style> <tree> <tree>        -> lt | eq | gt         the comparison used for sorting
  imp.samevis <ovis> <ovis>            -> 0 | 1                `UseTree::same_visibility` (with `is_same_visibility`)
  imp.viskey <ovis>                    -> n | k hex            the key `Item.vis` uses for this visibility

  ovis    := `n` (no visibility) | `P` (Public) | `I` (Inherited) | `R` (`0`|`1`) `:` hex (`,` hex)*
             (Restricted: shorthand flag, segment names; `-` = the empty name of `{{root}}`)

  leaves  := `_` | leaf (`|` leaf)*      leaf := viskey `;` attrs `;` pseg (`:` pseg)* `;` alias
  viskey  := hex (`-` for inherited/none)   pseg := `N` hex `~` alias | `S~`al | `U~`al | `C~`al | `*`

PLUG: every sort uses `theCmp v2024 = RF.Imports.treeCmp v2024` (the C11 model of `impl Ord for UseTree`,
from `RF/Model/Sort.lean`).  In worker c10's scratch copy `RF/Model/Sort.lean` is a stub whose `treeCmp` is a
placeholder order (it ignores the style).  `imp.leaves` sorts its leaves as strings (byte order) and removes duplicates.
-/
namespace RF.Driver.Imports
open RF.Proto RF.Imports

/-- PLUG: the real comparison from `RF/Model/Sort.lean` (`RF.Imports.treeCmp v2024`). -/
def theCmp (v2024 : Bool) : Tree → Tree → Ordering := RF.Imports.treeCmp v2024

/-- `<style>`: `2024` selects the style-edition-2024 order, anything else (`2015`, `2018`, `2021`) the old one. -/
def decStyle (s : String) : Option Bool :=
  if s == "2024" then some true
  else if s == "2015" || s == "2018" || s == "2021" then some false else none

/-! ### encoding -/

def encName (cs : List Char) : String := encChars cs
def encAlias : Option (List Char) → String
  | none => "-"
  | some a => encChars a

mutual
def encSeg : Seg → String
  | .ident n a => "I" ++ encName n ++ "~" ++ encAlias a
  | .slf a => "S~" ++ encAlias a
  | .super a => "U~" ++ encAlias a
  | .crate a => "C~" ++ encAlias a
  | .glob => "*"
  | .list ts => "[" ++ String.intercalate "," (encTrees ts) ++ "]"
def encTree : Tree → String
  | .mk [] => "@"
  | .mk (s :: r) => String.intercalate ":" (encSeg s :: encPath r)
def encPath : List Seg → List String
  | [] => []
  | s :: r => encSeg s :: encPath r
def encTrees : List Tree → List String
  | [] => []
  | t :: r => encTree t :: encTrees r
end

def encItem (it : Item) : String :=
  (match it.vis with | none => "n" | some v => "v" ++ (if v.isEmpty then "" else encChars v)) ++ ";" ++
  (match it.attrs with | none => "n" | some a => "a" ++ encChars a) ++ ";" ++
  (if it.hasComment then "1" else "0") ++ ";" ++ encTree it.tree

def encItems (its : List Item) : String :=
  if its.isEmpty then "_" else String.intercalate "|" (its.map encItem)

def encGroups (gs : List (List Item)) : String :=
  if gs.isEmpty then "_" else String.intercalate "!" (gs.map encItems)

def encPSeg : PSeg → String
  | .name n a => "N" ++ encName n ++ "~" ++ encAlias a
  | .slf a => "S~" ++ encAlias a
  | .super a => "U~" ++ encAlias a
  | .crate a => "C~" ++ encAlias a
  | .glob => "*"

def encLeaf (l : ItemLeaf) : String :=
  encChars l.vis ++ ";" ++ (match l.attrs with | none => "n" | some a => "a" ++ encChars a) ++ ";" ++
  String.intercalate ":" (l.leaf.path.map encPSeg) ++ ";" ++ encAlias l.leaf.alias

def insertStr (x : String) : List String → List String
  | [] => [x]
  | y :: ys => if x < y then x :: y :: ys else if x == y then y :: ys else y :: insertStr x ys

def encLeaves (ls : List ItemLeaf) : String :=
  let sorted := (ls.map encLeaf).foldr insertStr []
  if sorted.isEmpty then "_" else String.intercalate "|" sorted

/-! ### decoding (recursive descent with fuel = input length) -/

def isHex (c : Char) : Bool := ('0' ≤ c && c ≤ '9') || ('a' ≤ c && c ≤ 'f')

def takeHex : List Char → List Char × List Char
  | c :: r => if isHex c || c == '-' then let (h, t) := takeHex r; (c :: h, t) else ([], c :: r)
  | [] => ([], [])

def decHexChars (h : List Char) : Option (List Char) := decChars (String.ofList h)

def decAliasTok (cs : List Char) : Option (Option (List Char) × List Char) :=
  let (h, t) := takeHex cs
  if h == ['-'] then some (none, t) else (decHexChars h).map fun a => (some a, t)

mutual
def decSeg : Nat → List Char → Option (Seg × List Char)
  | 0, _ => none
  | fuel + 1, cs =>
    match cs with
    | 'I' :: r =>
      let (h, t) := takeHex r
      match t, decHexChars h with
      | '~' :: t, some n => (decAliasTok t).map fun (a, t) => (.ident n a, t)
      | _, _ => none
    | 'S' :: '~' :: r => (decAliasTok r).map fun (a, t) => (.slf a, t)
    | 'U' :: '~' :: r => (decAliasTok r).map fun (a, t) => (.super a, t)
    | 'C' :: '~' :: r => (decAliasTok r).map fun (a, t) => (.crate a, t)
    | '*' :: r => some (.glob, r)
    | '[' :: ']' :: r => some (.list [], r)
    | '[' :: r =>
      match decTrees fuel r with
      | some (ts, ']' :: t) => some (.list ts, t)
      | _ => none
    | _ => none
def decPath : Nat → List Char → Option (List Seg × List Char)
  | 0, _ => none
  | fuel + 1, cs =>
    match decSeg fuel cs with
    | some (s, ':' :: t) => (decPath fuel t).map fun (p, t) => (s :: p, t)
    | some (s, t) => some ([s], t)
    | none => none
def decTrees : Nat → List Char → Option (List Tree × List Char)
  | 0, _ => none
  | fuel + 1, cs =>
    let one : Option (Tree × List Char) :=
      match cs with
      | '@' :: t => some (.mk [], t)
      | _ => (decPath fuel cs).map fun (p, t) => (.mk p, t)
    match one with
    | some (tr, ',' :: t) => (decTrees fuel t).map fun (ts, t) => (tr :: ts, t)
    | some (tr, t) => some ([tr], t)
    | none => none
end

def decTreeChars (cs : List Char) : Option Tree :=
  match cs with
  | ['@'] => some (.mk [])
  | _ =>
    match decPath (2 * cs.length + 2) cs with
    | some (p, []) => some (.mk p)
    | _ => none

def decTree (s : String) : Option Tree := decTreeChars s.toList

def decItem (s : String) : Option Item :=
  match s.splitOn ";" with
  | [v, a, c, t] => do
    let vis ← match v.toList with
      | ['n'] => some none
      | 'v' :: [] => some (some [])
      | 'v' :: h => (decHexChars h).map some
      | _ => none
    let attrs ← match a.toList with
      | ['n'] => some none
      | 'a' :: h => (decHexChars h).map some
      | _ => none
    let cmt ← match c with
      | "0" => some false
      | "1" => some true
      | _ => none
    let tree ← decTree t
    pure { tree := tree, vis := vis, attrs := attrs, hasComment := cmt }
  | _ => none

def decItems (s : String) : Option (List Item) :=
  if s == "_" then some [] else (s.splitOn "|").mapM decItem

def decG : String → Option Granularity
  | "preserve" => some .preserve
  | "crate" => some .crate
  | "module" => some .module
  | "item" => some .item
  | "one" => some .one
  | _ => none

def decSP : String → Option SharedPrefix
  | "crate" => some .crate
  | "module" => some .module
  | "one" => some .one
  | _ => none

def decGT : String → Option GroupTactic
  | "preserve" => some .preserve
  | "std" => some .stdExternalCrate
  | "one" => some .one
  | _ => none

def encErr : Err → String
  | .panic => "panic"
  | .fuel => "fuel"

def encExcept {α} (f : α → String) : Except Err α → String
  | .error e => encErr e
  | .ok a => f a

def orErr (o : Option String) : Option String := some (o.getD "err")

def decOVis (s : String) : Option (Option Vis) :=
  match s.toList with
  | ['n'] => some none
  | ['P'] => some (some .vpub)
  | ['I'] => some (some .vinh)
  | 'R' :: f :: ':' :: rest =>
    match (String.ofList rest).splitOn "," |>.mapM decChars with
    | some names =>
      if f == '1' then some (some (.vres names true))
      else if f == '0' then some (some (.vres names false)) else none
    | none => none
  | _ => none

def handle (op : String) (args : List String) : Option String :=
  match op, args with
  | "imp.samevis", [a, b] => orErr do
    let a ← decOVis a
    let b ← decOVis b
    pure (if sameVisibility a b then "1" else "0")
  | "imp.viskey", [a] => orErr do
    let a ← decOVis a
    pure (match a with | none => "n" | some v => "k" ++ encChars (visKey v))
  | "imp.normalize", [st, it] => orErr do
    let st ← decStyle st
    let it ← decItem it
    pure (encExcept encItem (normalizeItem (theCmp st) it))
  | "imp.flatten", [g, it] => orErr do
    let g ← decG g
    let it ← decItem it
    pure (encItems (flattenItem g it))
  | "imp.nest", [it] => orErr do
    let it ← decItem it
    pure (encItem (nestItem it))
  | "imp.share", [sp, a, b] => orErr do
    let sp ← decSP sp
    let a ← decItem a
    let b ← decItem b
    pure (if sharePrefix sp a b then "1" else "0")
  | "imp.merge", [st, a, b, sp] => orErr do
    let st ← decStyle st
    let sp ← decSP sp
    let a ← decItem a
    let b ← decItem b
    pure (encExcept encItem (mergeItem (theCmp st) sp a b))
  | "imp.mergeinner", [st, sp, l, t] => orErr do
    let st ← decStyle st
    let sp ← decSP sp
    let l ← decTree l
    let t ← decTree t
    match l with
    | .mk [.list ts] =>
      pure (encExcept (fun ts => encTree (.mk [.list ts])) (mergeUseTreesInner (theCmp st) sp ts t))
    | _ => none
  | "imp.granularity", [st, g, its] => orErr do
    let st ← decStyle st
    let g ← decG g
    let its ← decItems its
    pure (encExcept encItems (withGranularity (theCmp st) g its))
  | "imp.group", [its] => orErr do
    let its ← decItems its
    pure (encGroups (groupImports its))
  | "imp.run", [st, g, gt, r, its] => orErr do
    let st ← decStyle st
    let g ← decG g
    let gt ← decGT gt
    let r ← match r with | "0" => some false | "1" => some true | _ => none
    let its ← decItems its
    pure (encExcept encGroups (rewriteUseRun (theCmp st) g gt r its))
  | "imp.leaves", [its] => orErr do
    let its ← decItems its
    pure (encLeaves (runLeaves its))
  | "imp.safe", [g, its] => orErr do
    let g ← decG g
    let its ← decItems its
    let b := safeFor g its
    pure (if b then "1" else "0")
  | "imp.wf", [it] => orErr do
    let it ← decItem it
    pure (if wfPath true it.tree.path && !bareSelf it then "1" else "0")
  | "imp.cmp", [st, a, b] => orErr do
    let st ← decStyle st
    let a ← decTree a
    let b ← decTree b
    pure (match theCmp st a b with | .lt => "lt" | .eq => "eq" | .gt => "gt")
  | _, _ => none

end RF.Driver.Imports
