import RF.Model.Sort
/-!
Model of the import algebra of rustfmt (`/repo/src/imports.rs`, `/repo/src/reorder.rs`), property C10.

What is modelled and what is abstracted
* `UseSegment.style_edition` is the same for every segment of a run (it is copied from the
  configuration); it only influences `Ord`.  The order is a parameter `cmp` of every function that
  sorts.  Derived `PartialEq for UseSegment` therefore is structural equality of `kind`
  (`segBEq`), and `PartialEq for UseTree` compares **paths only** (`treeBEq`).
* `UseTree.span` is only used for error reporting and comment extraction; dropped.
* `UseTree.list_item` is consulted only through `has_comment()`/`contains_comment()`.  The shared
  `Tree` type carries no comment flag, so **nested** comments are not represented: an `Item` whose
  tree contains a comment anywhere (top level or nested) is represented with `hasComment = true`
  (this is exactly `UseTree::contains_comment()` of the top-level tree).  `flatten`, `share_prefix`
  and `normalize_use_trees_with_granularity` only ask `contains_comment()`, so they are modelled
  exactly.  `normalize` asks `list[0].has_comment()` of a *nested* tree (a sole list element with a
  comment is not spliced): the model of `normalize` is exact for trees without nested comments only.
* `visibility` is an `Option` of a canonical key string such that `is_same_visibility a b` iff the keys are
  equal, the key of `VisibilityKind::Inherited` being the empty string.  Top-level trees always
  have `Some`, nested trees and `from_path` trees have `None`.
* `normalize` keeps a nested element with an empty path when it carries a comment; nested comments
  are not located, so the model removes every nested element with an empty path (exact for trees
  without a comment on such an element).
* `attrs` is an `Option` of the rendered attribute text (`None` = no attributes; `Some` is never
  empty on the paths that reach these functions, see `from_ast_with_normalization`).
* A Rust panic is `Except.error .panic`.  `Err.fuel` is the out-of-fuel answer of the two
  fuel-recursive functions; `RF.Lemmas.Imports` proves it never occurs with the fuel the wrappers pass.
-/
namespace RF.Imports

/-! ## Structural equality (derived `PartialEq` of `UseSegmentKind`; `UseTree` compares paths) -/

mutual
def segBEq : Seg → Seg → Bool
  | .ident a x, .ident b y => a == b && x == y
  | .slf x, .slf y => x == y
  | .super x, .super y => x == y
  | .crate x, .crate y => x == y
  | .glob, .glob => true
  | .list a, .list b => treesBEq a b
  | _, _ => false
termination_by structural a => a
def treeBEq : Tree → Tree → Bool
  | .mk a, .mk b => pathBEq a b
termination_by structural a => a
def pathBEq : List Seg → List Seg → Bool
  | [], [] => true
  | a :: as, b :: bs => segBEq a b && pathBEq as bs
  | _, _ => false
termination_by structural a => a
def treesBEq : List Tree → List Tree → Bool
  | [], [] => true
  | a :: as, b :: bs => treeBEq a b && treesBEq as bs
  | _, _ => false
termination_by structural a => a
end

def Tree.path : Tree → List Seg
  | .mk p => p

mutual
def segSize : Seg → Nat
  | .list ts => 1 + treesSize ts
  | _ => 1
def treeSize : Tree → Nat
  | .mk p => 1 + pathSize p
def pathSize : List Seg → Nat
  | [] => 0
  | s :: r => segSize s + pathSize r
def treesSize : List Tree → Nat
  | [] => 0
  | t :: r => treeSize t + treesSize r
end

inductive Err where
  | panic
  | fuel
  deriving DecidableEq, Repr

inductive Granularity where
  | preserve | crate | module | item | one
  deriving DecidableEq, Repr

/-- imports.rs:1144-1149 `enum SharedPrefix`. -/
inductive SharedPrefix where
  | crate | module | one
  deriving DecidableEq, Repr

/-- A top-level `use` item: the fields of `UseTree` beside `path` that the algorithms consult
(imports.rs:112-122). `hasComment` is `contains_comment()` of the tree. -/
structure Item where
  tree : Tree
  vis : Option (List Char)
  attrs : Option (List Char)
  hasComment : Bool

/-! ## `UseSegment` helpers -/

-- `UseSegment::remove_alias` (imports.rs:144-156) is `RF.Imports.removeAlias` in `RF/Model/Sort.lean` (only `Ord` uses it).

/-- imports.rs:159-169 `UseSegment::equal_except_alias`. -/
def equalExceptAlias : Seg → Seg → Bool
  | .ident a _, .ident b _ => a == b
  | .slf _, .slf _ => true
  | .super _, .super _ => true
  | .crate _, .crate _ => true
  | .glob, .glob => true
  | .list a, .list b => treesBEq a b
  | _, _ => false

/-- imports.rs:171-179 `UseSegment::get_alias`. -/
def getAlias : Seg → Option (List Char)
  | .ident _ a => a
  | .slf a => a
  | .super a => a
  | .crate a => a
  | _ => none

def isSlf : Seg → Bool
  | .slf _ => true
  | _ => false

/-- `tree.to_string() == "self"` (imports.rs:296-328 `Display`): `Slf(..)` prints `self` whatever
its alias; an `Ident("self", None)` (never built by `from_ast`) would too. -/
def displaysSelf : Tree → Bool
  | .mk [.slf _] => true
  | .mk [.ident n none] => n == ['s', 'e', 'l', 'f']
  | _ => false

/-- Own `mapM` for `Except` (plain recursion, easy to reason about). -/
def mapE {α β ε} (f : α → Except ε β) : List α → Except ε (List β)
  | [] => .ok []
  | a :: as =>
    match f a with
    | .error e => .error e
    | .ok b =>
      match mapE f as with
      | .error e => .error e
      | .ok bs => .ok (b :: bs)

/-! ## `normalize` -/

def isEmptyListSeg : Seg → Bool
  | .list [] => true
  | _ => false

def isSlfNone : Seg → Bool
  | .slf none => true
  | _ => false

/-- imports.rs:607-611: `list.len() == 1 && list[0].to_string() != "self"` (and no comment: nested
comments are not modelled): the element to splice. -/
def soleSplice : List Tree → Option Tree
  | [t] => if displaysSelf t then none else some t
  | _ => none

/-- imports.rs:547-637 `UseTree::normalize`, on the path; `hasAttrs = self.attrs.is_some()`,
`hasVis = self.visibility.is_some()` (both `false` for nested trees).  Fuel: one unit per call
(the call re-enters itself after splicing a sole list element and for every list element).
`path.pop().expect("Empty use tree?")` panics on an empty path. -/
def normPath (cmp : Tree → Tree → Ordering) : Nat → Bool → Bool → List Seg → Except Err (List Seg)
  | 0, _, _, _ => .error .fuel
  | fuel + 1, hasAttrs, hasVis, path =>
    match path.getLast? with
    | none => .error .panic
    | some last =>
      let rest := path.dropLast
      -- "Remove foo::{} or self without attributes."  (:554-565)
      if !hasAttrs && isEmptyListSeg last then .ok []
      else if !hasAttrs && isSlfNone last && rest.isEmpty && hasVis then .ok []
      -- "Normalise foo::self -> foo."  (:568-572)
      else if isSlfNone last && !rest.isEmpty then .ok rest
      else
        -- "Normalise foo::self as bar -> foo as bar."  (:575-604); with `last = Slf(None)` the
        -- block leaves `done = false` and falls through (unreachable: `rest` is non-empty then).
        match last, rest.getLast? with
        | .slf (some rename), some (.ident n none) => .ok (rest.dropLast ++ [.ident n (some rename)])
        | _, _ =>
          match last with
          | .list l =>
            -- "Normalise foo::{bar} -> foo::bar"  (:607-623)
            match soleSplice l with
            | some t => normPath cmp fuel hasAttrs hasVis (rest ++ t.path)
            | none =>
              -- "Recursively normalize elements of a list use (including sorting the list)." (:626-633)
              -- an element that imports nothing (`foo::{}`, normalised to the empty path) is removed;
              -- when one was, the whole tree is normalised again (the list may now be empty or sole)
              match mapE (fun t => (normPath cmp fuel false false t.path).map Tree.mk) l with
              | .error e => .error e
              | .ok l' =>
                let kept := l'.filter (fun t => !t.path.isEmpty)
                let sorted := RF.Sort.stableSort cmp kept
                if kept.length < l.length then normPath cmp fuel hasAttrs hasVis (rest ++ [.list sorted])
                else .ok (rest ++ [.list sorted])
          | _ => .ok (rest ++ [last])

/-- `UseTree::normalize` on a top-level item (`from_ast_with_normalization`, imports.rs:392-414). -/
def normalizeItem (cmp : Tree → Tree → Ordering) (it : Item) : Except Err Item :=
  match normPath cmp (pathSize it.tree.path + 1) it.attrs.isSome it.vis.isSome it.tree.path with
  | .error e => .error e
  | .ok p => .ok { it with tree := .mk p }

/-- `normalize` of a nested tree (no visibility, no attributes). -/
def normalizeTree (cmp : Tree → Tree → Ordering) (t : Tree) : Except Err Tree :=
  (normPath cmp (pathSize t.path + 1) false false t.path).map Tree.mk

/-! ## `flatten` -/

/-- The guard of imports.rs:694-698: a list whose only element is a one-segment `self`. -/
def isSoleSelf : List Tree → Bool
  | [.mk [.slf _]] => true
  | _ => false

/- imports.rs:688-723 `UseTree::flatten` on paths, for a tree without comments: the paths of the
flattened trees.  Structural: `prefix ++ flattened.path` is built while walking down to the last
segment.  (The granularity argument only decides whether attributes are kept, see `flattenItem`.) -/
mutual
def flattenLast : Seg → List (List Seg)
  | .list l => if isSoleSelf l then [[.list l]] else flattenTrees l
  | s => [[s]]
def flattenTree : Tree → List (List Seg)
  | .mk p => flattenPath p
def flattenPath : List Seg → List (List Seg)
  | [] => [[]]
  | s :: r =>
    match r with
    | [] => flattenLast s
    | _ :: _ => (flattenPath r).map (s :: ·)
def flattenTrees : List Tree → List (List Seg)
  | [] => []
  | t :: ts => flattenTree t ++ flattenTrees ts
end

def lastIsList (p : List Seg) : Bool :=
  match p.getLast? with
  | some (.list _) => true
  | _ => false

/-- imports.rs:688-723 `UseTree::flatten(self, import_granularity)` on a top-level item. -/
def flattenItem (g : Granularity) (it : Item) : List Item :=
  if it.tree.path.isEmpty || it.hasComment then [it]
  else
    match it.tree.path.getLast? with
    | some (.list l) =>
      if isSoleSelf l then [it]
      else (flattenPath it.tree.path).map fun p =>
        { tree := .mk p, vis := it.vis,
          attrs := if g = .item then it.attrs else none,  -- "only retain attributes for Item"
          hasComment := false }
    | _ => [it]

/-! ## `nest_trailing_self` -/

/-- imports.rs:742-757 `UseTree::nest_trailing_self`. -/
def nestPath (p : List Seg) : List Seg :=
  match p.getLast? with
  | some (.slf a) => p.dropLast ++ [.list [.mk [.slf a]]]
  | _ => p

def nestItem (it : Item) : Item := { it with tree := .mk (nestPath it.tree.path) }

/-! ## Visibility: `is_same_visibility` (utils.rs:40-50), `UseTree::same_visibility` (imports.rs) -/

/-- `ast::VisibilityKind`.  `Restricted { path, shorthand }` carries the names of the path segments
(the `{{root}}` segment of a global path `pub(in ::a)` is the empty name, which is how `pprust`
prints it) and the `shorthand` flag (`pub(crate)` against `pub(in crate)`). -/
inductive Vis where
  | vpub
  | vinh
  | vres (path : List (List Char)) (shorthand : Bool)
  deriving DecidableEq, Repr

/-- `pprust::path_to_string`: the segment names joined by `::`. -/
def pathToString : List (List Char) → List Char
  | [] => []
  | [n] => n
  | n :: m :: r => n ++ ':' :: ':' :: pathToString (m :: r)

/-- utils.rs:40-50 `is_same_visibility`: two restricted visibilities are the same when their paths
print alike (the `shorthand` flag is not looked at); `Public` and `Inherited` only equal themselves. -/
def isSameVisibility : Vis → Vis → Bool
  | .vres p _, .vres q _ => pathToString p == pathToString q
  | .vpub, .vpub => true
  | .vinh, .vinh => true
  | _, _ => false

/-- imports.rs `UseTree::same_visibility`: a missing visibility (nested and `from_path` trees) and an
inherited one are the same; otherwise `is_same_visibility`. -/
def sameVisibility : Option Vis → Option Vis → Bool
  | some .vinh, none => true
  | none, some .vinh => true
  | none, none => true
  | some a, some b => isSameVisibility a b
  | _, _ => false

/-- The key by which `Item.vis` stands for a visibility: empty for inherited, `pub`, `pub(<path>)`. -/
def visKey : Vis → List Char
  | .vinh => []
  | .vpub => ['p', 'u', 'b']
  | .vres p _ => 'p' :: 'u' :: 'b' :: '(' :: (pathToString p ++ [')'])

/-- What a visibility denotes: the `shorthand` flag erased. -/
inductive VisDen where
  | pub
  | priv
  | within (path : List (List Char))
  deriving DecidableEq, Repr

def visDen : Vis → VisDen
  | .vpub => .pub
  | .vinh => .priv
  | .vres p _ => .within p

/-- A visibility as the parser builds it: a restricted path has at least one segment and no name
contains a colon. -/
def visWF : Vis → Bool
  | .vres p _ => !p.isEmpty && p.all (fun n => !n.contains ':')
  | _ => true

/-! ## `share_prefix` -/

/-- imports.rs:647-667 `same_visibility`: `None` and `Some(Inherited)` (key `""`) are the same. -/
def sameVis : Option (List Char) → Option (List Char) → Bool
  | some a, none => a == []
  | none, some b => b == []
  | none, none => true
  | some a, some b => a == b

/-- The `match shared_prefix` of imports.rs:678-684 (both paths non-empty). -/
def sharePath (sp : SharedPrefix) (a b : List Seg) : Bool :=
  match sp with
  | .crate =>
    match a, b with
    | x :: _, y :: _ => segBEq x y
    | _, _ => false
  | .module => pathBEq a.dropLast b.dropLast
  | .one => true

/-- imports.rs:669-686 `share_prefix` for nested / `from_path` trees (no attrs, no comment, no
visibility on either side). -/
def sharePrefixT (sp : SharedPrefix) (a b : Tree) : Bool :=
  if a.path.isEmpty || b.path.isEmpty then false else sharePath sp a.path b.path

/-- imports.rs:669-686 `share_prefix` on top-level items (`self`'s attributes and comments are
consulted, `other`'s are not). -/
def sharePrefix (sp : SharedPrefix) (self other : Item) : Bool :=
  if self.tree.path.isEmpty || other.tree.path.isEmpty || self.attrs.isSome || self.hasComment
      || !sameVis self.vis other.vis then false
  else sharePath sp self.tree.path other.tree.path

/-! ## `merge`, `merge_rest`, `merge_use_trees_inner` -/

/-- The loop of imports.rs:726-734: "only discard the alias at the root of the tree". -/
def prefixLen : Nat → List Seg → List Seg → Nat
  | n, a :: as, b :: bs =>
    if (n == 0 && equalExceptAlias a b) || segBEq a b then prefixLen (n + 1) as bs else n
  | n, _, _ => n

/-- imports.rs:847-853: number of leading segment pairs that are `equal_except_alias`. -/
def similarity : List Seg → List Seg → Nat
  | a :: as, b :: bs => if equalExceptAlias a b then similarity as bs + 1 else 0
  | _, _ => 0

/-- Index of the last maximum of `key` among the entries selected by `p`
(`Iterator::max_by_key` returns the last maximal element). -/
def lastMaxIdx {α} (p : α → Bool) (key : α → Nat) : List α → Nat → Option (Nat × Nat) → Option (Nat × Nat)
  | [], _, best => best
  | x :: xs, i, best =>
    if p x then
      match best with
      | some (_, k) => if key x ≥ k then lastMaxIdx p key xs (i + 1) (some (i, key x))
                       else lastMaxIdx p key xs (i + 1) best
      | none => lastMaxIdx p key xs (i + 1) (some (i, key x))
    else lastMaxIdx p key xs (i + 1) best

/-- imports.rs:801-809: `[.., List(rest_list)] => list.extend(rest_list)`, otherwise
`list.push(from_path(rest))`: the trees appended after the `self` entry. -/
def restTrees (rest : List Seg) : List Tree :=
  match rest with
  | [.list restList] => restList
  | _ => [.mk rest]

mutual
/- imports.rs:760-833 `merge_rest(a, b, len, merge_by)`.  `.ok none` is Rust's `None`.
`len -= 1` with `len = 0` (one of the paths empty) underflows: panic in a debug build, and in a
release build `a[usize::MAX..]` panics; both are `.error .panic`. Fuel: one unit per call. -/
def mergeRest (cmp : Tree → Tree → Ordering) (sp : SharedPrefix) :
    Nat → List Seg → List Seg → Nat → Except Err (Option (List Seg))
  | 0, _, _, _ => .error .fuel
  | fuel + 1, a, b, len =>
    if a.length == len && b.length == len then .ok none
    else if a.length != len && b.length != len then
      match a[len]? with
      | none => .error .panic           -- `a[len]` out of range (not reachable from `merge`)
      | some (.list list) =>
        match mergeInner cmp sp fuel list (.mk (b.drop len)) with
        | .error e => .error e
        | .ok list' => .ok (some (b.take len ++ [.list list']))
      | some _ =>
        .ok (some (b.take len ++
          [.list (RF.Sort.stableSort cmp [.mk (a.drop len), .mk (b.drop len)])]))
    else if len == 1 then
      match a.head?, b.head? with
      | some a0, some b0 =>
        -- `(common, rest) = if a.len() == len { (&a[0], &b[1..]) } else { (&b[0], &a[1..]) }`
        let common := if a.length == len then a0 else b0
        let rest := if a.length == len then b.drop 1 else a.drop 1
        let selfTree : Tree := .mk [.slf (getAlias common)]
        .ok (some [b0, .list (selfTree :: restTrees rest)])
      | _, _ => .error .panic           -- not reachable: both paths have length ≥ 1 here
    else
      match len with
      | 0 => .error .panic              -- `len -= 1` underflow
      | len' + 1 =>
        .ok (some (b.take len' ++
          [.list (RF.Sort.stableSort cmp [.mk (a.drop len'), .mk (b.drop len')])]))

/-- imports.rs:835-889 `merge_use_trees_inner(trees, use_tree, merge_by)`; returns the new `trees`.
`tree.merge(&use_tree, merge_by)` (imports.rs:725-739) is inlined: prefix loop, then `merge_rest`,
and the tree is left unchanged when that returns `None`. -/
def mergeInner (cmp : Tree → Tree → Ordering) (sp : SharedPrefix) :
    Nat → List Tree → Tree → Except Err (List Tree)
  | 0, _, _ => .error .fuel
  | fuel + 1, trees, useTree =>
    let similar := fun (t : Tree) => sharePrefixT sp t useTree
    let pushSort : Except Err (List Tree) := .ok (RF.Sort.stableSort cmp (trees ++ [useTree]))
    let mergeAt := fun (i : Nat) =>
      match trees[i]? with
      | none => Except.error Err.panic     -- not reachable (index comes from `lastMaxIdx`)
      | some t =>
        match mergeRest cmp sp fuel t.path useTree.path (prefixLen 0 t.path useTree.path) with
        | .error e => .error e
        | .ok none => .ok trees
        | .ok (some p) => .ok (trees.set i (.mk p))
    if useTree.path.length == 1 && sp == .crate then
      -- `similar_trees.min_by_key(path_len)` has `path_len == 1`
      if trees.any (fun t => similar t && t.path.length == 1) then .ok trees else pushSort
    else if sp == .one then
      match lastMaxIdx similar (fun t => similarity t.path useTree.path) trees 0 none with
      | some (i, k) => if k > 0 then mergeAt i else pushSort
      | none => pushSort
    else
      match lastMaxIdx similar (fun t => t.path.length) trees 0 none with
      | some (i, k) => if k > 1 then mergeAt i else pushSort
      | none => pushSort
end

/-- imports.rs:725-739 `UseTree::merge(&mut self, other, merge_by)` on paths: the new `self.path`. -/
def mergePath (cmp : Tree → Tree → Ordering) (sp : SharedPrefix) (a b : List Seg) :
    Except Err (List Seg) :=
  match mergeRest cmp sp (pathSize a + 1) a b (prefixLen 0 a b) with
  | .error e => .error e
  | .ok none => .ok a
  | .ok (some p) => .ok p

/-- `merge` on a top-level item: only `path` (and the dropped `span`) change. -/
def mergeItem (cmp : Tree → Tree → Ordering) (sp : SharedPrefix) (self other : Item) :
    Except Err Item :=
  match mergePath cmp sp self.tree.path other.tree.path with
  | .error e => .error e
  | .ok p => .ok { self with tree := .mk p }

/-- `merge_use_trees_inner` with the fuel that always suffices. -/
def mergeUseTreesInner (cmp : Tree → Tree → Ordering) (sp : SharedPrefix) (trees : List Tree)
    (t : Tree) : Except Err (List Tree) :=
  mergeInner cmp sp (treesSize trees + 1) trees t

/-! ## `normalize_use_trees_with_granularity` -/

/-- `result.iter_mut().find(|tree| tree.share_prefix(&flattened, merge_by))` then `merge`, else push
(imports.rs:234-247), for one flattened tree. -/
def absorb (cmp : Tree → Tree → Ordering) (sp : SharedPrefix) (flattened : Item) :
    List Item → Except Err (List Item)
  | [] => .ok [if sp = .module then nestItem flattened else flattened]
  | t :: rest =>
    if sharePrefix sp t flattened then
      match mergeItem cmp sp t flattened with
      | .error e => .error e
      | .ok t' => .ok (t' :: rest)
    else
      match absorb cmp sp flattened rest with
      | .error e => .error e
      | .ok rest' => .ok (t :: rest')

def absorbAll (cmp : Tree → Tree → Ordering) (sp : SharedPrefix) :
    List Item → List Item → Except Err (List Item)
  | [], result => .ok result
  | f :: fs, result =>
    match absorb cmp sp f result with
    | .error e => .error e
    | .ok result' => absorbAll cmp sp fs result'

/-- The `for use_tree in use_trees` loop of imports.rs:227-249 (`result` threaded). -/
def mergeLoop (cmp : Tree → Tree → Ordering) (g : Granularity) (sp : SharedPrefix) :
    List Item → List Item → Except Err (List Item)
  | [], result => .ok result
  | t :: ts, result =>
    if t.hasComment || t.attrs.isSome then mergeLoop cmp g sp ts (result ++ [t])
    else
      match absorbAll cmp sp (flattenItem g t) result with
      | .error e => .error e
      | .ok result' => mergeLoop cmp g sp ts result'

/-- `UseTree::is_repeated_by`: `other` imports the same path under the same visibility, and neither
has attributes or comments (`PartialEq for UseTree` alone compares paths only). -/
def isRepeatedBy (self other : Item) : Bool :=
  treeBEq self.tree other.tree && sameVis self.vis other.vis && self.attrs.isNone &&
    other.attrs.isNone && !self.hasComment && !other.hasComment

/-- The loop of `flatten_use_trees`: a tree is pushed unless an earlier kept one `is_repeated_by` it. -/
def dedupItems : List Item → List Item → List Item
  | [], result => result
  | t :: ts, result =>
    if result.any (fun s => isRepeatedBy s t) then dedupItems ts result
    else dedupItems ts (result ++ [t])

/-- `flatten_use_trees`. -/
def flattenUseTrees (g : Granularity) (ts : List Item) : List Item :=
  dedupItems ((ts.flatMap (flattenItem g)).map nestItem) []

/-- imports.rs:215-250 `normalize_use_trees_with_granularity`. -/
def withGranularity (cmp : Tree → Tree → Ordering) (g : Granularity) (ts : List Item) :
    Except Err (List Item) :=
  match g with
  | .item => .ok (flattenUseTrees .item ts)
  | .preserve => .ok ts
  | .crate => mergeLoop cmp g .crate ts []
  | .module => mergeLoop cmp g .module ts []
  | .one => mergeLoop cmp g .one ts []

/-! ## `group_imports` and the `use` arm of `rewrite_reorderable_or_regroupable_items` -/

inductive Group where
  | std | external | localG
  deriving DecidableEq, Repr

/-- reorder.rs:176-204 `group_imports`: the class of one tree. -/
def classify (t : Tree) : Group :=
  match t.path with
  | [] => .external
  | .ident id _ :: _ =>
    if id == "std".toList || id == "alloc".toList || id == "core".toList then .std else .external
  | .slf _ :: _ => .localG
  | .super _ :: _ => .localG
  | .crate _ :: _ => .localG
  | .glob :: _ => .external      -- "These are probably illegal here"
  | .list _ :: _ => .external

/-- reorder.rs:176-204 `group_imports`: `[std, external, local]`, each in input order. -/
def groupImports (ts : List Item) : List (List Item) :=
  [ts.filter (classify ·.tree == .std), ts.filter (classify ·.tree == .external),
   ts.filter (classify ·.tree == .localG)]

inductive GroupTactic where
  | preserve | stdExternalCrate | one
  deriving DecidableEq, Repr

/-- reorder.rs:105-141: normalise every item, apply the granularity, regroup, sort every group
(`reorder_imports`), drop empty groups.  (`from_ast` and the rendering are outside the model.) -/
def rewriteUseRun (cmp : Tree → Tree → Ordering) (g : Granularity) (gt : GroupTactic)
    (reorder : Bool) (items : List Item) : Except Err (List (List Item)) :=
  match mapE (normalizeItem cmp) items with
  | .error e => .error e
  | .ok normalized =>
    match withGranularity cmp g normalized with
    | .error e => .error e
    | .ok merged =>
      let groups := match gt with
        | .stdExternalCrate => groupImports merged
        | _ => [merged]
      let groups := if reorder then
          groups.map (RF.Sort.stableSort (fun a b => cmp a.tree b.tree)) else groups
      .ok (groups.filter (fun grp => !grp.isEmpty))

/-! ## Denotation: the set of imported paths -/

/-- A path element of a leaf.  The alias fields are the aliases of **non-terminal** segments; they
are `none` in every tree the parser builds, and are kept so that a rewriting that moves an alias
into the middle of a path (`a as x::{…}`) changes the denotation instead of hiding. -/
inductive PSeg where
  | name (n : List Char) (alias : Option (List Char))
  | slf (alias : Option (List Char))
  | super (alias : Option (List Char))
  | crate (alias : Option (List Char))
  | glob
  deriving DecidableEq, Repr

/-- One imported path with its `as` alias. -/
structure Leaf where
  path : List PSeg
  alias : Option (List Char)
  deriving DecidableEq, Repr

/-- The leaf of a path ending in the non-list segment `s` under prefix `pre`.  A terminal `self`
names its prefix (`a::{self as x}` = `a as x`); bare `self` is kept as the path `self`. -/
def terminalLeaf (pre : List PSeg) : Seg → List Leaf
  | .ident n a => [⟨pre ++ [.name n none], a⟩]
  | .slf a => if pre.isEmpty then [⟨[.slf none], a⟩] else [⟨pre, a⟩]
  | .super a => [⟨pre ++ [.super none], a⟩]
  | .crate a => [⟨pre ++ [.crate none], a⟩]
  | .glob => [⟨pre ++ [.glob], none⟩]
  | .list _ => []

/-- A non-terminal, non-list segment as path element. -/
def innerSeg : Seg → PSeg
  | .ident n a => .name n a
  | .slf a => .slf a
  | .super a => .super a
  | .crate a => .crate a
  | _ => .glob

/- `leavesPath pre p`: the imports denoted by path `p` under prefix `pre`.  The empty path denotes
nothing (`use foo::{}` after normalisation).  A list in a non-terminal position (never built by the
parser or by the functions above from well-formed input) denotes nothing. -/
mutual
def leavesLast (pre : List PSeg) : Seg → List Leaf
  | .list ts => leavesTrees pre ts
  | s => terminalLeaf pre s
def leavesTree (pre : List PSeg) : Tree → List Leaf
  | .mk p => leavesPath pre p
def leavesPath (pre : List PSeg) : List Seg → List Leaf
  | [] => []
  | s :: r =>
    match r with
    | [] => leavesLast pre s
    | _ :: _ =>
      match s with
      | .list _ => []
      | s => leavesPath (pre ++ [innerSeg s]) r
def leavesTrees (pre : List PSeg) : List Tree → List Leaf
  | [] => []
  | t :: ts => leavesTree pre t ++ leavesTrees pre ts
end

/-- `a::{self, b as c, d::*}` ↦ `[(a,–), (a::b,c), (a::d::*,–)]`. -/
def leaves (t : Tree) : List Leaf := leavesPath [] t.path

/-- An import with what it is keyed by: visibility (`None` and inherited are both `""`) and
attributes. -/
structure ItemLeaf where
  vis : List Char
  attrs : Option (List Char)
  leaf : Leaf
  deriving DecidableEq, Repr

def itemLeaves (it : Item) : List ItemLeaf :=
  (leaves it.tree).map fun l => ⟨it.vis.getD [], it.attrs, l⟩

def runLeaves (its : List Item) : List ItemLeaf := its.flatMap itemLeaves

end RF.Imports

/-! ## Decidable hypotheses of the theorems (also exposed by the driver as oracles) -/
namespace RF.Imports

/-- A non-terminal segment as the parser builds it: a plain name, `super` or `crate` without
alias; `self` only as the very first segment of a path that is not under any prefix. -/
def innerOK (atRoot : Bool) : Seg → Bool
  | .ident _ none => true
  | .super none => true
  | .crate none => true
  | .slf none => atRoot
  | _ => false

/- `nePath p`: every nested tree of `p` (at any depth, under any segment) has a non-empty path.
True of everything `from_ast` builds; `normalize` breaks it for `a::{b::{}, c}` (the nested
`b::{}` becomes a tree with an empty path, which `flatten` then turns into an import of `a`). -/
mutual
def neSeg : Seg → Bool
  | .list ts => neTrees ts
  | _ => true
def neTree : Tree → Bool
  | .mk p => !p.isEmpty && nePath p
def nePath : List Seg → Bool
  | [] => true
  | s :: r => neSeg s && nePath r
def neTrees : List Tree → Bool
  | [] => true
  | t :: r => neTree t && neTrees r
end

/- `wfPath atRoot p`: `p` is a path as `from_ast` builds it for code rustc accepts: non-terminal
segments satisfy `innerOK`, a list occurs only as last segment, and every nested tree has a
non-empty path.  `atRoot` = the path is not under any prefix.  The empty path (`use a::{};` after
`normalize`) is allowed at top level only.  Lists may be empty. -/
mutual
def wfLast (atRoot : Bool) : Seg → Bool
  | .list ts => wfTrees atRoot ts
  | _ => true
def wfTree (atRoot : Bool) : Tree → Bool
  | .mk p => !p.isEmpty && wfPath atRoot p
def wfPath (atRoot : Bool) : List Seg → Bool
  | [] => true
  | s :: r =>
    match r with
    | [] => wfLast atRoot s
    | _ :: _ => innerOK atRoot s && wfPath false r
def wfTrees (atRoot : Bool) : List Tree → Bool
  | [] => true
  | t :: r => wfTree atRoot t && wfTrees atRoot r
end

/- `leafyPath p`: no empty list anywhere (so, with `wfPath`, every nested tree denotes at least one
import).  `normalize` removes a trailing `{}` at top level. -/
mutual
def leafySeg : Seg → Bool
  | .list ts => !ts.isEmpty && leafyTrees ts
  | _ => true
def leafyTree : Tree → Bool
  | .mk p => leafyPath p
def leafyPath : List Seg → Bool
  | [] => true
  | s :: r => leafySeg s && leafyPath r
def leafyTrees : List Tree → Bool
  | [] => true
  | t :: r => leafyTree t && leafyTrees r
end

/-- Well-formed top-level item. -/
def wfItem (it : Item) : Bool := wfPath true it.tree.path && leafyPath it.tree.path

/-- `pub use self;` / `use self;` at top level with a visibility and no attributes: `normalize`
deletes it (imports.rs:560-563).  rustc rejects the declaration. -/
def bareSelf (it : Item) : Bool :=
  it.attrs.isNone && it.vis.isSome && (match it.tree.path with | [.slf none] => true | _ => false)

/-- Items that `normalize_use_trees_with_granularity` may merge: no attributes, no comment. -/
def mergeable (it : Item) : Bool := !it.hasComment && it.attrs.isNone

/-- `x` is an aliased import whose path is a prefix of (or equal to) the path of `y`. -/
def aliasStem (x y : Leaf) : Bool := x.alias.isSome && x.path.isPrefixOf y.path

/-- One-segment imports of the same path with different aliases (`use a; use a as x;`). -/
def rootTwin (x y : Leaf) : Bool := x.path.length == 1 && x.path == y.path && x.alias != y.alias

/-- The relation that must hold between every two import occurrences of a run, per granularity,
for merging to be safe (F6 and the `a as x::{…}` defect): nothing for `Crate`; no one-segment alias
twins for `Module`; for `One` no aliased import whose path is a prefix of another occurrence. -/
def safePair (sp : SharedPrefix) (x y : ItemLeaf) : Bool :=
  match sp with
  | .crate => true
  | .module => !(x.vis == y.vis && (rootTwin x.leaf y.leaf || rootTwin y.leaf x.leaf))
  | .one => !(x.vis == y.vis && (aliasStem x.leaf y.leaf || aliasStem y.leaf x.leaf))

def pairwiseB {α} (r : α → α → Bool) : List α → Bool
  | [] => true
  | x :: xs => xs.all (r x) && pairwiseB r xs

/-- Hypothesis of `granularity_leaves_partial`. -/
def safeRun (sp : SharedPrefix) (its : List Item) : Bool :=
  (its.filter mergeable).all wfItem && pairwiseB (safePair sp) (runLeaves (its.filter mergeable))

end RF.Imports

namespace RF.Imports

/-- Every item of the run has nested trees with non-empty paths only (true of parser output). -/
def neRun (its : List Item) : Bool := its.all fun it => nePath it.tree.path

end RF.Imports

namespace RF.Imports

/-- The hypothesis under which `normalize_use_trees_with_granularity g` is proved to keep the leaf
set of (already normalised) items: nothing for `Preserve`; non-empty
nested paths for `Item`; `safeRun` otherwise. -/
def safeFor (g : Granularity) (its : List Item) : Bool :=
  match g with
  | .preserve => true
  | .item => neRun its
  | .crate => safeRun .crate its
  | .module => safeRun .module its
  | .one => safeRun .one its

/-- Hypothesis of `normalize_leaves` for a whole run. -/
def normalizable (its : List Item) : Bool :=
  its.all fun it => wfPath true it.tree.path && !bareSelf it

end RF.Imports
