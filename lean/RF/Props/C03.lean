import RF.Model.Comment
import RF.Lemmas.Comment
import RF.Model.LexSpec
import RF.Lemmas.LexSpec
/-!
# C03 — Comments are never silently dropped

What is proved here, for **all** inputs, about the model `RF.Comment` of `/repo/src/comment.rs`
(tied to the code on every run by `rfverif c03`):

* the two slice iterators return a partition of their input and never panic
  (`slices_partition`, `ungrouped_partition`);
* `CommentReducer` (the *payload* the safety net compares) is characterised: it depends only on
  the stripped lines of a comment (`payload_reindent_invariant`: this is why re-indentation and
  trimming of trailing blanks never trip the net), it is the non-blank characters for line comments
  and for block comments without `*` (`payload_line_spec`, `payload_block_spec_partial`), so dropping
  any non-blank character is detected there (`payload_detects_removal_partial`) — and it is blind
  to most `*` of a multi-line block comment (`payload_detects_removal_counterexample`);
* the safety net `recover_comment_removed` returns the source text, or a rewrite with the same
  payload (`safety_net_sound`), and it fires exactly when the payloads differ
  (`safety_net_fires_iff`);
* the oracles that judge the real formatter's output (`commentsPreserved`, `wordsPreserved`) are
  reflexive, invariant under re-indentation / trailing-blank trimming of comment lines, reject a
  dropped or duplicated comment, and imply equal payloads.

What is **not** proved: that every rewriter of rustfmt routes the text between its pieces through
the list machinery, the missed-span writer or the safety net.  That is searched by `rfverif c03`
on the real formatter, with the oracles below as judges.
-/
namespace RF.Props.C03
open RF.CharClasses RF.Comment RF.Lemmas.Comment

/-! ## 1. The slice iterators partition their input -/

/-- `CommentCodeSlices::new(s)`: for every text, no panic, the slices concatenated give back the
text (nothing lost, nothing duplicated), kinds alternate starting with a (possibly empty)
`Normal` slice, and every slice starts at the byte where the previous one ended. -/
theorem slices_partition (s : List Char) :
    ∃ items, commentCodeSlices? s = some items ∧ items.flatMap (·.text) = s ∧
      Alternates .normal items ∧ Contiguous 0 items :=
  slices_spec s

example : commentCodeSlices? "x /* a */ y".toList =
    some [⟨.normal, 0, "x ".toList⟩, ⟨.comment, 2, "/* a */".toList⟩, ⟨.normal, 9, " y".toList⟩] := by
  decide

/-- `UngroupedCommentCodeSlices::new(s)`: for every text the `_ => panic!()` arm is not reached,
the slices concatenated give back the text, and the start offsets are contiguous. -/
theorem ungrouped_partition (s : List Char) :
    ∃ items, ungrouped? s = some items ∧ items.flatMap (·.text) = s ∧ Contiguous 0 items := by
  obtain ⟨items, h⟩ := Option.isSome_iff_exists.mp (ungrouped_isSome s)
  exact ⟨items, h, ungrouped_concat s items h, ungroupedGo_contiguous _ _ _ _ h⟩

example : ungrouped? "// a\n  // b\nx".toList =
    some [⟨.comment, 0, "// a\n".toList⟩, ⟨.normal, 5, "  ".toList⟩,
      ⟨.comment, 7, "// b\n".toList⟩, ⟨.normal, 12, "x".toList⟩] := by
  decide

/-- The `//`-connector rule: line comments separated only by blanks form one `Comment` slice … -/
example : commentCodeSlices? "// a\n  // b\nx".toList =
    some [⟨.normal, 0, []⟩, ⟨.comment, 0, "// a\n  // b\n".toList⟩, ⟨.normal, 12, "x".toList⟩] := by
  decide

/-- … and a quirk of that rule: the trailing blanks of a line comment that ends the text are cut
off the `Comment` slice and returned as a `Normal` one (the partition still holds). -/
theorem slices_connector_counterexample :
    commentCodeSlices? "// a  ".toList =
      some [⟨.normal, 0, []⟩, ⟨.comment, 0, "// a".toList⟩, ⟨.normal, 4, "  ".toList⟩] := by
  decide

/-! ## 2. The payload (`CommentReducer`) -/

/-- Re-indentation and trailing blanks are invisible to `CommentReducer`: two comment bodies whose
lines agree after stripping leading and trailing blanks have the same payload (line comments:
`blk = false`, block comments: `blk = true`). -/
theorem payload_reindent_invariant (blk : Bool) (a b : List Char)
    (h : (splitNl a).map stripLine = (splitNl b).map stripLine) :
    reduce blk .firstLine a = reduce blk .firstLine b :=
  reduce_strip_invariant blk a b h

example : (splitNl " a\n * b  \n".toList).map stripLine =
    (splitNl " a   \n        * b\n".toList).map stripLine := by decide

/-- The same for whole terminated block comments `/*body*/`. -/
theorem payload_block_reindent (a b : List Char)
    (ha1 : startsWith a ['*'] = false) (ha2 : startsWith a ['!'] = false)
    (hb1 : startsWith b ['*'] = false) (hb2 : startsWith b ['!'] = false)
    (h : (splitNl a).map stripLine = (splitNl b).map stripLine) :
    payload? ('/' :: '*' :: (a ++ ['*', '/'])) = payload? ('/' :: '*' :: (b ++ ['*', '/'])) := by
  simp only [payload?, removeCommentHeader_block a ha1 ha2, removeCommentHeader_block b hb1 hb2,
    Option.map_some]
  simp [startsWith, reduce_strip_invariant true a b h]

example : payload? "/* a\n     * b */".toList = payload? "/* a  \n * b */".toList := by decide

/-- A non-doc line comment: the payload is the body without white space. -/
theorem payload_line_spec (body : List Char)
    (h1 : startsWith body ['/'] = false) (h2 : startsWith body ['!'] = false) :
    payload? ('/' :: '/' :: body) = some (body.filter fun c => !isWs c) := by
  have : removeCommentHeader? ('/' :: '/' :: body) = some body := by
    cases body with
    | nil => decide
    | cons c cs =>
      have hc1 : (c == '/') = false := by simpa [startsWith] using h1
      have hc2 : (c == '!') = false := by simpa [startsWith] using h2
      simp [removeCommentHeader?, startsWith, hc1, hc2]
  simp [payload?, this, startsWith, reduce_line_comment]

example : payload? "// a  b\t".toList = some "ab".toList := by decide

/-- A terminated block comment without `*` in its body: the payload is the body without white
space. -/
theorem payload_block_spec_partial (body : List Char) (hstar : ∀ c ∈ body, c ≠ '*')
    (h2 : startsWith body ['!'] = false) :
    payload? ('/' :: '*' :: (body ++ ['*', '/'])) = some (body.filter fun c => !isWs c) := by
  have h1 : startsWith body ['*'] = false := by
    cases body with
    | nil => rfl
    | cons c cs => simpa [startsWith] using hstar c (by simp)
  simp [payload?, removeCommentHeader_block body h1 h2, startsWith,
    reduce_no_star true body .firstLine hstar]

/-- The full-strength statement (without the hypothesis on `*`) is false: `at_start_line` is never
cleared, so after the first line every `*` that does not follow another `*` is skipped. -/
theorem payload_block_spec_counterexample :
    payload? "/*\n a * b */".toList = some "ab".toList := by decide

/-- Where the payload is the non-blank characters, dropping any non-blank character of a comment
changes it — the safety net notices. -/
theorem payload_detects_removal_partial (blk : Bool) (x y : List Char) (c : Char)
    (hc : isWs c = false) (hstar : ∀ d ∈ x ++ c :: y, d ≠ '*') :
    reduce blk .firstLine (x ++ c :: y) ≠ reduce blk .firstLine (x ++ y) := by
  rw [reduce_no_star blk _ _ hstar,
    reduce_no_star blk _ _ (fun d hd => hstar d (by
      rcases List.mem_append.mp hd with h | h
      · exact List.mem_append.mpr (Or.inl h)
      · exact List.mem_append.mpr (Or.inr (List.mem_cons_of_mem _ h))))]
  exact filter_erase_ne x y c hc

example : reduce true .firstLine "\n a b".toList ≠ reduce true .firstLine "\n a ".toList := by decide

/-- In general it does not: a `*` inside a later line of a block comment can be dropped unnoticed. -/
theorem payload_detects_removal_counterexample :
    reduce true .firstLine "\n a * b".toList = reduce true .firstLine "\n a  b".toList := by decide

/-- Line comments have no such blind spot. -/
theorem payload_line_detects_removal (x y : List Char) (c : Char) (hc : isWs c = false) :
    reduce false .firstLine (x ++ c :: y) ≠ reduce false .firstLine (x ++ y) := by
  rw [reduce_line_comment, reduce_line_comment]
  exact filter_erase_ne x y c hc

/-- The payload of a comment that says something is never empty — whatever its opener looks like
(`/*`, `/**`, `/***…`, `/*!`): a terminated block comment whose body has a character that is
neither white space nor `/ * !` yields at least that character.  So the safety net cannot take
"the comment is gone" for "nothing changed".  (rustc_lexer calls `/***…` and `/**/` ordinary
comments although they begin like doc comments; `rfverif c03` checks the real
`changed_comment_content(comment, "")` on every such comment through the oracle `dropIsNoticed`.) -/
theorem payload_nonempty_of_text_block (body : List Char) (c : Char) (hc : c ∈ body)
    (ht : isText c = true) :
    ∃ p, payload? ('/' :: '*' :: (body ++ ['*', '/'])) = some p ∧ p ≠ [] := by
  obtain ⟨b', hb, hkeep⟩ := removeCommentHeader_block_text body
  simp only [payload?, hb, Option.map_some]
  exact ⟨_, rfl, reduce_yields_text _ b' _ c (hkeep c hc ht) ht⟩

/-- The same for line comments (`//`, `///`, `////…`, `//!`). -/
theorem payload_nonempty_of_text_line (body : List Char) (c : Char) (hc : c ∈ body)
    (ht : isText c = true) :
    ∃ p, payload? ('/' :: '/' :: body) = some p ∧ p ≠ [] := by
  obtain ⟨b', hb, hkeep⟩ := removeCommentHeader_line_text body
  simp only [payload?, hb, Option.map_some]
  exact ⟨_, rfl, reduce_yields_text _ b' _ c (hkeep c hc ht) ht⟩

example : payload? "/*** c03 banner ***/".toList = some "*c03banner**".toList := by decide
example : payload? "/****\n * boxed *\n ****/".toList = some "**boxed*".toList := by decide

/-- Without text the payload can be empty: such comments (`/**/`, `/***/`, a bare gutter) are
invisible to the safety net, which is why they can vanish at the positions it guards (finding
C03-E1). -/
theorem payload_empty_counterexample :
    payload? "/**/".toList = some [] ∧ payload? "/***/".toList = some [] ∧
    payload? "/*\n *\n */".toList = some [] ∧ payload? "//".toList = some [] := by decide

/-- The oracle on the real `changed_comment_content(comment, "")`: accepted exactly when a comment
with text is reported as a change. -/
theorem dropIsNoticed_iff (comment : List Char) (changed : Bool) :
    dropIsNoticed comment changed = true ↔ (hasText comment = true → changed = true) := by
  cases h : hasText comment <;> cases changed <;> simp [dropIsNoticed, h]

example : dropIsNoticed "/*** c ***/".toList false = false := by decide
example : dropIsNoticed "/**/".toList false = true := by decide

/-! ## 3. The safety net -/

/-- `changed_comment_content` answers "unchanged" exactly when both comment payloads can be
computed and are equal. -/
theorem changed_content_iff (orig new : List Char) :
    changedCommentContent? orig new = some false ↔
      (commentPayload? orig).isSome ∧ commentPayload? orig = commentPayload? new :=
  changed_false_iff orig new

/-- `recover_comment_removed(new, span)` returns the source text of the span, or `new` with the
same comment payload as the source; a `LostComment` error is reported only together with the
source text and only under `error_on_unformatted`. -/
theorem safety_net_sound (new orig r : List Char) (eou lost : Bool)
    (h : recoverCommentRemoved? new orig eou = some (r, lost)) :
    (r = orig ∧ (lost = true → eou = true)) ∨
    (r = new ∧ lost = false ∧ (commentPayload? orig).isSome ∧
      commentPayload? orig = commentPayload? new) := by
  unfold recoverCommentRemoved? at h
  split at h
  · rename_i heq
    simp only [Option.some.injEq, Prod.mk.injEq] at h
    exact Or.inl ⟨by rw [← h.1, heq], by simp [← h.2]⟩
  · split at h
    · simp at h
    · simp only [Option.some.injEq, Prod.mk.injEq] at h
      exact Or.inl ⟨h.1.symm, by intro hl; rw [h.2]; exact hl⟩
    · rename_i hch
      simp only [Option.some.injEq, Prod.mk.injEq] at h
      obtain ⟨h1, h2⟩ := (changed_false_iff orig new).mp hch
      exact Or.inr ⟨h.1.symm, h.2.symm, h1, h2⟩

example : recoverCommentRemoved? "x".toList "x /* a */".toList true = some ("x /* a */".toList, true) := by
  decide
example : recoverCommentRemoved? "x  /*a*/".toList "x /* a */".toList true = some ("x  /*a*/".toList, false) := by
  decide

/-- The net fires (source kept) exactly when the texts differ and the payloads differ or cannot be
computed; here for the case where both can. -/
theorem safety_net_fires_iff (new orig : List Char) (eou : Bool)
    (ho : (commentPayload? orig).isSome) (hn : (commentPayload? new).isSome) :
    recoverCommentRemoved? new orig eou =
      if orig ≠ new ∧ commentPayload? orig ≠ commentPayload? new then some (orig, eou)
      else some (new, false) := by
  unfold recoverCommentRemoved?
  by_cases heq : orig = new
  · simp [heq]
  · simp only [heq, if_false, ne_eq, not_false_eq_true, true_and]
    by_cases hp : commentPayload? orig = commentPayload? new
    · have := (changed_false_iff orig new).mpr ⟨ho, hp⟩
      simp [this, hp]
    · have hne : changedCommentContent? orig new ≠ some false := fun h =>
        hp ((changed_false_iff orig new).mp h).2
      -- both payloads exist, so the comparison does not panic
      obtain ⟨a, ha⟩ := Option.isSome_iff_exists.mp (ungrouped_isSome orig)
      obtain ⟨b, hb⟩ := Option.isSome_iff_exists.mp (ungrouped_isSome new)
      obtain ⟨la, hla⟩ := Option.isSome_iff_exists.mp ho
      obtain ⟨lb, hlb⟩ := Option.isSome_iff_exists.mp hn
      simp only [commentPayload?, ha, hb] at hla hlb
      have ea := (sequence_eq_some _ _).mp hla
      have eb := (sequence_eq_some _ _).mp hlb
      have hsome : ∃ r, streamsEq? (contentEvents a) (contentEvents b) = some r := by
        rw [ea, eb]; exact streamsEq_total la lb
      obtain ⟨r, hr⟩ := hsome
      have hch : changedCommentContent? orig new = some (!r) := by
        simp [changedCommentContent?, ha, hb, hr]
      cases r with
      | true => exact absurd hch hne
      | false => simp [hch, hp]

/-- The full-strength reading "if the net lets the rewrite through, every comment character of the
source is in the rewrite" is false of the code: the payload is blind to `*` (section 2). -/
theorem safety_net_text_counterexample :
    recoverCommentRemoved? "/*\n a  b */".toList "/*\n a * b */".toList true =
      some ("/*\n a  b */".toList, false) := by decide

/-! ## 4. The oracles that judge the formatter's output -/

theorem commentsPreserved_iff (ins outs : List (List Char)) :
    commentsPreserved ins outs = true ↔ ins.map normComment = outs.map normComment := by
  simp [commentsPreserved]

theorem commentsPreserved_refl (ins : List (List Char)) : commentsPreserved ins ins = true := by
  simp [commentsPreserved]

theorem commentsPreserved_trans (a b c : List (List Char))
    (h1 : commentsPreserved a b = true) (h2 : commentsPreserved b c = true) :
    commentsPreserved a c = true := by
  rw [commentsPreserved_iff] at *
  exact h1.trans h2

/-- Re-indenting the lines of a comment, or changing their trailing blanks, is accepted: putting
blanks `p` before and `q` after every line (or removing them) leaves the normal form unchanged. -/
theorem normComment_reindent (ls : List (List Char)) (p q : List Char) (hne : ls ≠ [])
    (hnl : ∀ l ∈ ls, ∀ c ∈ l, c ≠ '\n')
    (hp : ∀ c ∈ p, isPad c = true) (hq : ∀ c ∈ q, isPad c = true) :
    normComment (joinNl (ls.map fun l => p ++ l ++ q)) = normComment (joinNl ls) := by
  have hnl' : ∀ l ∈ ls.map (fun l => p ++ l ++ q), ∀ c ∈ l, c ≠ '\n' := by
    intro l hl c hc
    obtain ⟨l0, hl0, rfl⟩ := List.mem_map.mp hl
    rcases List.mem_append.mp hc with h | h
    · rcases List.mem_append.mp h with h | h
      · exact isPad_ne_nl (hp c h)
      · exact hnl l0 hl0 c h
    · exact isPad_ne_nl (hq c h)
  simp only [normComment]
  rw [splitNl_joinNl _ (by simpa using hne) hnl', splitNl_joinNl _ hne hnl, List.map_map]
  apply List.map_congr_left
  intro l _
  exact stripLine_pads p l q hp hq

theorem commentsPreserved_reindent (ls : List (List Char)) (p q : List Char) (hne : ls ≠ [])
    (hnl : ∀ l ∈ ls, ∀ c ∈ l, c ≠ '\n')
    (hp : ∀ c ∈ p, isPad c = true) (hq : ∀ c ∈ q, isPad c = true) :
    commentsPreserved [joinNl ls] [joinNl (ls.map fun l => p ++ l ++ q)] = true := by
  rw [commentsPreserved_iff]
  simp only [List.map_cons, List.map_nil]
  rw [normComment_reindent ls p q hne hnl hp hq]

example : commentsPreserved ["/* a\n * b\n */".toList] ["/* a  \n         * b\n         */".toList] = true := by
  decide

/-- The oracle and the payload agree: comments (bodies) the oracle identifies have the same
`CommentReducer` payload. -/
theorem normComment_payload (blk : Bool) (a b : List Char) (h : normComment a = normComment b) :
    reduce blk .firstLine a = reduce blk .firstLine b :=
  reduce_strip_invariant blk a b h

theorem commentsPreserved_length (ins outs : List (List Char))
    (h : commentsPreserved ins outs = true) : ins.length = outs.length := by
  rw [commentsPreserved_iff] at h
  simpa using congrArg List.length h

/-- A dropped comment is rejected, whichever it is … -/
theorem commentsPreserved_rejects_drop (ins : List (List Char)) (i : Nat) (hi : i < ins.length) :
    commentsPreserved ins (ins.eraseIdx i) = false := by
  cases h : commentsPreserved ins (ins.eraseIdx i)
  · rfl
  · have := commentsPreserved_length _ _ h
    rw [List.length_eraseIdx_of_lt hi] at this
    omega

/-- … and so is a duplicated one ("exactly once"). -/
theorem commentsPreserved_rejects_dup (ins : List (List Char)) (c : List Char) :
    commentsPreserved ins (c :: ins) = false := by
  cases h : commentsPreserved ins (c :: ins)
  · rfl
  · have := commentsPreserved_length _ _ h
    simp at this

/-- A changed non-blank character of a one-line comment is rejected too. -/
example : commentsPreserved ["// abc".toList] ["// abd".toList] = false := by decide
/-- … and so is a swap of two comments (order matters). -/
example : commentsPreserved ["// a".toList, "// b".toList] ["// b".toList, "// a".toList] = false := by
  decide

theorem commentsPreservedUnordered_refl (ins : List (List Char)) :
    commentsPreservedUnordered ins ins = true := by
  simp [commentsPreservedUnordered]

example : commentsPreservedUnordered ["// a".toList, "// b".toList] ["// b".toList, "// a ".toList] = true := by
  decide
example : commentsPreservedUnordered ["// a".toList, "// b".toList] ["// b".toList] = false := by
  decide

theorem wordsPreserved_iff (ins outs : List (List Char)) :
    wordsPreserved ins outs = true ↔
      (ins.flatMap commentWords).Sublist (outs.flatMap commentWords) := by
  simp [wordsPreserved, List.isSublist_iff_sublist]

theorem wordsPreserved_refl (ins : List (List Char)) : wordsPreserved ins ins = true := by
  rw [wordsPreserved_iff]; exact List.Sublist.refl _

theorem wordsPreserved_trans (a b c : List (List Char))
    (h1 : wordsPreserved a b = true) (h2 : wordsPreserved b c = true) :
    wordsPreserved a c = true := by
  rw [wordsPreserved_iff] at *
  exact h1.trans h2

/-- A word of an input comment that occurs in no output comment is reported. -/
theorem wordsPreserved_rejects_missing (ins outs : List (List Char)) (w : List Char)
    (hin : w ∈ ins.flatMap commentWords) (hout : w ∉ outs.flatMap commentWords) :
    wordsPreserved ins outs = false := by
  cases h : wordsPreserved ins outs
  · rfl
  · rw [wordsPreserved_iff] at h
    exact absurd (h.subset hin) hout

/-- Wrapping and normalising keep the words: `/* a b c */` → `// a b` / `// c`. -/
example : wordsPreserved ["/* c03m1 alpha beta */".toList] ["// c03m1 alpha".toList, "// beta".toList] = true := by
  decide
example : wordsPreserved ["/* c03m1 alpha beta */".toList] ["// c03m1 alpha".toList] = false := by
  decide
/-- The pinned tree's defect W2 as the oracle sees it (the last words end up outside comments). -/
example : wordsPreserved ["/* a b */".toList, "// d e f".toList] ["/* a\n * b */".toList, "// d e".toList] = false := by
  decide

/-! ## 5. `find_uncommented` (used by the list machinery to find separators and terminators) -/

/-- A separator inside a comment is not found; the one outside is. -/
example : findUncommented "a /* , */ , b".toList [','] = some 10 := by decide
example : findUncommented "a // , \n".toList [','] = none := by decide

/-- Quirk: after a partial match the needle restarts at the *next* character, so an occurrence
that overlaps a failed attempt is missed (only multi-character patterns, e.g. `=>` or `..`). -/
theorem findUncommented_overlap_counterexample :
    findUncommented "==>".toList "=>".toList = none := by decide

/-- `find_uncommented` returns a position at which the whole pattern fits into the text. -/
theorem find_uncommented_in_bounds (s pat : List Char) (r : Nat)
    (h : findUncommented s pat = some r) : r + utf8Len pat ≤ utf8Len s :=
  findUncommented_bound s pat r h

/-- `get_comment_end` (the byte at which the post-comment zone of a list item ends and the
pre-comment zone of the next item begins) never points past the end of the gap between the two
items, whatever the gap contains: the two zones cover the gap. -/
theorem get_comment_end_in_bounds (post sep term : List Char) (isLast : Bool) (n : Nat)
    (hsep : sep ≠ []) (h : getCommentEnd? post sep term isLast = some n) : n ≤ utf8Len post :=
  getCommentEnd_le post sep term isLast n hsep h

example : getCommentEnd? ", // c\n    ".toList [','] [')'] false = some 7 := by decide
example : getCommentEnd? " /* c */, ".toList [','] [')'] false = some 9 := by decide
/-- It can panic (`find_comment_end(..).unwrap()`): a separator, then a block comment that is not
terminated inside the gap, then a newline — not reachable from parsed source, where the gap ends
before the next item and comments are terminated. -/
theorem get_comment_end_panic_counterexample :
    getCommentEnd? ", /* c \n".toList [','] [')'] false = none := by decide

/-! ## 6. `CharClasses` against a declarative lexer specification

`RF.LexSpec` describes a text generatively, from the Rust reference: a list of tokens (code
characters, line and nested block comments, string / raw string / character literals) and the
characters they render to, with the side conditions (`WF`) under which that list is the lexer's
reading of the text.  `rfverif c03` feeds it the tokens `rustc_lexer` finds in fixture files and
random texts and compares `commentFlags` with the lexer's comment spans. -/

open RF.LexSpec in
/-- On every well-formed token list `CharClasses` tags as comment exactly the characters of the
comment tokens (plus the newline that ends a line comment, which the specification counts as
part of it).  "Partial": `WF` excludes a `"` inside a block comment, raw identifiers and an
identifier ending in `r` right before a quote or `#` — the shapes of the counterexamples below. -/
theorem charClasses_agrees_lexSpec_partial (ts : List Token) (h : WF ts = true) :
    (classes (render ts)).map (·.1.isComment) = commentFlags ts :=
  RF.Lemmas.LexSpec.classes_flags ts h

open RF.LexSpec in
/-- In particular no comment character is hidden from the comment machinery (taken for code or
for a string literal), and no code character is taken for a comment. -/
theorem charClasses_never_hides_comment_partial (ts : List Token) (h : WF ts = true) (i : Nat)
    (hi : i < (commentFlags ts).length) :
    ((classes (render ts)).map (·.1.isComment))[i]? = some ((commentFlags ts)[i]) := by
  rw [charClasses_agrees_lexSpec_partial ts h]
  exact List.getElem?_eq_getElem hi

open RF.LexSpec in
example : WF [.code 'x', .code ' ', .blockComment (scanEvents "a /* n */ * b */".toList), .code ' ',
    .str (scanItems "s\\\"//".toList), .code ' ', .rawStr 1 "a\"b".toList, .code ' ', .chrEsc '\'' [],
    .code '<', .code '\'', .code 'a', .code '>', .lineComment " c".toList true] = true := by decide

open RF.LexSpec in
/-- Without the hypothesis the statement is false.  A `"` inside a block comment makes
`CharClasses` ignore a nested `/*`: it closes the comment one `*/` early, takes the next `"` for
the start of a string literal, and the line comment that follows is hidden inside that "string". -/
theorem charClasses_hides_comment_counterexample :
    let ts : List Token := [.blockComment (scanEvents " \"/* */\" */".toList), .code ' ',
      .lineComment " c".toList false]
    render ts = "/* \"/* */\" */ // c".toList ∧
    (commentFlags ts).drop 14 = [true, true, true, true] ∧
    ((classes (render ts)).map (·.1.isComment)).drop 14 = [false, false, false, false] := by
  decide

/-- A raw identifier is taken for the start of a raw string (no comment is affected, but the line
counts as "contains a string literal": C07's finding F19). -/
theorem charClasses_raw_identifier_counterexample :
    (classes "r#type".toList).map (·.1) = [.inString, .inString, .inString, .normal, .normal, .normal] := by
  decide

end RF.Props.C03
