//! C05: a failing run never damages source files.
//!
//! Generated crates on disk (module trees of depth <= 4: `x.rs` and `x/mod.rs` layouts, `#[path]`
//! targets, modules declared in `cfg_if!` bodies; every file deliberately unformatted, a few already
//! formatted), one fault per case (kind x position x emit mode), a healthy root before and/or after
//! the faulty one on the same command line, run through the real `rustfmt` binary.
//!   * oracles taken from the property, independent of the model: every byte of the faulty root's
//!     tree unchanged (the whole directory is compared, not a hash), exit status 1, stderr non-empty,
//!     the healthy root formatted (files modes), any file that changed holds exactly the text that
//!     formatting that file alone gives, nothing but `.bk` files appears;
//!   * correspondence: `proj.cli` of the Lean model, fed with the same crates (ids in `FileName`
//!     order), predicts exit status, session flags, per-root report and the effect log; the
//!     implementation side is assembled from the binary (exit status, what happened on disk) and from
//!     the same command line replayed through the public API in a child process (report flags,
//!     session flags, number of paths processed); the two disk images must agree as well.
//! Enumerated probes of inputs known to be dirty on the pinned tree: F18 (lexer-fatal error in a root:
//! exit 101), D1 (a root whose local configuration fails to load aborts the loop), D3 (syntax error in
//! a root on the `ignore` list: exit 1 without any diagnostic), D4 and D5 (repaired: a stashed parser error after
//! an ignored file with a recoverable one; a nested-path candidate that does not parse), and the informational
//! OPTOUT and W1 probes.
//!
//! Added with the error-bookkeeping model (RF/Model/ParseErrors.lean): fault CLASSES (what the rustc parser
//! does on the text: recoverable / stashed / warning / unrecoverable / unclosed / lexer-fatal, each measured on
//! the pinned tree), `ignore` lists in four spellings x class of the ignored file x class of a file that is not
//! ignored x which is parsed first x position; modules declared with nested paths
//! (`#[cfg_attr(pred, path = "..")] mod m;`) x where the fault sits x default file present or not x last module
//! or not; and two in-process correspondences of `perr.run` against the real `DiagCtxt` +
//! `SilentOnIgnoredFilesEmitter` + `can_reset` (synthetic diagnostics, exhaustive up to length 3) and against
//! `Parser::parse_crate` / `parse_file_as_module` on real files in one session.
use std::collections::BTreeMap;
use std::path::{Path, PathBuf};
use std::process::Command;
use std::time::Duration;

use serde_json::{json, Value};

use crate::pool::{self, Job};
use crate::sessrun;
use crate::util::*;

// ------------------------------------------------------------------------------------------ crates

#[derive(Clone, Copy, PartialEq, Eq, Debug)]
pub enum Decl {
    Plain,
    PathAttr,
    CfgIf,
    /// `#[cfg_attr(pred, path = "alt.rs")] mod m;`: this node is the default file, `alts` are the candidates
    CfgAttr,
    /// a candidate file of a `CfgAttr` declaration (listed in the declaring node's `alts`, not in `children`)
    CfgAlt,
}

#[derive(Clone, Copy, PartialEq, Eq, Debug)]
pub enum FileFault {
    Lex(usize),
    LexFatal(usize),
    Unclosed(usize),
    Syntax(usize),
    /// a syntax error the rustc parser recovers from: it reports it and returns the module
    Recoverable(usize),
    /// a syntax error that makes `parse_mod` return `Err`
    Unrecoverable(usize),
    /// valid Rust on which the rustc parser prints a warning
    Warning(usize),
    /// a syntax error the rustc parser stashes
    Stashed(usize),
}

pub const LEX: &[&str] = &["fn  lexbad(){ let c = 'a; }", "fn  lexbad(){ let x = 0x; }", "fn  lexbad(){ let x = 1 \\ 2; }", "fn  lexbad(){ let x = ''; }"];
/// errors on which rustc's lexer raises `FatalError` (the last one is completed with a non-UTF-8 byte)
pub const LEXFATAL: &[&str] = &["fn  lf(){ let s = \"abc; }", "fn  lf(){ let s = b'a; }", "/* unterminated block comment", "fn  lf(){ let s = r#\"abc; }", "fn  lf(){ let s = b\"abc; }", "// not utf-8: "];
pub const LEXFATAL_NAMES: &[&str] = &["unterminated-string", "unterminated-byte-char", "unterminated-block-comment", "unterminated-raw-string", "unterminated-byte-string", "not-utf8"];
pub const UNCLOSED: &[&str] = &["fn  unclosed(){ let x = 1;", "struct  U { a: u32,", "mod  inl { fn  g(){}"];
pub const SYNTAX: &[&str] = &["fn  fn  synbad(){}", "struct  S { a: }", "fn  synbad(){ let = ; }"];
/// each of these was measured on the pinned tree: alone in an ignored module the run succeeds (the parser
/// returns `Ok` and the error is reset), in a module that is not ignored it fails
pub const RECOVERABLE: &[&str] = &[
    "fn  rec(){ let x = ; }",
    "struct  RecS { a: }",
    "fn  rec(){ let x = 1 }",
    "fn  rec(){ let a = 1; let b = a +; }",
    "struct  RecS { a: u32 b: u32 }",
    "fn  rec(a: u32 b: u32) {}",
    "enum  RecE { A B }",
    "fn  rec(){ foo(1 2); }",
    "fn  rec(){ x.; }",
    "fn  rec(){ let x: = 1; }",
    "fn  rec(){ a b }",
    "fn  rec(){ let mut = 1; }",
    "fn  rec(){ match x { 1 => } }",
    "fn  rec(){ x = = 1; }",
    "fn  rec(){ let x = 1 let y = 2; }",
    "fn  rec(){ x++; }",
    "fn  rec(){ a === b; }",
    "fn  rec(){ let x = 1, y = 2; }",
    "struct  RecS { pub pub a: u8 }",
    "fn  rec(u32) {}",
    "fn  rec(){ let x = 0x; }",
    "fn  rec(){ let c = ''; }",
    "fn  rec(){ match 1 { 1 + 1 => {} } }",
    "fn  rec(){ let c = 'ab'; }",
];
/// measured: alone in an ignored module the run still fails (`parse_mod` returns `Err`)
pub const UNRECOVERABLE: &[&str] = &[
    "fn  fn  unrec(){}",
    "pub fn  unrec() -> { }",
    "pub pub fn  unrec() {}",
    "impl { }",
    "const UNREC: u32 = ;",
    "use a::;",
    "type Unrec = ;",
];
/// errors the rustc parser *stashes* instead of emitting (it returns `Ok`): they count for `has_errors()` but
/// reach the emitter only when the stash is emitted (finding D4: before the repair they never did)
pub const STASHED: &[&str] = &["static  STASHED = 1;", "const  STASHED = 1;", "fn  stashed(){ let _ = x.f::<u8>; }", "static mut  STASHED = 1;"];
/// valid Rust with a parser warning (`multiple lines skipped by escaped newline`, `suffixes on a tuple index are invalid`)
pub const WARNING: &[&str] = &["fn  warn(){ let s = \"a\\\n\n\n   b\"; }", "fn  warn(){ let t = (1,2); t.1u32; }"];

pub fn fault_class(f: FileFault) -> &'static str {
    match f {
        FileFault::Lex(_) => "r",
        FileFault::LexFatal(_) => "f",
        FileFault::Unclosed(_) => "x",
        FileFault::Syntax(k) => if k % SYNTAX.len() == 0 { "u" } else { "r" },
        FileFault::Recoverable(_) => "r",
        FileFault::Unrecoverable(_) => "u",
        FileFault::Warning(_) => "w",
        FileFault::Stashed(_) => "s",
    }
}

#[derive(Clone, Copy, PartialEq, Eq, Debug)]
pub enum ModFault {
    Missing,
    Both,
    PathMissing,
}

#[derive(Clone, Debug)]
pub struct Bogus {
    pub kind: ModFault,
    pub in_cfg_if: bool,
    /// position among the `mod` declarations of the file
    pub at: usize,
}

#[derive(Clone, Debug)]
pub struct Node {
    pub name: String,
    pub decl: Decl,
    pub modrs: bool,
    pub children: Vec<usize>,
    pub want_formatted: bool,
    pub skip_attr: bool,
    pub fault: Option<FileFault>,
    pub fault_at: usize,
    pub bogus: Option<Bogus>,
    pub long_call: bool,
    /// `Decl::CfgAttr`: the nested-path candidates, in attribute order
    pub alts: Vec<usize>,
    /// `Decl::CfgAttr`: there is no default file (`m.rs` / `m/mod.rs` do not exist): the node has no file
    pub absent: bool,
    // filled by `layout`
    pub rel: PathBuf,
    pub file_dir: PathBuf,
    pub child_dir: PathBuf,
    pub attr_path: String,
    pub bytes: Vec<u8>,
    /// the complete text formatting this file alone gives (None: it does not parse)
    pub expected: Option<String>,
    /// the job that formats this (healthy) file alone did not come back clean (timeout, worker trouble): what
    /// the file should become is not known, a change of it is inconclusive
    pub expected_unknown: bool,
    pub id: usize,
}

#[derive(Clone, Copy, PartialEq, Eq, Debug)]
pub enum TomlState {
    /// no file, or one that loads
    Loads,
    /// malformed TOML or a value of the wrong type: `load_config` returns `Err`
    Unloadable,
    VersionMismatch,
    BadIgnoreGlob,
}

#[derive(Clone, Debug)]
pub struct Crate {
    /// arena, 0 = the root file
    pub nodes: Vec<Node>,
    pub dir: String,
    pub root_file: String,
    pub toml: Option<String>,
    /// formatting options in effect (for the single-file expectation)
    pub cfg: Vec<(String, String)>,
    pub toml_state: TomlState,
    pub skip_children: bool,
    pub disable_all: bool,
    pub ignored: Vec<usize>,
    pub extra_files: Vec<(PathBuf, Vec<u8>)>,
}

#[derive(Clone, Debug)]
pub enum Root {
    Crate(Crate),
    /// a path that does not exist
    Missing(String),
    /// a path that is a directory (created empty)
    Dir(String),
}

fn new_node(name: String, decl: Decl, rng: &mut Rng) -> Node {
    Node {
        name,
        decl,
        modrs: rng.chance(1, 2),
        children: vec![],
        want_formatted: rng.chance(1, 6),
        skip_attr: false,
        fault: None,
        fault_at: rng.below(4),
        bogus: None,
        long_call: rng.chance(1, 2),
        alts: vec![],
        absent: false,
        rel: PathBuf::new(),
        file_dir: PathBuf::new(),
        child_dir: PathBuf::new(),
        attr_path: String::new(),
        bytes: vec![],
        expected: None,
        expected_unknown: false,
        id: 0,
    }
}

fn depth_of(nodes: &[Node], idx: usize) -> usize {
    // depth of the subtree below idx (0 for a leaf)
    nodes[idx].children.iter().map(|c| 1 + depth_of(nodes, *c)).max().unwrap_or(0)
}

fn grow(nodes: &mut Vec<Node>, parent: usize, level: usize, depth: usize, rich: bool, tag: &str, rng: &mut Rng) {
    if level >= depth {
        return;
    }
    let n = if level == 0 {
        if rich { rng.range(2, 4) } else { rng.range(1, 2) }
    } else {
        [0, 1, 1, 2][rng.below(4)]
    };
    for _ in 0..n {
        let decl = match rng.below(5) {
            0 => Decl::PathAttr,
            1 => Decl::CfgIf,
            _ => Decl::Plain,
        };
        let idx = nodes.len();
        let name = format!("{}{}", tag, idx);
        nodes.push(new_node(name, decl, rng));
        nodes[parent].children.push(idx);
        if decl != Decl::PathAttr {
            grow(nodes, idx, level + 1, depth, rich, tag, rng);
        }
    }
}

/// `rich`: at least three modules, one `#[path]` target, one `cfg_if!` module, a chain of depth `depth`
pub fn gen_crate(rng: &mut Rng, dir: &str, tag: &str, depth: usize, rich: bool) -> Crate {
    let mut nodes = vec![new_node("root".into(), Decl::Plain, rng)];
    grow(&mut nodes, 0, 0, depth, rich, tag, rng);
    if rich {
        for want in [Decl::PathAttr, Decl::CfgIf] {
            if !nodes.iter().skip(1).any(|n| n.decl == want) {
                let hosts: Vec<usize> = (0..nodes.len()).filter(|i| nodes[*i].decl != Decl::PathAttr).collect();
                let host = *rng.pick(&hosts);
                let idx = nodes.len();
                nodes.push(new_node(format!("{}{}", tag, idx), want, rng));
                nodes[host].children.push(idx);
            }
        }
        // a chain down to `depth`
        while depth_of(&nodes, 0) < depth {
            // deepest node that may have children
            let mut best = (0usize, 0usize);
            let mut stack = vec![(0usize, 0usize)];
            while let Some((i, d)) = stack.pop() {
                if nodes[i].decl != Decl::PathAttr && d >= best.1 {
                    best = (i, d);
                }
                for c in &nodes[i].children {
                    stack.push((*c, d + 1));
                }
            }
            let idx = nodes.len();
            nodes.push(new_node(format!("{}{}", tag, idx), Decl::Plain, rng));
            nodes[best.0].children.push(idx);
        }
        while nodes.len() < 4 {
            let idx = nodes.len();
            nodes.push(new_node(format!("{}{}", tag, idx), Decl::Plain, rng));
            nodes[0].children.push(idx);
        }
    }
    let (toml, cfg): (Option<String>, Vec<(String, String)>) = match rng.below(5) {
        0 => (Some("tab_spaces = 2\n".into()), vec![("tab_spaces".into(), "2".into())]),
        1 => (Some("max_width = 60\n".into()), vec![("max_width".into(), "60".into())]),
        2 => (Some("hard_tabs = true\n".into()), vec![("hard_tabs".into(), "true".into())]),
        _ => (None, vec![]),
    };
    Crate {
        nodes,
        dir: dir.into(),
        root_file: if rng.chance(1, 2) { "main.rs".into() } else { "lib.rs".into() },
        toml,
        cfg,
        toml_state: TomlState::Loads,
        skip_children: false,
        disable_all: false,
        ignored: vec![],
        extra_files: vec![],
    }
}

impl Crate {
    /// non-root nodes in the order module resolution visits them (depth first, declaration order)
    pub fn visit_order(&self) -> Vec<usize> {
        fn go(c: &Crate, i: usize, out: &mut Vec<usize>) {
            for ch in &c.nodes[i].children {
                out.extend(c.nodes[*ch].alts.iter().copied());
                if !c.nodes[*ch].absent {
                    out.push(*ch);
                }
                go(c, *ch, out);
            }
        }
        let mut out = vec![];
        go(self, 0, &mut out);
        out
    }

    fn level(&self, idx: usize) -> usize {
        fn go(c: &Crate, i: usize, target: usize, d: usize) -> Option<usize> {
            if i == target {
                return Some(d);
            }
            c.nodes[i].children.iter().find_map(|ch| go(c, *ch, target, d + 1))
        }
        go(self, 0, idx, 0).unwrap_or(0)
    }

    /// the node a position name designates
    pub fn at_position(&self, pos: &str) -> usize {
        let order = self.visit_order();
        match pos {
            "root" => 0,
            "v1" => order[0],
            "v2" => order[1.min(order.len() - 1)],
            "v3" => order[2.min(order.len() - 1)],
            "leaf" => {
                let mut best = order[0];
                for i in &order {
                    if self.nodes[*i].children.is_empty() && self.level(*i) >= self.level(best) {
                        best = *i;
                    }
                }
                best
            }
            "path" => *order.iter().find(|i| self.nodes[**i].decl == Decl::PathAttr).unwrap_or(&order[0]),
            "cfgif" => *order.iter().find(|i| self.nodes[**i].decl == Decl::CfgIf).unwrap_or(&order[0]),
            _ => 0,
        }
    }

    pub fn layout(&mut self) {
        fn go(c: &mut Crate, i: usize) {
            let (file_dir, child_dir) = (c.nodes[i].file_dir.clone(), c.nodes[i].child_dir.clone());
            for ch in c.nodes[i].children.clone() {
                let name = c.nodes[ch].name.clone();
                match c.nodes[ch].decl {
                    Decl::CfgAlt => {}
                    Decl::PathAttr => {
                        let attr = format!("{}_p/{}_impl.rs", name, name);
                        let rel = file_dir.join(&attr);
                        c.nodes[ch].attr_path = attr;
                        c.nodes[ch].file_dir = rel.parent().unwrap().to_path_buf();
                        c.nodes[ch].child_dir = rel.parent().unwrap().to_path_buf();
                        c.nodes[ch].rel = rel;
                    }
                    _ => {
                        if c.nodes[ch].modrs {
                            c.nodes[ch].rel = child_dir.join(&name).join("mod.rs");
                            c.nodes[ch].file_dir = child_dir.join(&name);
                        } else {
                            c.nodes[ch].rel = child_dir.join(format!("{}.rs", name));
                            c.nodes[ch].file_dir = child_dir.clone();
                        }
                        c.nodes[ch].child_dir = child_dir.join(&name);
                    }
                }
                // nested-path candidates: `self.directory.path.join(path)`, the directory of the declaring file
                for (k, alt) in c.nodes[ch].alts.clone().into_iter().enumerate() {
                    let attr = format!("{}_alt{}.rs", name, k);
                    let rel = file_dir.join(&attr);
                    c.nodes[alt].attr_path = attr;
                    c.nodes[alt].file_dir = file_dir.clone();
                    c.nodes[alt].child_dir = file_dir.clone();
                    c.nodes[alt].rel = rel;
                }
                go(c, ch);
            }
        }
        self.nodes[0].rel = PathBuf::from(&self.root_file);
        self.nodes[0].file_dir = PathBuf::new();
        self.nodes[0].child_dir = PathBuf::new();
        go(self, 0);
        // ids in `FileName` order (`Ord for PathBuf`: component-wise)
        let mut idx: Vec<usize> = (0..self.nodes.len()).collect();
        idx.sort_by(|a, b| self.nodes[*a].rel.cmp(&self.nodes[*b].rel));
        for (rank, i) in idx.iter().enumerate() {
            self.nodes[*i].id = rank;
        }
        // texts
        self.extra_files.clear();
        for i in 0..self.nodes.len() {
            let t = self.file_text(i);
            self.nodes[i].bytes = t;
        }
        for i in 0..self.nodes.len() {
            if let Some(b) = &self.nodes[i].bogus {
                if b.kind == ModFault::Both {
                    let d = self.nodes[i].child_dir.clone();
                    self.extra_files.push((d.join("zz_both.rs"), b"fn  zz_a( ){}\n".to_vec()));
                    self.extra_files.push((d.join("zz_both").join("mod.rs"), b"fn  zz_b( ){}\n".to_vec()));
                }
            }
        }
    }

    fn decl_text(&self, ch: usize) -> String {
        let n = &self.nodes[ch];
        match n.decl {
            Decl::Plain => format!("{}mod   {};", if n.id % 2 == 0 { "pub  " } else { "" }, n.name),
            Decl::PathAttr => format!("#[path = \"{}\"]\nmod   {};", n.attr_path, n.name),
            Decl::CfgIf => format!("cfg_if::cfg_if! {{ if #[cfg(unix)] {{ mod  {}; }} else {{ fn  {}_alt(){{}} }} }}", n.name, n.name),
            Decl::CfgAttr => {
                let preds = ["unix", "windows", "feature = \"alt\"", "any()", "not(unix)"];
                let mut t = String::new();
                for (k, a) in n.alts.iter().enumerate() {
                    t.push_str(&format!("#[cfg_attr({}, path = \"{}\")]\n", preds[(n.id + k) % preds.len()], self.nodes[*a].attr_path));
                }
                t.push_str(&format!("mod   {};", n.name));
                t
            }
            Decl::CfgAlt => String::new(),
        }
    }

    fn file_text(&self, i: usize) -> Vec<u8> {
        let n = &self.nodes[i];
        let mut items: Vec<String> = vec![];
        if n.skip_attr {
            items.push("#![rustfmt::skip]".into());
        }
        items.push(format!("fn  {}_f ( a :u32 )->u32{{ a+1 }}", n.name));
        let mut decls: Vec<String> = n.children.iter().map(|c| self.decl_text(*c)).collect();
        if let Some(b) = &n.bogus {
            let d = match b.kind {
                ModFault::Missing => "mod  zz_missing;".to_string(),
                ModFault::Both => "mod  zz_both;".to_string(),
                ModFault::PathMissing => "#[path = \"zz_nope/zz_path.rs\"]\nmod  zz_path;".to_string(),
            };
            let d = if b.in_cfg_if { format!("cfg_if::cfg_if! {{ if #[cfg(unix)] {{ {} }} }}", d.replace('\n', " ")) } else { d };
            decls.insert(b.at.min(decls.len()), d);
        }
        items.extend(decls);
        items.push(format!("pub struct  {}S{{pub x:u32,y:Vec<u8>}}", n.name.to_uppercase()));
        if n.long_call {
            items.push(format!("fn  {}_g(){{ let v=some_function_name(argument_number_one,argument_number_two,argument_number_three,argument_number_four,5); }}", n.name));
        }
        let mut tail: Vec<u8> = vec![];
        if let Some(f) = n.fault {
            let s = match f {
                FileFault::Lex(k) => LEX[k % LEX.len()],
                FileFault::LexFatal(k) => {
                    if k % LEXFATAL.len() == LEXFATAL.len() - 1 {
                        tail = vec![0xff, 0xfe, b'\n'];
                    }
                    LEXFATAL[k % LEXFATAL.len()]
                }
                FileFault::Unclosed(k) => UNCLOSED[k % UNCLOSED.len()],
                FileFault::Syntax(k) => SYNTAX[k % SYNTAX.len()],
                FileFault::Recoverable(k) => RECOVERABLE[k % RECOVERABLE.len()],
                FileFault::Unrecoverable(k) => UNRECOVERABLE[k % UNRECOVERABLE.len()],
                FileFault::Warning(k) => WARNING[k % WARNING.len()],
                FileFault::Stashed(k) => STASHED[k % STASHED.len()],
            };
            let unterminated = matches!(f, FileFault::LexFatal(_)) || matches!(f, FileFault::Unclosed(_));
            if unterminated || !tail.is_empty() {
                items.push(s.to_string());
            } else {
                let at = 1 + n.fault_at.min(items.len() - 1);
                items.insert(at.min(items.len()), s.to_string());
            }
        }
        let mut t = items.join("\n").into_bytes();
        if tail.is_empty() {
            t.push(b'\n');
        } else {
            t.extend(tail);
        }
        t
    }

    pub fn effective_cfg(&self) -> Vec<(String, String)> {
        self.cfg.clone()
    }

    /// what the rustc parser does on the file, in the classes of RF/Driver/Session.lean (measured per
    /// fault text on the pinned tree: every `LEX` text and two of the three `SYNTAX` texts are recovered from)
    fn parse_word(&self, i: usize) -> &'static str {
        match self.nodes[i].fault {
            None => "ok",
            Some(f) => fault_class(f),
        }
    }

    /// the crate in the encoding of RF/Driver/Session.lean
    pub fn records(&self) -> String {
        let mut recs = vec![];
        let mut order = vec![0usize];
        order.extend(self.visit_order());
        for i in order {
            let n = &self.nodes[i];
            if n.absent {
                continue;
            }
            let mut ch: Vec<String> = n
                .children
                .iter()
                .map(|c| {
                    let cn = &self.nodes[*c];
                    if cn.decl == Decl::CfgAttr {
                        let alts: Vec<String> = cn.alts.iter().map(|a| self.nodes[*a].id.to_string()).collect();
                        format!("c{}/{}", alts.join("+"), if cn.absent { "n".to_string() } else { format!("f{}", cn.id) })
                    } else {
                        format!("f{}", cn.id)
                    }
                })
                .collect();
            if let Some(b) = &n.bogus {
                let w = match b.kind {
                    ModFault::Both => "m",
                    _ => "n",
                };
                ch.insert(b.at.min(ch.len()), w.to_string());
            }
            let orig = match std::str::from_utf8(&n.bytes) {
                Ok(s) => enc_str(s),
                Err(_) => "-".into(),
            };
            let visited = match &n.expected {
                Some(e) => enc_str(e.strip_suffix('\n').unwrap_or(e)),
                None => "-".into(),
            };
            let bits = format!("{}{}000", n.skip_attr as u8, self.ignored.contains(&i) as u8);
            recs.push(format!("{}:{}:{}:0000000:{}:{}:{}", n.id, self.parse_word(i), bits, orig, visited, if ch.is_empty() { "_".to_string() } else { ch.join(",") }));
        }
        recs.join(";")
    }

    pub fn vcfg(&self) -> String {
        format!("{}{}{}{}", (self.toml_state != TomlState::VersionMismatch) as u8, self.disable_all as u8, self.skip_children as u8, (self.toml_state != TomlState::BadIgnoreGlob) as u8)
    }

    pub fn write_to(&self, base: &Path) {
        let d = base.join(&self.dir);
        std::fs::create_dir_all(&d).unwrap();
        for n in &self.nodes {
            if n.absent {
                continue;
            }
            let p = d.join(&n.rel);
            std::fs::create_dir_all(p.parent().unwrap()).unwrap();
            std::fs::write(&p, &n.bytes).unwrap();
        }
        for (rel, bytes) in &self.extra_files {
            let p = d.join(rel);
            std::fs::create_dir_all(p.parent().unwrap()).unwrap();
            std::fs::write(&p, bytes).unwrap();
        }
        if let Some(t) = &self.toml {
            std::fs::write(d.join("rustfmt.toml"), t).unwrap();
        }
    }
}

// ------------------------------------------------------------------------------------------ cases

#[derive(Clone, Copy, PartialEq, Eq, Debug)]
pub enum Mode {
    Files,
    Backup,
    Stdout,
    Check,
    Json,
    Checkstyle,
}

pub const MODES: [Mode; 6] = [Mode::Files, Mode::Backup, Mode::Stdout, Mode::Check, Mode::Json, Mode::Checkstyle];

impl Mode {
    pub fn args(self) -> Vec<&'static str> {
        match self {
            Mode::Files => vec![],
            Mode::Backup => vec!["--backup"],
            Mode::Stdout => vec!["--emit", "stdout"],
            Mode::Check => vec!["--check"],
            Mode::Json => vec!["--emit", "json"],
            Mode::Checkstyle => vec!["--emit", "checkstyle"],
        }
    }
    pub fn emitter(self) -> &'static str {
        match self {
            Mode::Files => "files",
            Mode::Backup => "filesWithBackup",
            Mode::Stdout => "stdout",
            Mode::Check => "diff",
            Mode::Json => "json",
            Mode::Checkstyle => "checkstyle",
        }
    }
    pub fn name(self) -> &'static str {
        match self {
            Mode::Files => "files",
            Mode::Backup => "files+backup",
            Mode::Stdout => "stdout",
            Mode::Check => "check",
            Mode::Json => "json",
            Mode::Checkstyle => "checkstyle",
        }
    }
    pub fn writes(self) -> bool {
        matches!(self, Mode::Files | Mode::Backup)
    }
    fn api_spec(self) -> (&'static str, bool, bool) {
        // (emit, check, backup)
        match self {
            Mode::Files => ("files", false, false),
            Mode::Backup => ("files", false, true),
            Mode::Stdout => ("stdout", false, false),
            Mode::Check => ("diff", true, false),
            Mode::Json => ("json", false, false),
            Mode::Checkstyle => ("checkstyle", false, false),
        }
    }
}

#[derive(Clone, Debug)]
pub struct Case {
    pub n: usize,
    pub kind: String,
    pub pos: String,
    pub mode: Mode,
    pub roots: Vec<Root>,
    /// index of the faulty root, if the case has one
    pub faulty: Option<usize>,
    pub abs_paths: bool,
    pub rng_state: u64,
}

pub type Snap = BTreeMap<String, Vec<u8>>;

pub fn snapshot(base: &Path) -> Snap {
    fn go(base: &Path, d: &Path, out: &mut Snap) {
        let rd = match std::fs::read_dir(d) {
            Ok(r) => r,
            Err(_) => return,
        };
        for e in rd.flatten() {
            let p = e.path();
            let ft = match e.file_type() {
                Ok(t) => t,
                Err(_) => continue,
            };
            if ft.is_dir() {
                out.insert(format!("{}/", p.strip_prefix(base).unwrap().display()), vec![]);
                go(base, &p, out);
            } else {
                out.insert(p.strip_prefix(base).unwrap().display().to_string(), std::fs::read(&p).unwrap_or_default());
            }
        }
    }
    let mut out = Snap::new();
    go(base, base, &mut out);
    out
}

pub struct Eval {
    pub exit: Option<i32>,
    pub stderr: String,
    pub stdout: Vec<u8>,
    pub timed_out: bool,
    pub before: Snap,
    pub after: Snap,
    pub api: Option<Value>,
    pub api_after: Snap,
    pub cmdline: Vec<String>,
}

pub fn rustfmt_bin() -> PathBuf {
    if let Ok(p) = std::env::var("RUSTFMT_BIN") {
        return PathBuf::from(p);
    }
    // <verif>/.build/target/debug/rfverif -> <verif>/.build/repo-target/debug/rustfmt
    let exe = std::env::current_exe().unwrap();
    exe.parent().unwrap().parent().unwrap().parent().unwrap().join("repo-target").join("debug").join("rustfmt")
}

pub fn rustfmt_cmd(cwd: &Path, home: &Path) -> Command {
    let mut c = Command::new(rustfmt_bin());
    c.current_dir(cwd).env("HOME", home).env("XDG_CONFIG_HOME", home).env_remove("RUSTFMT_CONFIG").env("NO_COLOR", "1");
    c
}

fn root_arg(r: &Root, base: &Path, abs: bool) -> String {
    let rel = match r {
        Root::Crate(c) => format!("{}/{}", c.dir, c.root_file),
        Root::Missing(p) => p.clone(),
        Root::Dir(p) => p.clone(),
    };
    if abs { base.join(&rel).display().to_string() } else { rel }
}

fn materialise(case: &Case, base: &Path) {
    std::fs::create_dir_all(base).unwrap();
    for r in &case.roots {
        match r {
            Root::Crate(c) => c.write_to(base),
            Root::Dir(p) => std::fs::create_dir_all(base.join(p)).unwrap(),
            Root::Missing(_) => {}
        }
    }
}

/// Writes the case twice (`bin`, `api`), runs the binary on the first and the API replay on the second.
pub fn evaluate(case: &Case, work: &Path, with_api: bool) -> Eval {
    let cdir = work.join(format!("{}", case.n));
    let _ = std::fs::remove_dir_all(&cdir);
    let home = work.join("empty-home");
    std::fs::create_dir_all(&home).ok();
    let bin = cdir.join("bin");
    let api = cdir.join("api");
    materialise(case, &bin);
    let before = snapshot(&bin);
    let mut cmd = rustfmt_cmd(&bin, &home);
    let mut cmdline: Vec<String> = case.mode.args().iter().map(|s| s.to_string()).collect();
    for r in &case.roots {
        cmdline.push(root_arg(r, &bin, case.abs_paths));
    }
    cmd.args(&cmdline);
    let r = run_cmd(&mut cmd, b"", Duration::from_secs(60));
    let after = snapshot(&bin);
    let mut api_res = None;
    let mut api_after = Snap::new();
    if with_api {
        materialise(case, &api);
        let (emit, check, backup) = case.mode.api_spec();
        let inputs: Vec<Value> = case.roots.iter().map(|r| json!({"path": root_arg(r, &api, case.abs_paths)})).collect();
        let spec = json!({"cli_loop": true, "emit": emit, "check": check, "backup": backup, "cwd": api.display().to_string(), "inputs": inputs, "config": []});
        api_res = sessrun::run_child(&spec, &cdir.join("spec.json"), &home, Duration::from_secs(60));
        api_after = snapshot(&api);
    }
    if std::env::var_os("VERIF_KEEP").is_none() {
        let _ = std::fs::remove_dir_all(&cdir);
    }
    Eval { exit: r.code, stderr: r.stderr, stdout: r.stdout, timed_out: r.timed_out, before, after, api: api_res, api_after, cmdline }
}

fn diag_class(stderr: &str) -> &'static str {
    if stderr.is_empty() {
        "none"
    } else if stderr.contains("found at both") {
        "both-files"
    } else if stderr.contains("does not exist") && stderr.contains("failed to resolve mod") {
        "mod-file-missing"
    } else if stderr.contains("unclosed delimiter") {
        "unclosed-delimiter"
    } else if stderr.contains("cannot parse") {
        "module-does-not-parse"
    } else if stderr.contains("Could not parse TOML") || stderr.contains("failed to parse") {
        "config-does-not-load"
    } else if stderr.contains("version mismatch") {
        "version-mismatch"
    } else if stderr.contains("Invalid glob") {
        "bad-ignore-glob"
    } else if stderr.contains("is a directory") {
        "path-is-directory"
    } else if stderr.contains("does not exist") {
        "path-missing"
    } else if stderr.contains("error") {
        "root-does-not-parse"
    } else {
        "other"
    }
}

/// what the run did to the files of one crate, in the model's log encoding (ids ascending)
fn disk_log(c: &Crate, before: &Snap, after: &Snap, mode: Mode) -> String {
    let mut idx: Vec<usize> = (0..c.nodes.len()).collect();
    idx.sort_by_key(|i| c.nodes[*i].id);
    let mut out = vec![];
    for i in idx {
        let n = &c.nodes[i];
        let key = format!("{}/{}", c.dir, n.rel.display());
        let (b, a) = (before.get(&key), after.get(&key));
        if a == b {
            continue;
        }
        let text = a.map(|x| enc_bytes(x)).unwrap_or_else(|| "gone".into());
        match mode {
            Mode::Files => out.push(format!("{},wF,{}", n.id, text)),
            Mode::Backup => {
                let bk_ok = after.get(&bk_name(&key)) == b && !after.contains_key(&PathBuf::from(&key).with_extension("tmp").display().to_string());
                if bk_ok {
                    out.push(format!("{},wT,{}", n.id, text));
                    out.push(format!("{},rFB,{}", n.id, text));
                    out.push(format!("{},rTF,{}", n.id, text));
                } else {
                    out.push(format!("{},changed-without-backup,{}", n.id, text));
                }
            }
            _ => out.push(format!("{},changed-in-a-non-writing-mode,{}", n.id, text)),
        }
    }
    if out.is_empty() { "_".into() } else { out.join(";") }
}

fn bk_name(key: &str) -> String {
    // FilesWithBackupEmitter: `filename.with_extension("bk")`
    PathBuf::from(key).with_extension("bk").display().to_string()
}

/// The property's own statements, evaluated on what the binary did.  (sig, detail)
pub fn oracles(case: &Case, ev: &Eval) -> Vec<(String, String)> {
    let mut f = vec![];
    // expected complete texts
    let mut expected: BTreeMap<String, Option<&String>> = BTreeMap::new();
    let mut unknown: std::collections::BTreeSet<String> = Default::default();
    for r in &case.roots {
        if let Root::Crate(c) = r {
            for n in &c.nodes {
                expected.insert(format!("{}/{}", c.dir, n.rel.display()), n.expected.as_ref());
                if n.expected_unknown {
                    unknown.insert(format!("{}/{}", c.dir, n.rel.display()));
                }
            }
        }
    }
    // 1. nothing in the faulty root's tree changes
    if let Some(fi) = case.faulty {
        if let Root::Crate(c) = &case.roots[fi] {
            let pre = format!("{}/", c.dir);
            let b: Vec<_> = ev.before.iter().filter(|(k, _)| k.starts_with(&pre)).collect();
            let a: Vec<_> = ev.after.iter().filter(|(k, _)| k.starts_with(&pre)).collect();
            if a != b {
                let changed: Vec<&String> = ev.after.iter().filter(|(k, v)| k.starts_with(&pre) && ev.before.get(*k) != Some(*v)).map(|(k, _)| k).chain(ev.before.keys().filter(|k| k.starts_with(&pre) && !ev.after.contains_key(*k))).collect();
                f.push(("c05:faulty-tree-changed".to_string(), format!("{:?}", changed)));
            }
        }
        // 2. exit status 1   3. a diagnostic
        if ev.exit != Some(1) {
            f.push((format!("c05:exit-{}-instead-of-1", ev.exit.map(|c| c.to_string()).unwrap_or_else(|| "signal".into())), String::new()));
        }
        if ev.stderr.trim().is_empty() {
            f.push(("c05:no-diagnostic".to_string(), String::new()));
        }
    }
    // 4. the healthy roots are formatted in the modes that write
    for (ri, r) in case.roots.iter().enumerate() {
        if Some(ri) == case.faulty {
            continue;
        }
        if let Root::Crate(c) = r {
            if !(case.mode.writes() && case.faulty.is_some()) {
                continue;
            }
            for n in &c.nodes {
                let key = format!("{}/{}", c.dir, n.rel.display());
                if let Some(e) = &n.expected {
                    if ev.after.get(&key).map(|v| &v[..]) != Some(e.as_bytes()) {
                        f.push(("c05:healthy-root-not-formatted".to_string(), format!("root #{} {} ({})", ri, key, if ri < case.faulty.unwrap() { "before the faulty root" } else { "after the faulty root" })));
                        break;
                    }
                }
            }
        }
    }
    // 5. a file is only ever replaced by its complete formatted text; nothing else appears
    for (k, v) in &ev.after {
        match ev.before.get(k) {
            Some(b) if b == v => {}
            Some(b) => {
                if !case.mode.writes() {
                    f.push(("c05:non-writing-mode-wrote".to_string(), k.clone()));
                } else {
                    match expected.get(k) {
                        Some(Some(e)) if e.as_bytes() == &v[..] => {}
                        Some(None) if unknown.contains(k) => {}
                        _ => f.push(("c05:file-replaced-by-something-else-than-its-formatted-text".to_string(), format!("{} ({} -> {} bytes)", k, b.len(), v.len()))),
                    }
                }
            }
            None => {
                // a new entry: only `x.bk` holding the original of a changed `x.rs`, in backup mode
                let ok = case.mode == Mode::Backup && k.ends_with(".bk") && ev.before.iter().any(|(bk, bv)| bk_name(bk) == *k && bv == v && ev.after.get(bk) != Some(bv));
                if !ok {
                    f.push(("c05:unexpected-new-file".to_string(), k.clone()));
                }
            }
        }
    }
    for k in ev.before.keys() {
        if !ev.after.contains_key(k) {
            f.push(("c05:file-removed".to_string(), k.clone()));
        }
    }
    f
}

/// model request and the implementation's answer assembled from binary + API replay
fn correspondence(case: &Case, ev: &Eval) -> Result<(String, String, bool), &'static str> {
    let api = ev.api.as_ref().ok_or("api:no-answer")?;
    if api.get("global_config_error").is_some() {
        return Err("api:global-config-error");
    }
    if api["died"].as_bool().unwrap_or(false) {
        return Err("api:panic");
    }
    let entries = api["entries"].as_array().ok_or("api:no-entries")?;
    let mut enc = vec![];
    let mut wrote = false;
    for (i, e) in entries.iter().enumerate() {
        let kind = e["kind"].as_str().unwrap_or("");
        if kind == "missing" {
            enc.push("m".to_string());
            continue;
        }
        if kind == "cfgerr" {
            break;
        }
        let c = match case.roots.get(i) {
            Some(Root::Crate(c)) => c,
            _ => return Err("api:entry-for-a-non-file"),
        };
        let not_run = (kind == "err" && e["msg"].as_str() == Some("version mismatch")) || (kind == "ok" && c.disable_all);
        let log = if not_run { "-".to_string() } else { disk_log(c, &ev.before, &ev.after, case.mode) };
        if log != "-" && log != "_" {
            wrote = true;
        }
        match kind {
            "ok" => enc.push(format!("ok.{}@{}", e["flags"].as_str().unwrap_or("?"), log)),
            "err" => enc.push(format!("err@{}", log)),
            _ => return Err("api:unknown-entry"),
        }
    }
    let roots: Vec<String> = case
        .roots
        .iter()
        .map(|r| match r {
            Root::Crate(c) if c.toml_state == TomlState::Unloadable => "x".to_string(),
            Root::Crate(c) => format!("{}@{}", c.vcfg(), c.records()),
            _ => "m".to_string(),
        })
        .collect();
    let req = format!("proj.cli {} 0 {} 1001 {}", (case.mode == Mode::Check) as u8, case.mode.emitter(), roots.join("|"));
    let expect = format!("{}:{}:{}", ev.exit.map(|c| c.to_string()).unwrap_or_else(|| "signal".into()), api["session_flags"].as_str().unwrap_or("?"), if enc.is_empty() { "_".to_string() } else { enc.join("|") });
    Ok((req, expect, wrote || ev.exit == Some(1)))
}

// ------------------------------------------------------------------------------------------ building cases

fn healthy(rng: &mut Rng, dir: &str, tag: &str) -> Crate {
    let d = rng.range(1, 2);
    gen_crate(rng, dir, tag, d, false)
}

const POSITIONS: [&str; 7] = ["root", "v1", "v2", "v3", "leaf", "path", "cfgif"];

/// one faulty crate for (kind, position); `k` picks the variant of the fault text
fn faulty_crate(rng: &mut Rng, kind: &str, pos: &str, k: usize) -> Crate {
    let depth = rng.range(2, 4);
    let mut c = gen_crate(rng, "f", "fm", depth, true);
    c.layout();
    let target = c.at_position(pos);
    match kind {
        "lex" => c.nodes[target].fault = Some(FileFault::Lex(k)),
        "lexfatal" => c.nodes[target].fault = Some(FileFault::LexFatal(k)),
        "unclosed" => c.nodes[target].fault = Some(FileFault::Unclosed(k)),
        "syntax" => c.nodes[target].fault = Some(FileFault::Syntax(k)),
        "mod-missing" | "mod-both" | "mod-path-missing" => {
            let mk = match kind {
                "mod-missing" => ModFault::Missing,
                "mod-both" => ModFault::Both,
                _ => ModFault::PathMissing,
            };
            // position `cfgif` for a declaration-level fault: the declaration itself sits in a cfg_if! body
            let (host, in_cfg_if) = if pos == "cfgif" { (0, true) } else { (target, false) };
            let at = rng.below(c.nodes[host].children.len() + 1);
            c.nodes[host].bogus = Some(Bogus { kind: mk, in_cfg_if, at });
        }
        "cfg-bad-toml" => {
            c.toml = Some(["max_width = [\n", "tab_spaces = \n", "[[[\n"][k % 3].to_string());
            c.cfg = vec![];
            c.toml_state = TomlState::Unloadable;
        }
        "cfg-bad-value" => {
            c.toml = Some(["max_width = \"abc\"\n", "hard_tabs = 3\n", "newline_style = \"Apple\"\n"][k % 3].to_string());
            c.cfg = vec![];
            c.toml_state = TomlState::Unloadable;
        }
        "cfg-required-version" => {
            c.toml = Some(["required_version = \"0.0.1\"\n", "required_version = \"99.0.0\"\ntab_spaces = 2\n"][k % 2].to_string());
            c.cfg = vec![];
            c.toml_state = TomlState::VersionMismatch;
        }
        "cfg-bad-ignore-glob" => {
            c.toml = Some("ignore = [\"[x\"]\n".to_string());
            c.cfg = vec![];
            c.toml_state = TomlState::BadIgnoreGlob;
        }
        _ => {}
    }
    c.layout();
    c
}

fn build_case(rng: &mut Rng, n: usize, kind: &str, pos: &str, mode: Mode, k: usize, order: usize) -> Case {
    let rng_state = rng.0;
    let h = healthy(rng, "h", "hm");
    let mut roots: Vec<Root> = vec![];
    let faulty_root = match kind {
        "path-missing" => Root::Missing(["f/nothing_here.rs", "nowhere/at/all.rs"][k % 2].to_string()),
        "path-is-dir" => Root::Dir("f_dir".to_string()),
        _ => Root::Crate(faulty_crate(rng, kind, pos, k)),
    };
    // order 0: healthy, faulty   1: faulty, healthy   2: healthy, faulty, healthy
    let unloadable = kind == "cfg-bad-toml" || kind == "cfg-bad-value";
    let order = if unloadable { 0 } else { order };
    let faulty;
    match order {
        0 => {
            roots.push(Root::Crate(h));
            roots.push(faulty_root);
            faulty = 1;
        }
        1 => {
            roots.push(faulty_root);
            roots.push(Root::Crate(h));
            faulty = 0;
        }
        _ => {
            roots.push(Root::Crate(h));
            roots.push(faulty_root);
            roots.push(Root::Crate(healthy(rng, "g", "gm")));
            faulty = 1;
        }
    }
    for r in roots.iter_mut() {
        if let Root::Crate(c) = r {
            c.layout();
        }
    }
    Case { n, kind: kind.into(), pos: pos.into(), mode, roots, faulty: Some(faulty), abs_paths: rng.chance(1, 2), rng_state }
}

/// healthy roots only, with the configuration variants the model's filter phase knows
fn build_healthy_case(rng: &mut Rng, n: usize, variant: &str, mode: Mode) -> Case {
    let rng_state = rng.0;
    let depth = rng.range(2, 3);
    let mut c = gen_crate(rng, "a", "am", depth, true);
    c.layout();
    let order = c.visit_order();
    match variant {
        "skip_children" => {
            c.skip_children = true;
            c.toml = Some(format!("{}skip_children = true\n", c.toml.clone().unwrap_or_default()));
        }
        "disable_all" => {
            c.disable_all = true;
            c.toml = Some(format!("{}disable_all_formatting = true\n", c.toml.clone().unwrap_or_default()));
        }
        "ignore" => {
            let t = *rng.pick(&order);
            c.ignored.push(t);
            c.toml = Some(format!("{}ignore = [\"{}\"]\n", c.toml.clone().unwrap_or_default(), c.nodes[t].rel.display()));
        }
        "skip_attr" => {
            let t = *rng.pick(&order);
            c.nodes[t].skip_attr = true;
        }
        "all_formatted" => {
            for n in c.nodes.iter_mut() {
                n.want_formatted = true;
            }
        }
        _ => {}
    }
    c.layout();
    let mut roots = vec![Root::Crate(c)];
    if rng.chance(1, 2) {
        let mut h = healthy(rng, "h", "hm");
        h.layout();
        if rng.chance(1, 2) {
            roots.insert(0, Root::Crate(h));
        } else {
            roots.push(Root::Crate(h));
        }
    }
    Case { n, kind: format!("healthy:{}", variant), pos: "-".into(), mode, roots, faulty: None, abs_paths: rng.chance(1, 2), rng_state }
}

// ------------------------------------------------------------------------------------------ ignore x fault

#[derive(Clone, Copy, PartialEq, Eq, Debug)]
pub enum Spelling {
    /// the file's path relative to the directory of rustfmt.toml
    RelPath,
    /// the bare file name (matches at any depth)
    BareName,
    /// the directory the file lies in (everything below it is ignored)
    Dir,
    /// a glob on the file name
    Glob,
}

pub const SPELLINGS: [Spelling; 4] = [Spelling::RelPath, Spelling::BareName, Spelling::Dir, Spelling::Glob];

impl Spelling {
    fn name(self) -> &'static str {
        match self {
            Spelling::RelPath => "path",
            Spelling::BareName => "name",
            Spelling::Dir => "dir",
            Spelling::Glob => "glob",
        }
    }
}

/// The `ignore` entry that covers node `target` in the given spelling, and the nodes it matches.  `keep_out`
/// must not be matched: the spelling falls back to the exact relative path if it would be.
fn ignore_entry(c: &Crate, target: usize, sp: Spelling, keep_out: Option<usize>) -> (String, Vec<usize>) {
    let rel = c.nodes[target].rel.clone();
    let fname = rel.file_name().unwrap().to_string_lossy().to_string();
    let exact = (rel.display().to_string(), vec![target]);
    let cand = match sp {
        Spelling::RelPath => exact.clone(),
        Spelling::BareName if fname != "mod.rs" => (fname.clone(), vec![target]),
        Spelling::Glob if fname != "mod.rs" => (format!("{}.*", fname.trim_end_matches(".rs")), vec![target]),
        Spelling::Dir => match rel.parent() {
            Some(d) if !d.as_os_str().is_empty() => {
                let under: Vec<usize> = (0..c.nodes.len()).filter(|i| c.nodes[*i].rel.starts_with(d)).collect();
                (format!("{}/", d.display()), under)
            }
            _ => exact.clone(),
        },
        _ => exact.clone(),
    };
    match keep_out {
        Some(k) if cand.1.contains(&k) => exact,
        _ => cand,
    }
}

fn class_fault(class: &str, k: usize) -> Option<FileFault> {
    match class {
        "r" => Some(FileFault::Recoverable(k)),
        "u" => Some(FileFault::Unrecoverable(k)),
        "x" => Some(FileFault::Unclosed(k)),
        "f" => Some(FileFault::LexFatal(k)),
        "w" => Some(FileFault::Warning(k)),
        "s" => Some(FileFault::Stashed(k)),
        _ => None,
    }
}

/// One crate with an `ignore` list: node A is on it and carries a fault of class `ca` (or none), node B is not
/// on it and carries a fault of class `cb` (or none); `a_first`: A is parsed before B.  `shape` picks the two
/// positions in the order of parsing (root first, then depth first): 0 = (root, a later module),
/// 1 = (1st, 2nd module), 2 = two random modules, 3 = the `#[path]` target and another, 4 = a module and one
/// nested at least two levels down.
fn build_ignore_case(rng: &mut Rng, n: usize, ca: &str, cb: &str, a_first: bool, sp: Spelling, mode: Mode, shape: usize) -> Case {
    let rng_state = rng.0;
    let depth = rng.range(2, 3);
    let mut c = gen_crate(rng, "f", "fm", depth, true);
    c.layout();
    let mut seq = vec![0usize];
    seq.extend(c.visit_order());
    let pos_of = |i: usize| seq.iter().position(|x| *x == i).unwrap();
    let later = |rng: &mut Rng, from: usize| from + 1 + rng.below(seq.len() - from - 1);
    let (mut p1, mut p2) = match shape {
        0 => (0, later(rng, 0)),
        1 => (1, 2),
        2 => {
            let a = 1 + rng.below(seq.len() - 2);
            (a, later(rng, a))
        }
        3 => {
            let pt = seq.iter().position(|i| c.nodes[*i].decl == Decl::PathAttr).unwrap_or(1);
            let mut other = 1 + rng.below(seq.len() - 1);
            if other == pt {
                other = if pt + 1 < seq.len() { pt + 1 } else { pt - 1 };
            }
            (pt.min(other), pt.max(other))
        }
        _ => {
            let deep: Vec<usize> = (1..seq.len()).filter(|p| c.level(seq[*p]) >= 2).collect();
            let d = if deep.is_empty() { seq.len() - 1 } else { *rng.pick(&deep) };
            let mut a = 1 + rng.below(seq.len() - 1);
            if a == d {
                a = if d > 1 { d - 1 } else { d + 1 };
            }
            (a.min(d), a.max(d))
        }
    };
    if p1 == p2 || p2 >= seq.len() {
        p1 = 1;
        p2 = 2;
    }
    let (mut a, mut b) = if a_first { (seq[p1], seq[p2]) } else { (seq[p2], seq[p1]) };
    // an unparsable ROOT on its own ignore list is the known finding D3 (exit 1 without a diagnostic):
    // enumerated there, kept out of the generated family
    if a == 0 && (ca == "u" || ca == "x") {
        std::mem::swap(&mut a, &mut b);
    }
    let _ = pos_of;
    let k = rng.below(64);
    c.nodes[a].fault = class_fault(ca, k);
    c.nodes[b].fault = class_fault(cb, k / 3 + 1);
    let (entry, matched) = ignore_entry(&c, a, sp, Some(b));
    c.ignored = matched;
    c.toml = Some(format!("{}ignore = [\"{}\"]\n", c.toml.clone().unwrap_or_default(), entry));
    c.layout();
    let fails = (cb != "ok" && cb != "w") || ca == "u" || ca == "x" || ca == "f";
    // (`ca` = "r" / "s" / "w" / "ok": an ignored file the parser recovers from does not make the run fail)
    let mut h = healthy(rng, "h", "hm");
    h.layout();
    let (roots, fi) = if rng.chance(1, 2) { (vec![Root::Crate(h), Root::Crate(c)], 1) } else { (vec![Root::Crate(c), Root::Crate(h)], 0) };
    Case {
        n,
        kind: format!("ignore:{}:A={},B={},{}", sp.name(), ca, cb, if a_first { "A-first" } else { "B-first" }),
        pos: format!("shape{}", shape),
        mode,
        roots,
        faulty: if fails { Some(fi) } else { None },
        abs_paths: rng.chance(1, 2),
        rng_state,
    }
}

// ------------------------------------------------------------------------------------------ cfg_attr(path) modules

/// A crate in which one module is declared with nested paths: `#[cfg_attr(pred, path = "m_alt0.rs")] mod m;`
/// with `n_alts` candidates that exist, a default file `m.rs` / `m/mod.rs` (`with_default`) or none, declared in
/// the root as its last module (`last`: the files of this declaration are the last ones the resolver parses) or
/// at a random place of a random file.  `target`: which file carries the fault of class `class` (0.. = candidate,
/// usize::MAX = the default file; "ok" = none).
fn build_cfgattr_case(rng: &mut Rng, n: usize, class: &str, n_alts: usize, with_default: bool, target: usize, last: bool, mode: Mode) -> Case {
    let rng_state = rng.0;
    let depth = rng.range(1, 3);
    let mut c = gen_crate(rng, "f", "fm", depth, true);
    let host = if last { 0 } else { *rng.pick(&(0..c.nodes.len()).filter(|i| c.nodes[*i].decl != Decl::PathAttr).collect::<Vec<_>>()) };
    let x = c.nodes.len();
    let mut xn = new_node(format!("fm{}", x), Decl::CfgAttr, rng);
    xn.absent = !with_default;
    c.nodes.push(xn);
    for k in 0..n_alts {
        let a = c.nodes.len();
        c.nodes.push(new_node(format!("fm{}a{}", x, k), Decl::CfgAlt, rng));
        c.nodes[x].alts.push(a);
    }
    if last {
        c.nodes[host].children.push(x);
    } else {
        let at = rng.below(c.nodes[host].children.len() + 1);
        c.nodes[host].children.insert(at, x);
    }
    let k = rng.below(64);
    let t = if target == usize::MAX { x } else { c.nodes[x].alts[target % n_alts.max(1)] };
    if !(c.nodes[t].absent) {
        c.nodes[t].fault = class_fault(class, k);
    }
    c.layout();
    let fails = (class != "ok" && class != "w" && !c.nodes[t].absent) || (!with_default && n_alts == 0);
    let mut h = healthy(rng, "h", "hm");
    h.layout();
    let (roots, fi) = if rng.chance(1, 2) { (vec![Root::Crate(h), Root::Crate(c)], 1) } else { (vec![Root::Crate(c), Root::Crate(h)], 0) };
    Case {
        n,
        kind: format!("cfg_attr:{}:alts={},default={},fault-in-{}", class, n_alts, with_default, if target == usize::MAX { "default".to_string() } else { format!("candidate{}", target) }),
        pos: if last { "last".into() } else { "anywhere".into() },
        mode,
        roots,
        faulty: if fails { Some(fi) } else { None },
        abs_paths: rng.chance(1, 2),
        rng_state,
    }
}

// ------------------------------------------------------------------------------------------ the bookkeeping, in process

use rustfmt_nightly::verif_hooks::parse_errors as pe;

fn enc_obs(obs: &[pe::Obs], mode: char) -> String {
    if obs.is_empty() {
        return "_".into();
    }
    obs.iter()
        .map(|o| {
            let shown = match (mode, o.shown) {
                ('n', Some(k)) => k.to_string(),
                ('b', Some(k)) => ((k > 0) as u8).to_string(),
                _ => "-".to_string(),
            };
            format!("{}.{}{}.{}", if o.result.is_empty() { "-" } else { o.result }, o.can_reset as u8, o.has_errors as u8, shown)
        })
        .collect::<Vec<_>>()
        .join(",")
}

/// `perr.run` against the real `DiagCtxt` + `SilentOnIgnoredFilesEmitter` + shared flag, fed with synthetic
/// diagnostics (level x where the primary span lies) and `reset_errors()` calls.
fn perr_synthetic(o: &mut Outcome, rng: &mut Rng, base: &Path, thorough: bool) {
    let toml = "ignore = [\"ign.rs\", \"sub/\", \"g_*.rs\"]\nshow_parse_errors = false\n";
    let files: Vec<PathBuf> = ["ign.rs", "sub/deep/x.rs", "g_1.rs", "plain.rs", "other/ign2.rs", "subx.rs"].iter().map(|f| base.join(f)).collect();
    let ignored_idx = [0usize, 1, 2];
    let plain_idx = [3usize, 4, 5];
    let alphabet: Vec<String> = {
        let mut v = vec![];
        for l in ['f', 'e', 'w'] {
            for p in ['n', 's', 'i', 'l'] {
                v.push(format!("e{}{}", l, p));
            }
        }
        v.push("r".to_string());
        v
    };
    let mut scripts: Vec<Vec<String>> = vec![vec![]];
    for a in &alphabet {
        scripts.push(vec![a.clone()]);
        for b in &alphabet {
            scripts.push(vec![a.clone(), b.clone()]);
            for c in &alphabet {
                scripts.push(vec![a.clone(), b.clone(), c.clone()]);
            }
        }
    }
    let extra = if thorough { 6000 } else { 600 };
    for _ in 0..extra {
        let len = rng.range(4, 12);
        scripts.push((0..len).map(|_| rng.pick(&alphabet).clone()).collect());
    }
    for (si, sc) in scripts.iter().enumerate() {
        let mut ops = vec![];
        for it in sc {
            let ch: Vec<char> = it.chars().collect();
            if ch[0] == 'r' {
                ops.push(pe::Op::Reset);
                continue;
            }
            let level = match ch[1] {
                'f' => 0,
                'e' => if rng.chance(1, 8) { 5 } else { 1 },
                _ => [2u8, 3, 4][rng.below(3)],
            };
            let loc = match ch[2] {
                'n' => pe::Loc::NoSpan,
                's' => pe::Loc::Stdin,
                'i' => pe::Loc::File(*rng.pick(&ignored_idx)),
                _ => pe::Loc::File(*rng.pick(&plain_idx)),
            };
            ops.push(pe::Op::Emit(level, loc));
        }
        // the counting session shows how many diagnostics reach the wrapped emitter; every fifth script also
        // goes through a session built by `ParseSess::new` itself (nothing to count there)
        for counting in [true, false] {
            if !counting && si % 5 != 0 {
                continue;
            }
            let mode = if counting { 'n' } else { 'x' };
            match pe::run(toml, &base.join("rustfmt.toml"), counting, &files, &ops) {
                Ok(obs) => {
                    let script = if sc.is_empty() { "_".to_string() } else { sc.join(",") };
                    let nontrivial = obs.iter().any(|x| x.can_reset) || obs.iter().any(|x| x.has_errors);
                    o.push("corr", "perr.run", format!("perr.run {} {}", mode, script), enc_obs(&obs, mode), format!("synthetic diagnostics, {} session", if counting { "counting" } else { "ParseSess::new" }), nontrivial);
                }
                Err(e) => o.direct_failures.push(json!({"sig": "c05:perr-hook-failed", "what": e})),
            }
        }
        o.count(&format!("perr-synthetic:len:{}", if sc.len() <= 3 { sc.len().to_string() } else { ">3".into() }));
    }
}

const PE_CLASSES: [&str; 8] = ["ok", "r", "s", "w", "u", "x", "f", "z"];

fn pe_text(class: &str, k: usize) -> Option<String> {
    let body = match class {
        "ok" => "fn  fine( a :u32 )->u32{ a+1 }".to_string(),
        "r" => RECOVERABLE[k % RECOVERABLE.len()].to_string(),
        "w" => WARNING[k % WARNING.len()].to_string(),
        "s" => STASHED[k % STASHED.len()].to_string(),
        "u" => UNRECOVERABLE[k % UNRECOVERABLE.len()].to_string(),
        "x" => UNCLOSED[k % UNCLOSED.len()].to_string(),
        "f" => LEXFATAL[k % (LEXFATAL.len() - 1)].to_string(),
        _ => return None,
    };
    Some(format!("fn  before(){{}}\n{}\n", body))
}

/// `perr.run` against `Parser::parse_crate` / `Parser::parse_file_as_module` on real files (real rustc parser,
/// real diagnostics) in one session: the decisions of parser.rs in every state a session can be brought into,
/// also the ones `format_project` never continues from (after a failure).
fn perr_files(o: &mut Outcome, rng: &mut Rng, base: &Path, thorough: bool) {
    let dir = base.join("pe");
    std::fs::create_dir_all(&dir).unwrap();
    let variants = 4usize;
    for class in PE_CLASSES {
        for ign in [false, true] {
            for v in 0..variants {
                if let Some(t) = pe_text(class, v * 5 + ign as usize) {
                    std::fs::write(dir.join(format!("{}_{}{}.rs", if ign { "i" } else { "n" }, class, v)), t).unwrap();
                }
            }
        }
    }
    let toml = "ignore = [\"i_*.rs\"]\n";
    let kinds: Vec<(&str, bool)> = PE_CLASSES.iter().flat_map(|c| [(*c, false), (*c, true)]).collect();
    let mut scripts: Vec<Vec<(char, &str, bool)>> = vec![];
    for first in ['c', 'm'] {
        for a in &kinds {
            scripts.push(vec![(first, a.0, a.1)]);
            for b in &kinds {
                scripts.push(vec![(first, a.0, a.1), ('m', b.0, b.1)]);
            }
        }
    }
    let extra = if thorough { 5000 } else { 500 };
    for _ in 0..extra {
        let len = rng.range(3, 7);
        let mut sc = vec![];
        for i in 0..len {
            let k = *rng.pick(&kinds);
            // mostly acceptable files first, so that long scripts reach interesting states
            let k = if i + 1 < len && rng.chance(1, 2) { *rng.pick(&[("ok", false), ("r", true), ("w", true), ("w", false), ("ok", true)]) } else { k };
            sc.push((if i == 0 && rng.chance(1, 2) { 'c' } else { 'm' }, k.0, k.1));
        }
        scripts.push(sc);
    }
    for sc in &scripts {
        let mut ops = vec![];
        let mut items = vec![];
        for (j, (op, class, ign)) in sc.iter().enumerate() {
            let path = dir.join(format!("{}_{}{}.rs", if *ign { "i" } else { "n" }, class, (j + sc.len()) % variants));
            let exists = path.exists();
            if *op == 'c' {
                items.push(format!("c{}{}", class, *ign as u8));
                ops.push(pe::Op::ParseCrate(path));
            } else {
                items.push(format!("m{}{}{}", class, *ign as u8, exists as u8));
                ops.push(pe::Op::ParseModule(path));
            }
        }
        match pe::run(toml, &dir.join("rustfmt.toml"), true, &[], &ops) {
            Ok(obs) => {
                let nontrivial = obs.iter().any(|x| x.result != "Ok");
                o.push("corr", "perr.run", format!("perr.run b {}", items.join(",")), enc_obs(&obs, 'b'), "real files through Parser::parse_crate / parse_file_as_module in one session".into(), nontrivial);
            }
            Err(e) => o.direct_failures.push(json!({"sig": "c05:perr-hook-failed", "what": e})),
        }
        o.count(&format!("perr-files:len:{}", if sc.len() <= 2 { sc.len().to_string() } else { ">2".into() }));
    }
}

/// Formats every file of every case alone (in-process, in the worker pool) under its root's options;
/// files meant to be already formatted are replaced by that text and formatted once more.
pub fn fill_expected(cases: &mut [Case], o: &mut Outcome) {
    for pass in 0..2 {
        let mut jobs = vec![];
        let mut where_: Vec<(usize, usize, usize)> = vec![];
        for (ci, case) in cases.iter().enumerate() {
            for (ri, r) in case.roots.iter().enumerate() {
                if let Root::Crate(c) = r {
                    for (ni, n) in c.nodes.iter().enumerate() {
                        if (n.fault.is_some() && !matches!(n.fault, Some(FileFault::Warning(_)))) || n.skip_attr || n.absent {
                            continue;
                        }
                        if pass == 1 && !n.want_formatted {
                            continue;
                        }
                        if let Ok(s) = std::str::from_utf8(&n.bytes) {
                            jobs.push(Job { src: s.to_string(), cfg: c.effective_cfg(), file_lines: None });
                            where_.push((ci, ri, ni));
                        }
                    }
                }
            }
        }
        let res = pool::run_jobs(&jobs, jobs_n(), Duration::from_secs(20));
        for ((ci, ri, ni), r) in where_.iter().zip(res.iter()) {
            if let Root::Crate(c) = &mut cases[*ci].roots[*ri] {
                if r.clean() {
                    if pass == 0 && c.nodes[*ni].want_formatted {
                        c.nodes[*ni].bytes = r.out.clone().into_bytes();
                    }
                    c.nodes[*ni].expected = Some(r.out.clone());
                } else {
                    o.count("single-file-format:not-clean");
                    c.nodes[*ni].expected = None;
                    c.nodes[*ni].expected_unknown = true;
                }
            }
        }
    }
}

fn jobs_n() -> usize {
    jobs()
}

fn case_json(case: &Case, ev: &Eval) -> Value {
    let mut files = serde_json::Map::new();
    for (k, v) in &ev.before {
        if !k.ends_with('/') {
            files.insert(k.clone(), json!(String::from_utf8_lossy(v)));
        }
    }
    json!({"kind": case.kind, "position": case.pos, "mode": case.mode.name(), "cmdline": ev.cmdline, "exit": ev.exit, "stderr": ev.stderr.chars().take(600).collect::<String>(), "files_before": files, "rng_state": case.rng_state})
}

// ------------------------------------------------------------------------------------------ probes

fn probe_case(rng: &mut Rng, n: usize, f: impl FnOnce(&mut Crate), mode: Mode, order: usize) -> Case {
    let rng_state = rng.0;
    let mut c = gen_crate(rng, "f", "fm", 2, true);
    c.layout();
    f(&mut c);
    c.layout();
    let mut h = healthy(rng, "h", "hm");
    h.layout();
    let (roots, faulty) = if order == 0 { (vec![Root::Crate(h), Root::Crate(c)], 1) } else { (vec![Root::Crate(c), Root::Crate(h)], 0) };
    Case { n, kind: "probe".into(), pos: "root".into(), mode, roots, faulty: Some(faulty), abs_paths: false, rng_state }
}

pub fn run(tier: &str, seed: u64, out: &Path) -> i32 {
    if std::env::var_os("VERIF_LOUD_PANICS").is_none() {
        pool::install_panic_hook();
    }
    let mut o = Outcome::new("C05", tier, seed);
    let thorough = tier == "thorough";
    let mut rng = Rng::new(seed ^ 0xc05);
    let work = out.parent().unwrap_or(Path::new("/verif/work")).join("c05");
    let _ = std::fs::remove_dir_all(&work);
    std::fs::create_dir_all(&work).unwrap();
    let work = std::fs::canonicalize(&work).unwrap_or(work);
    if !rustfmt_bin().exists() {
        o.direct_failures.push(json!({"sig": "c05:no-rustfmt-binary", "what": format!("{} is missing", rustfmt_bin().display())}));
        return o.finish(out, jobs_n());
    }

    // ---- the generated family
    let mut combos: Vec<(&str, &str)> = vec![];
    for kind in ["lex", "unclosed", "syntax", "mod-missing", "mod-both", "mod-path-missing"] {
        for pos in POSITIONS {
            combos.push((kind, pos));
        }
    }
    for pos in &POSITIONS[1..] {
        // a lexer-fatal error below the root is contained by parse_file_as_module; in the root: probe F18
        combos.push(("lexfatal", pos));
    }
    for kind in ["cfg-bad-toml", "cfg-bad-value", "cfg-required-version", "cfg-bad-ignore-glob", "path-missing", "path-is-dir"] {
        combos.push((kind, "root"));
    }
    let reps = if thorough { 40 } else { 1 };
    let mut cases: Vec<Case> = vec![];
    for rep in 0..reps {
        for (kind, pos) in &combos {
            for mode in MODES {
                let k = rng.below(12) + rep;
                let order = if thorough { rep % 3 } else { rng.below(3) };
                let n = cases.len();
                cases.push(build_case(&mut rng, n, kind, pos, mode, k, order));
            }
        }
        for variant in ["plain", "skip_children", "disable_all", "ignore", "skip_attr", "all_formatted"] {
            for mode in MODES {
                let n = cases.len();
                cases.push(build_healthy_case(&mut rng, n, variant, mode));
            }
        }
    }
    // ---- `ignore` lists x fault classes (recoverable / unrecoverable / unclosed / lexer-fatal / warning) x order
    let classes = ["ok", "r", "s", "w", "u", "x", "f"];
    for rep in 0..reps {
        let mut idx = rep;
        for ca in classes {
            for cb in classes {
                if ca == "ok" && cb == "ok" {
                    continue;
                }
                for a_first in [true, false] {
                    idx += 1;
                    let n = cases.len();
                    let mode = [Mode::Files, Mode::Backup, Mode::Check][idx % 3];
                    cases.push(build_ignore_case(&mut rng, n, ca, cb, a_first, SPELLINGS[(idx / 3) % 4], mode, (idx / 2 + rep) % 5));
                }
            }
        }
        // the shapes on which `can_reset` decides: an ignored file that raises the flag, then a file that is
        // not ignored with an error of its own — every spelling x every pair of positions, in the writing mode
        for sp in SPELLINGS {
            for shape in 0..5 {
                for (ca, cb) in [("r", "r"), ("w", "r"), ("r", "s")] {
                    if ca == "w" && (shape + rep) % 2 == 1 {
                        continue;
                    }
                    let n = cases.len();
                    cases.push(build_ignore_case(&mut rng, n, ca, cb, true, sp, if shape % 2 == 0 { Mode::Files } else { Mode::Backup }, shape));
                }
            }
        }
    }
    // ---- modules declared with nested paths (`#[cfg_attr(pred, path = "..")] mod m;`): fault class x where
    //      (a candidate / the default file) x default file present or not x last module of the crate or not
    for rep in 0..reps {
        let mut idx = rep;
        for class in ["ok", "r", "s", "u", "x", "f"] {
            for (n_alts, with_default, target) in [(1usize, true, usize::MAX), (1, true, 0), (2, true, 1), (2, false, 0), (2, false, 1), (1, false, 0), (2, true, usize::MAX)] {
                for last in [true, false] {
                    idx += 1;
                    if class == "ok" && idx % 2 == 0 {
                        continue;
                    }
                    let n = cases.len();
                    let mode = [Mode::Files, Mode::Backup, Mode::Check, Mode::Files][idx % 4];
                    cases.push(build_cfgattr_case(&mut rng, n, class, n_alts, with_default, target, last, mode));
                }
            }
        }
    }
    fill_expected(&mut cases, &mut o);
    let evals: Vec<Eval> = par_map(&cases, |c| evaluate(c, &work, true));
    let mut direct = 0u64;
    let mut distinct = std::collections::HashSet::new();
    for (case, ev) in cases.iter().zip(evals.iter()) {
        o.count(&format!("kind:{}", case.kind));
        o.count(&format!("mode:{}", case.mode.name()));
        if case.faulty.is_some() {
            o.count(&format!("position:{}", case.pos));
            o.count(&format!("order:{}", match (case.faulty, case.roots.len()) { (Some(0), _) => "faulty,healthy", (_, 2) => "healthy,faulty", _ => "healthy,faulty,healthy" }));
            o.count(&format!("diagnostic:{}", diag_class(&ev.stderr)));
        }
        o.count(&format!("exit:{}", ev.exit.map(|c| c.to_string()).unwrap_or_else(|| "signal".into())));
        let nfiles: usize = case.roots.iter().map(|r| if let Root::Crate(c) = r { c.nodes.len() } else { 0 }).sum();
        o.count(&format!("files-per-case:{}", if nfiles <= 6 { "<=6" } else if nfiles <= 10 { "7..10" } else { ">10" }));
        let written = ev.after.iter().filter(|(k, v)| ev.before.get(*k).map(|b| b != *v).unwrap_or(false)).count();
        o.count(&format!("files-rewritten:{}", if written == 0 { "0" } else if written <= 3 { "1..3" } else { ">3" }));
        if ev.timed_out {
            o.count("timeout");
            continue;
        }
        // oracles of the property on the binary
        let fails = oracles(case, ev);
        direct += 1;
        distinct.insert(format!("{}|{}|{}|{}", case.kind, case.pos, case.mode.name(), case.rng_state));
        for (sig, detail) in fails {
            let mut v = case_json(case, ev);
            v["sig"] = json!(sig);
            v["what"] = json!(format!("{} [{} at {} in mode {}] {}", sig, case.kind, case.pos, case.mode.name(), detail));
            o.direct_failures.push(v);
        }
        // binary and API replay must have done the same to the disk
        if ev.api.is_some() && ev.after != ev.api_after && !ev.api.as_ref().map(|a| a["died"].as_bool().unwrap_or(false)).unwrap_or(false) {
            let mut v = case_json(case, ev);
            v["sig"] = json!("c05:binary-and-api-replay-differ-on-disk");
            v["what"] = json!("the rustfmt binary and the same command line replayed through Session/load_config left different files");
            o.direct_failures.push(v);
        }
        match correspondence(case, ev) {
            Ok((req, expect, nontrivial)) => {
                let desc = format!("{} at {} mode {} roots {} cmd {:?}", case.kind, case.pos, case.mode.name(), case.roots.len(), ev.cmdline);
                if let Some(fi) = case.faulty {
                    if let Root::Crate(c) = &case.roots[fi] {
                        if c.toml_state == TomlState::Loads {
                            // the hypothesis of fault_implies_no_write holds of the crate just run
                            o.push("assume", "proj.faulty", format!("proj.faulty {} {}", &c.vcfg()[2..], c.records()), "1".into(), desc.clone(), true);
                        }
                    }
                }
                if case.n % 97 == 5 {
                    o.sample(json!({"kind": "corr", "op": "proj.cli", "desc": desc, "request": format!("{}… ({} bytes)", req.chars().take(160).collect::<String>(), req.len()), "answer": expect.chars().take(400).collect::<String>()}));
                }
                o.push("corr", "proj.cli", req, expect, desc, nontrivial);
            }
            Err(why) => o.count(&format!("corr-skipped:{}", why)),
        }
    }

    // ---- visit order: `rustfmt -v --check` lists the files in file-map order
    let resolve_cases: Vec<&Case> = cases.iter().filter(|c| c.faulty.is_none() && c.mode == Mode::Check).collect();
    let res2: Vec<Option<(String, String, String)>> = par_map(&resolve_cases, |case| {
        let c = match &case.roots[0] {
            Root::Crate(c) if !c.disable_all && c.ignored.is_empty() => c,
            _ => return None,
        };
        let base = work.join(format!("v{}", case.n));
        let _ = std::fs::remove_dir_all(&base);
        c.write_to(&base);
        let root = std::fs::canonicalize(base.join(&c.dir)).unwrap_or_else(|_| base.join(&c.dir));
        let home = work.join("empty-home");
        let mut cmd = rustfmt_cmd(&base, &home);
        cmd.args(["-v", "--check", &format!("{}/{}", c.dir, c.root_file)]);
        let r = run_cmd(&mut cmd, b"", Duration::from_secs(60));
        let _ = std::fs::remove_dir_all(&base);
        let mut ids = vec![];
        for line in String::from_utf8_lossy(&r.stdout).lines() {
            if let Some(p) = line.strip_prefix("Formatting ") {
                let p = PathBuf::from(p);
                let rel = p.strip_prefix(&root).map(|x| x.to_path_buf()).unwrap_or(p.clone());
                match c.nodes.iter().find(|n| n.rel == rel) {
                    Some(n) => ids.push(n.id.to_string()),
                    None => ids.push(format!("?{}", rel.display())),
                }
            }
        }
        Some((format!("proj.resolve {} {}", &c.vcfg()[2..], c.records()), if ids.is_empty() { "_".into() } else { ids.join(",") }, format!("{} {}", case.kind, c.nodes.len())))
    });
    for r in res2.into_iter().flatten() {
        let nt = r.1.contains(',');
        o.push("corr", "proj.resolve", r.0, r.1, r.2, nt);
    }

    // ---- the error bookkeeping in process: model vs the real DiagCtxt / emitter / parser decisions
    {
        let pbase = work.join("perr");
        std::fs::create_dir_all(&pbase).unwrap();
        let mut prng = rng.fork();
        perr_synthetic(&mut o, &mut prng, &pbase, thorough);
        perr_files(&mut o, &mut prng, &pbase, thorough);
    }

    // ---- the generated lists pass the static checks the theorems start from
    o.push("corr", "proj.safe", "proj.safe gen".into(), "1".into(), "generated phase list".into(), false);
    o.push("corr", "proj.filesafe", "proj.filesafe gen".into(), "1".into(), "generated step list".into(), false);

    // ---- enumerated probes of inputs known to be dirty on the pinned tree (seed-independent)
    let mut prng = Rng::new(0x5eed_c05);
    // F18: a lexer-fatal error in the ROOT file: rustc raises FatalError inside ParserBuilder::build
    {
        let mut pcs = vec![];
        for k in 0..LEXFATAL.len() {
            for mode in MODES {
                for order in 0..2 {
                    let n = 100_000 + pcs.len();
                    pcs.push(probe_case(&mut prng, n, |c| c.nodes[0].fault = Some(FileFault::LexFatal(k)), mode, order));
                }
            }
        }
        fill_expected(&mut pcs, &mut o);
        let evs: Vec<Eval> = par_map(&pcs, |c| evaluate(c, &work, false));
        let mut f18 = 0;
        let mut detail = vec![];
        for (case, ev) in pcs.iter().zip(evs.iter()) {
            let fails = oracles(case, ev);
            let k = match case.roots[case.faulty.unwrap()] { Root::Crate(ref c) => match c.nodes[0].fault { Some(FileFault::LexFatal(k)) => k, _ => 0 }, _ => 0 };
            let mut this = false;
            for (sig, d) in fails {
                // the process dies with 101: the root is not damaged, but the status is wrong and a
                // healthy root that comes later is not reached
                let after = d.contains("after the faulty root");
                if sig == "c05:exit-101-instead-of-1" || (sig == "c05:healthy-root-not-formatted" && after && ev.exit == Some(101)) {
                    this = true;
                } else {
                    let mut v = case_json(case, ev);
                    v["sig"] = json!(format!("{}:lexer-fatal-root", sig));
                    v["what"] = json!(format!("{} on a lexer-fatal error ({}) in the root, mode {}: {}", sig, LEXFATAL_NAMES[k % LEXFATAL_NAMES.len()], case.mode.name(), d));
                    o.direct_failures.push(v);
                }
            }
            if this {
                f18 += 1;
                if detail.len() < 4 {
                    detail.push(json!({"fault": LEXFATAL_NAMES[k % LEXFATAL_NAMES.len()], "mode": case.mode.name(), "cmdline": ev.cmdline, "exit": ev.exit, "stderr": ev.stderr.chars().take(300).collect::<String>()}));
                }
            }
            o.count(&format!("probe-F18:exit:{}", ev.exit.map(|c| c.to_string()).unwrap_or_else(|| "signal".into())));
        }
        o.probes.push(json!({"id": "F18", "fails": f18 > 0, "what": format!("lexer-fatal error in a root file (unterminated string / byte char / byte string / raw string / block comment, non-UTF-8 file): expected exit 1 and the other roots formatted; {} of {} runs end with status 101 (files untouched)", f18, pcs.len()), "detail": detail}));
    }
    // D1: a root whose directory's rustfmt.toml does not load, with a healthy root AFTER it
    {
        let mut pcs = vec![];
        for k in 0..3 {
            for (ti, mode) in [Mode::Files, Mode::Backup].iter().enumerate() {
                let n = 110_000 + pcs.len();
                let bad_value = ti == 1;
                pcs.push(probe_case(&mut prng, n, |c| {
                    c.toml = Some(if bad_value { ["max_width = \"abc\"\n", "hard_tabs = 3\n", "newline_style = \"Apple\"\n"][k].to_string() } else { ["max_width = [\n", "tab_spaces = \n", "[[[\n"][k].to_string() });
                    c.cfg = vec![];
                    c.toml_state = TomlState::Unloadable;
                }, *mode, 1));
            }
        }
        fill_expected(&mut pcs, &mut o);
        let evs: Vec<Eval> = par_map(&pcs, |c| evaluate(c, &work, true));
        let mut d1 = 0;
        let mut detail = vec![];
        for (case, ev) in pcs.iter().zip(evs.iter()) {
            // the model describes the abort (config_fault_before_parse (3)): model vs code on these too,
            // so that a repair of D1 in main.rs shows up as a model / replay that no longer describes it
            if ev.api.is_some() && ev.after != ev.api_after {
                let mut v = case_json(case, ev);
                v["sig"] = json!("c05:binary-and-api-replay-differ-on-disk");
                v["what"] = json!("a root whose rustfmt.toml does not load, followed by a healthy root: the binary and the replay of main.rs's loop in harness/src/sessrun.rs (which the model RF.Session.argStep mirrors: `load_config(..)?` leaves the loop) left different files — main.rs's loop changed; update sessrun.rs and RF/Model/Session.lean");
                o.direct_failures.push(v);
            }
            if let Ok((req, expect, _)) = correspondence(case, ev) {
                o.push("corr", "proj.cli", req, expect, format!("D1 shape: unloadable configuration first, mode {} cmd {:?}", case.mode.name(), ev.cmdline), true);
            }
            for (sig, d) in oracles(case, ev) {
                if sig == "c05:healthy-root-not-formatted" && d.contains("after the faulty root") && ev.exit == Some(1) {
                    d1 += 1;
                    if detail.len() < 3 {
                        detail.push(json!({"cmdline": ev.cmdline, "exit": ev.exit, "stderr": ev.stderr.chars().take(300).collect::<String>(), "not_formatted": d}));
                    }
                } else {
                    let mut v = case_json(case, ev);
                    v["sig"] = json!(format!("{}:unloadable-config-root", sig));
                    v["what"] = json!(format!("{} with a root whose rustfmt.toml does not load: {}", sig, d));
                    o.direct_failures.push(v);
                }
            }
        }
        o.probes.push(json!({"id": "D1", "fails": d1 > 0, "what": format!("`rustfmt f/main.rs h/main.rs` where f/rustfmt.toml does not load: the healthy root named after it is not formatted ({} of {} runs); the property says other roots on the command line are still formatted", d1, pcs.len()), "detail": detail}));
    }
    // D3: syntax error in a root that is on its own ignore list (no skip_children): exit 1, stderr empty
    {
        let mut pcs = vec![];
        for k in 0..3 {
            let n = 120_000 + pcs.len();
            pcs.push(probe_case(&mut prng, n, |c| {
                c.nodes[0].fault = Some(FileFault::Unclosed(k));
                c.ignored.push(0);
                c.cfg = vec![];
                c.toml = Some(format!("ignore = [\"{}\"]\n", c.root_file));
            }, Mode::Files, k % 2));
        }
        fill_expected(&mut pcs, &mut o);
        let evs: Vec<Eval> = par_map(&pcs, |c| evaluate(c, &work, false));
        let mut d3 = 0;
        let mut detail = vec![];
        for (case, ev) in pcs.iter().zip(evs.iter()) {
            for (sig, d) in oracles(case, ev) {
                if sig == "c05:no-diagnostic" && ev.exit == Some(1) {
                    d3 += 1;
                    if detail.len() < 2 {
                        detail.push(json!({"cmdline": ev.cmdline, "exit": ev.exit, "stderr": ev.stderr}));
                    }
                } else {
                    let mut v = case_json(case, ev);
                    v["sig"] = json!(format!("{}:ignored-root", sig));
                    v["what"] = json!(format!("{} with an unparsable root on its ignore list: {}", sig, d));
                    o.direct_failures.push(v);
                }
            }
        }
        o.probes.push(json!({"id": "D3", "fails": d3 > 0, "what": format!("a root file with an unclosed delimiter that is on its own `ignore` list (skip_children off): exit status 1 but nothing at all on stderr ({} of {} runs) — the silent emitter for ignored files swallows the only diagnostic", d3, pcs.len()), "detail": detail}));
    }
    // D4 (repaired): an ignored module with a recoverable error, then a module that is NOT ignored with an error
    // the rustc parser stashes (`static X = 1;`): before the repair the run reset the count, wrote
    // `static X: _ = 1;` and exited 0 without a diagnostic
    {
        let mut pcs = vec![];
        for k in 0..STASHED.len() {
            for (mi, mode) in [Mode::Files, Mode::Backup].iter().enumerate() {
                let n = 140_000 + pcs.len();
                pcs.push(probe_case(&mut prng, n, |c| {
                    let order = c.visit_order();
                    let (a, b) = (order[0], order[1]);
                    c.nodes[a].fault = Some(FileFault::Recoverable(k * 3 + mi));
                    c.nodes[b].fault = Some(FileFault::Stashed(k));
                    c.ignored.push(a);
                    c.cfg = vec![];
                    c.toml = Some(format!("ignore = [\"{}\"]\n", c.nodes[a].rel.display()));
                }, *mode, k % 2));
            }
        }
        fill_expected(&mut pcs, &mut o);
        let evs: Vec<Eval> = par_map(&pcs, |c| evaluate(c, &work, false));
        let mut bad = 0;
        let mut detail = vec![];
        for (case, ev) in pcs.iter().zip(evs.iter()) {
            let fails = oracles(case, ev);
            if !fails.is_empty() {
                bad += 1;
                if detail.len() < 3 {
                    detail.push(json!({"cmdline": ev.cmdline, "exit": ev.exit, "stderr": ev.stderr.chars().take(300).collect::<String>(), "oracles": fails.iter().map(|f| format!("{} {}", f.0, f.1)).collect::<Vec<_>>()}));
                }
            }
        }
        o.probes.push(json!({"id": "D4", "fails": bad > 0, "what": format!("`ignore = [\"a.rs\"]`, a.rs with a recoverable syntax error, then b.rs (not ignored) with an error the rustc parser stashes (`static X = 1;`, `const X = 1;`, `x.f::<u8>`): expected exit 1, a diagnostic and no file touched; {} of {} runs violate that", bad, pcs.len()), "detail": detail}));
    }
    // D5 (repaired): `#[cfg_attr(a, path = "good.rs")] #[cfg_attr(b, path = "bad.rs")] mod m;` as the last module,
    // no default file, bad.rs with a syntax error: before the repair the candidate was skipped over and the crate
    // written with exit status 0
    {
        let mut pcs = vec![];
        for (k, class) in ["r", "u", "x", "f", "s"].iter().enumerate() {
            for with_default in [false, true] {
                let n = 150_000 + pcs.len();
                let mut case = build_cfgattr_case(&mut prng, n, class, 2, with_default, 1, true, if k % 2 == 0 { Mode::Files } else { Mode::Backup });
                case.kind = "probe".into();
                pcs.push(case);
            }
        }
        fill_expected(&mut pcs, &mut o);
        let evs: Vec<Eval> = par_map(&pcs, |c| evaluate(c, &work, false));
        let mut bad = 0;
        let mut detail = vec![];
        for (case, ev) in pcs.iter().zip(evs.iter()) {
            let fails = oracles(case, ev);
            if !fails.is_empty() {
                bad += 1;
                if detail.len() < 3 {
                    detail.push(json!({"cmdline": ev.cmdline, "exit": ev.exit, "stderr": ev.stderr.chars().take(300).collect::<String>(), "oracles": fails.iter().map(|f| format!("{} {}", f.0, f.1)).collect::<Vec<_>>()}));
                }
            }
        }
        o.probes.push(json!({"id": "D5", "fails": bad > 0, "what": format!("a nested-path candidate (`#[cfg_attr(pred, path = \"bad.rs\")] mod m;`) that does not parse, declared last: expected exit 1, a diagnostic and no file touched; {} of {} runs violate that", bad, pcs.len()), "detail": detail}));
    }
    // W1 (informational; predicted by the model, RF.Props.C05 last example): a mere parser WARNING in a file that
    // is not ignored raises has_non_ignorable_parser_errors, after which the recoverable error of an ignored file
    // is no longer reset: the run fails (exit 1, nothing written) although no file outside the ignore list has an
    // error.  That is `ignore` not working, not damage: the probe fails only if a file is touched.
    {
        let mut pcs = vec![];
        for k in 0..WARNING.len() {
            let n = 160_000 + pcs.len();
            let mut case = probe_case(&mut prng, n, |c| {
                let order = c.visit_order();
                let (a, b) = (order[0], order[1]);
                c.nodes[a].fault = Some(FileFault::Warning(k));
                c.nodes[b].fault = Some(FileFault::Recoverable(k));
                c.ignored.push(b);
                c.cfg = vec![];
                c.toml = Some(format!("ignore = [\"{}\"]\n", c.nodes[b].rel.display()));
            }, Mode::Files, k % 2);
            case.faulty = None;
            pcs.push(case);
        }
        fill_expected(&mut pcs, &mut o);
        let evs: Vec<Eval> = par_map(&pcs, |c| evaluate(c, &work, false));
        let mut wrote = 0;
        let mut exits = vec![];
        for (case, ev) in pcs.iter().zip(evs.iter()) {
            exits.push(ev.exit);
            let pre = "f/";
            let changed = ev.after.iter().any(|(k, v)| k.starts_with(pre) && ev.before.get(k) != Some(v));
            if ev.exit != Some(0) && changed {
                wrote += 1;
            }
            let _ = case;
        }
        o.probes.push(json!({"id": "W1", "fails": wrote > 0, "what": "informational: a parser warning (`multiple lines skipped by escaped newline`, `suffixes on a tuple index are invalid`) in a module that is not ignored, followed by an ignored module with a recoverable syntax error: the run fails with `cannot parse <the ignored file>` (the warning raised has_non_ignorable_parser_errors, so can_reset is never set); nothing is written, so C05 holds — the probe fails only if a file of the failing root is touched", "detail": {"exits": exits}}));
    }
    // OPTOUT: the root is excluded from processing by configuration (ignored under skip_children, or
    // disable_all_formatting): never parsed, exit 0, nothing printed.  Not a violation of C05 as written
    // (its antecedent is "the input cannot be processed"; here the configuration says not to process
    // it), so the probe only fails if something is written.
    {
        let mut pcs = vec![];
        for k in 0..4 {
            let n = 130_000 + pcs.len();
            pcs.push(probe_case(&mut prng, n, |c| {
                c.nodes[0].fault = Some(FileFault::Unclosed(k));
                c.cfg = vec![];
                if k % 2 == 0 {
                    c.ignored.push(0);
                    c.skip_children = true;
                    c.toml = Some(format!("skip_children = true\nignore = [\"{}\"]\n", c.root_file));
                } else {
                    c.disable_all = true;
                    c.toml = Some("disable_all_formatting = true\n".to_string());
                }
            }, if k < 2 { Mode::Files } else { Mode::Backup }, k % 2));
        }
        fill_expected(&mut pcs, &mut o);
        let evs: Vec<Eval> = par_map(&pcs, |c| evaluate(c, &work, false));
        let mut wrote = 0;
        let mut exits = vec![];
        for (case, ev) in pcs.iter().zip(evs.iter()) {
            exits.push(ev.exit);
            for (sig, _) in oracles(case, ev) {
                if sig != "c05:no-diagnostic" && !sig.starts_with("c05:exit-0") {
                    wrote += 1;
                }
            }
        }
        o.probes.push(json!({"id": "OPTOUT", "fails": wrote > 0, "what": "informational: an unparsable root that the configuration excludes from processing (on the ignore list under skip_children, or disable_all_formatting) is never parsed: nothing written, no diagnostic, exit 0 (RF.Props.C05.fault_flag_counterexample); the probe fails only if a file is touched", "detail": {"exits": exits}}));
    }

    o.direct_evals = direct;
    o.direct_distinct = distinct.len() as u64;
    o.notes.push("oracle cases = runs of the rustfmt binary on generated crates; byte comparison of the whole directory tree before/after stands for the sha256 of the property; correspondence = proj.cli of the Lean model vs (binary exit status, disk effects) + (flags and reports of the same command line replayed through the public API in a child process)".into());
    o.notes.push("non-trivial = the run ended with status 1 or rewrote at least one file".into());
    if std::env::var_os("VERIF_KEEP").is_none() {
        let _ = std::fs::remove_dir_all(&work);
    }
    o.finish(out, jobs_n())
}
