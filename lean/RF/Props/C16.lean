import RF.Model.Contain
import RF.Props.C16shape

/-!
# C16  rustfmt never terminates abnormally — containment

`RF.Gen.Contain.contained` is regenerated from the source on every run: for each stage that runs
rustc's lexer/parser or the per-macro rewriting, whether the function that runs it holds a `catch_unwind`.
The arithmetic half (Shape / Indent never panic through the checked API; exact preconditions of the
operations that can) is `RF.Props.C16shape`.  Everything else about C16 — that no rewriter panics, that
ordinary nesting does not exhaust the stack — is search (`rfverif c16`), not theorem.
-/
namespace RF.Props.C16
open RF.Contain RF.Gen.Contain

/-- Every stage of the current tree is contained. -/
theorem all_stages_contained : ∀ s : Stage, contained s = true := by
  intro s; cases s <;> decide

/-- If every stage is contained, no pattern of raised panics ends the run abnormally: the exit
status is 0 or 1. -/
theorem containment_of (cont : Stage → Bool) (h : ∀ s, cont s = true) (raises : Stage → Bool) :
    run cont raises ≠ .abnormal ∧ (run cont raises).exitCode ≤ 1 := by
  unfold run
  have : Stage.all.any (fun s => raises s && !cont s) = false := by
    simp [List.any_eq_false, h]
  rw [this]
  simp only [Bool.false_eq_true, if_false]
  split <;> simp [Outcome.exitCode]

/-- For the current tree: a panic inside the Rust parser or inside the formatting of one macro is
contained and becomes an ordinary failure (exit 1), never an abnormal end. -/
theorem containment (raises : Stage → Bool) :
    run contained raises ≠ .abnormal ∧ (run contained raises).exitCode ≤ 1 :=
  containment_of contained all_stages_contained raises

/-- …and it is reported: a raising stage makes the run a failure. -/
theorem raised_is_failure (raises : Stage → Bool) (s : Stage) (h : raises s = true) :
    run contained raises = .failure := by
  unfold run
  have h1 : Stage.all.any (fun s => raises s && !contained s) = false := by
    simp [List.any_eq_false, all_stages_contained]
  have h2 : Stage.all.any raises = true := by
    rw [List.any_eq_true]; exact ⟨s, by cases s <;> simp [Stage.all], h⟩
  simp [h1, h2]

/-- Sensitivity: one uncontained stage is enough for an abnormal end. -/
theorem uncontained_stage_abnormal (s : Stage) :
    run (fun t => t != s) (fun t => t == s) = .abnormal := by
  cases s <;> decide

end RF.Props.C16
