import RF.Model.CharClasses
/-!
# Model of `format_lines` / `FormatLines` (`/repo/src/formatting.rs:474-631`),
`FormatReport::track_errors` (`/repo/src/lib.rs:217-244`) and the exit formulas of
`/repo/src/bin/main.rs:323-327, 387-395`.

The scanner walks the final buffer once, character by character, through `CharClasses`.  The
model is a fold over the tagged characters with the exact fields of the Rust struct.  Facts read
off the code (they shape `RF/Model/FormatLinesSpec.lean`):

  * every character counts 1 column, a tab `tab_spaces`; there is no Unicode-width computation
    (`line_len += if c == '\t' { tab_spaces } else { 1 }`);
  * `'\r'` is skipped *before anything else*: it has no width, does not touch `last_was_space`,
    `line_buffer`, and does **not** reset `newline_count`;
  * "blank" is `char::is_whitespace` (Unicode `White_Space`);
  * on a trailing blank `line_len -= 1` runs (once, whatever the width of the blank) whenever the
    line is selected by `file_lines`, reported or not; with `tab_spaces = 0` and a line of tabs this
    is `0 - 1` on a `usize`: a panic in a build with overflow checks (`none` here);
  * there is no `issue_seeker` any more (`report_todo`/`report_fixme` are gone).

Import-free apart from the classifier (linked into the native driver).
-/
namespace RF.FormatLines
open RF.CharClasses (Kind)

/-- The four configuration values `FormatLines` reads. -/
structure Config where
  maxWidth : Nat
  tabSpaces : Nat
  errorOnLineOverflow : Bool
  errorOnUnformatted : Bool
  deriving DecidableEq, Repr, Inhabited

/-- `ErrorKind` (`lib.rs:107-143`); the variants that `track_errors` does not look at are `other`
(`IoError`, `ModuleResolutionError`, `ParseError`, `InvalidGlobPattern`). -/
inductive ErrorKind where
  | lineOverflow (found max : Nat)
  | trailingWhitespace
  | deprecatedAttr
  | badAttr
  | versionMismatch
  | lostComment
  | other
  deriving DecidableEq, Repr, Inhabited

/-- `ErrorKind::is_comment` (`lib.rs:145-149`). -/
def ErrorKind.isComment : ErrorKind → Bool
  | .lostComment => true
  | _ => false

/-- `FormattingError` (`formatting.rs:308-314`). -/
structure FormattingError where
  line : Nat
  kind : ErrorKind
  isComment : Bool
  isString : Bool
  lineBuffer : List Char
  deriving DecidableEq, Repr, Inhabited

/-- `char::is_whitespace`: the code points with the Unicode property `White_Space`. -/
def isWhitespace (c : Char) : Bool :=
  let n := c.toNat
  (0x9 ≤ n && n ≤ 0xD) || n == 0x20 || n == 0x85 || n == 0xA0 || n == 0x1680 ||
  (0x2000 ≤ n && n ≤ 0x200A) || n == 0x2028 || n == 0x2029 || n == 0x202F || n == 0x205F ||
  n == 0x3000

/-- `FormatLines` (`formatting.rs:493-505`) without `name`, `skipped_range`, `config` (parameters
of the functions below). -/
structure State where
  lastWasSpace : Bool
  lineLen : Nat
  curLine : Nat
  newlineCount : Nat
  errors : List FormattingError
  lineBuffer : List Char
  currentLineContainsStringLiteral : Bool
  formatLine : Bool
  deriving DecidableEq, Repr, Inhabited

/-- `FormatLines::new` (`formatting.rs:508-526`); `selected n` is
`config.file_lines().contains_line(name, n)`. -/
def State.new (selected : Nat → Bool) : State :=
  { lastWasSpace := false, lineLen := 0, curLine := 1, newlineCount := 0, errors := [],
    lineBuffer := [], currentLineContainsStringLiteral := false, formatLine := selected 1 }

/-- `FormatLines::is_skipped_line` (`formatting.rs:626-630`). -/
def isSkippedLine (skipped : List (Nat × Nat)) (curLine : Nat) : Bool :=
  skipped.any fun (lo, hi) => lo ≤ curLine && curLine ≤ hi

/-- `FormatLines::should_report_error` (`formatting.rs:606-623`). -/
def shouldReportError (cfg : Config) (st : State) (charKind : Kind) (errorKind : ErrorKind) : Bool :=
  let allowErrorReport :=
    if charKind.isComment || st.currentLineContainsStringLiteral || errorKind.isComment
    then cfg.errorOnUnformatted else true
  match errorKind with
  | .lineOverflow _ _ => cfg.errorOnLineOverflow && allowErrorReport
  | .trailingWhitespace | .lostComment => allowErrorReport
  | _ => true

/-- `FormatLines::push_err` (`formatting.rs:596-604`). -/
def pushErr (st : State) (kind : ErrorKind) (isComment isString : Bool) : State :=
  { st with errors := st.errors ++ [⟨st.curLine, kind, isComment, isString, st.lineBuffer⟩] }

/-- `FormatLines::new_line` (`formatting.rs:543-580`); `none` = `self.line_len -= 1` on 0. -/
def newLine (cfg : Config) (skipped : List (Nat × Nat)) (selected : Nat → Bool)
    (st : State) (kind : Kind) : Option State :=
  let afterChecks : Option State :=
    if st.formatLine then
      -- 546-557
      let st1? : Option State :=
        if st.lastWasSpace then
          let st1 :=
            if shouldReportError cfg st kind .trailingWhitespace && !isSkippedLine skipped st.curLine
            then pushErr st .trailingWhitespace kind.isComment kind.isString
            else st
          if st1.lineLen = 0 then none else some { st1 with lineLen := st1.lineLen - 1 }
        else some st
      -- 560-567
      match st1? with
      | none => none
      | some st1 =>
        let errorKind := ErrorKind.lineOverflow st1.lineLen cfg.maxWidth
        if decide (st1.lineLen > cfg.maxWidth) && !isSkippedLine skipped st1.curLine
            && shouldReportError cfg st1 kind errorKind
        then some (pushErr st1 errorKind kind.isComment st1.currentLineContainsStringLiteral)
        else some st1
    else some st
  -- 570-579
  match afterChecks with
  | none => none
  | some st2 =>
    some { st2 with
      lineLen := 0, curLine := st2.curLine + 1, formatLine := selected (st2.curLine + 1),
      newlineCount := st2.newlineCount + 1, lastWasSpace := false, lineBuffer := [],
      currentLineContainsStringLiteral := false }

/-- `FormatLines::char` (`formatting.rs:582-594`). -/
def char (cfg : Config) (st : State) (c : Char) (kind : Kind) : State :=
  { st with
    newlineCount := 0,
    lineLen := st.lineLen + (if c = '\t' then cfg.tabSpaces else 1),
    lastWasSpace := isWhitespace c,
    lineBuffer := st.lineBuffer ++ [c],
    currentLineContainsStringLiteral :=
      if kind.isString then true else st.currentLineContainsStringLiteral }

/-- `FormatLines::iterate` (`formatting.rs:529-541`) over the output of `CharClasses`. -/
def iterate (cfg : Config) (skipped : List (Nat × Nat)) (selected : Nat → Bool) :
    State → List (Kind × Char) → Option State
  | st, [] => some st
  | st, (kind, c) :: rest =>
    if c = '\r' then iterate cfg skipped selected st rest
    else if c = '\n' then
      match newLine cfg skipped selected st kind with
      | none => none
      | some st' => iterate cfg skipped selected st' rest
    else iterate cfg skipped selected (char cfg st c kind) rest

/-- Length of a text in UTF-8 bytes (`String::len`). -/
def byteLen (text : List Char) : Nat := (text.map Char.utf8Size).sum

/-- `String::truncate(new_len)` on a text given as characters: no-op when `new_len ≥ len`,
`none` (panic) when `new_len` is not on a character boundary. -/
def truncateBytes : Nat → List Char → Option (List Char)
  | _, [] => some []
  | 0, _ :: _ => some []
  | n + 1, c :: cs =>
    if c.utf8Size ≤ n + 1 then (truncateBytes (n + 1 - c.utf8Size) cs).map (c :: ·) else none

/-- Result of `format_lines`: the errors appended to the report and the text left in the buffer. -/
structure Result where
  errors : List FormattingError
  text : List Char
  deriving DecidableEq, Repr, Inhabited

/-- `format_lines` (`formatting.rs:474-491`) over an already tagged text.  `none` = panic
(`line_len -= 1` on 0, `text.len() - newline_count` below 0, truncation inside a character). -/
def formatLinesOn (cfg : Config) (skipped : List (Nat × Nat)) (selected : Nat → Bool)
    (tagged : List (Kind × Char)) : Option Result :=
  let text := tagged.map (·.2)
  match iterate cfg skipped selected (State.new selected) tagged with
  | none => none
  | some st =>
    if st.newlineCount > 1 then
      if byteLen text < st.newlineCount then none
      else
        match truncateBytes (byteLen text - st.newlineCount + 1) text with
        | none => none
        | some t => some ⟨st.errors, t⟩
    else some ⟨st.errors, text⟩

/-- `format_lines` on a text (classified by the `CharClasses` model). -/
def formatLines (cfg : Config) (skipped : List (Nat × Nat)) (selected : Nat → Bool)
    (text : List Char) : Option Result :=
  formatLinesOn cfg skipped selected (RF.CharClasses.classes text)

/-! ## Report flags and exit status -/

/-- `ReportedErrors` (`formatting.rs:372-394`). -/
structure ReportedErrors where
  hasOperationalErrors : Bool := false
  hasParsingErrors : Bool := false
  hasFormattingErrors : Bool := false
  hasMacroFormatFailure : Bool := false
  hasCheckErrors : Bool := false
  hasDiff : Bool := false
  hasUnformattedCodeErrors : Bool := false
  deriving DecidableEq, Repr, Inhabited

/-- `ReportedErrors::add` (`formatting.rs:398-406`). -/
def ReportedErrors.add (a b : ReportedErrors) : ReportedErrors :=
  { hasOperationalErrors := a.hasOperationalErrors || b.hasOperationalErrors
    hasParsingErrors := a.hasParsingErrors || b.hasParsingErrors
    hasFormattingErrors := a.hasFormattingErrors || b.hasFormattingErrors
    hasMacroFormatFailure := a.hasMacroFormatFailure || b.hasMacroFormatFailure
    hasCheckErrors := a.hasCheckErrors || b.hasCheckErrors
    hasDiff := a.hasDiff || b.hasDiff
    hasUnformattedCodeErrors := a.hasUnformattedCodeErrors || b.hasUnformattedCodeErrors }

/-- Body of the `for err in new_errors` loop of `track_errors` (`lib.rs:226-242`). -/
def trackOne (errs : ReportedErrors) (kind : ErrorKind) : ReportedErrors :=
  match kind with
  | .lineOverflow _ _ => { errs with hasOperationalErrors := true }
  | .trailingWhitespace => { errs with hasOperationalErrors := true, hasUnformattedCodeErrors := true }
  | .lostComment => { errs with hasUnformattedCodeErrors := true }
  | .deprecatedAttr | .badAttr | .versionMismatch => { errs with hasCheckErrors := true }
  | .other => errs

/-- `FormatReport::track_errors` (`lib.rs:217-244`), including its early return. -/
def trackErrors (errs : ReportedErrors) (newErrors : List ErrorKind) : ReportedErrors :=
  let errs := if newErrors.isEmpty then errs else { errs with hasFormattingErrors := true }
  if errs.hasOperationalErrors && errs.hasCheckErrors && errs.hasUnformattedCodeErrors then errs
  else newErrors.foldl trackOne errs

/-- Exit status of `rustfmt <files>` (`bin/main.rs:387-395`). -/
def exitCodeFiles (session : ReportedErrors) (check : Bool) : Nat :=
  if session.hasOperationalErrors || session.hasParsingErrors
      || ((session.hasDiff || session.hasCheckErrors) && check) then 1 else 0

/-- Exit status of `rustfmt` on standard input (`bin/main.rs:323-327`). -/
def exitCodeStdin (session : ReportedErrors) : Nat :=
  if session.hasOperationalErrors || session.hasParsingErrors then 1 else 0

end RF.FormatLines
