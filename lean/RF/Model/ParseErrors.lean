import RF.Gen.ParseErrs
import RF.Model.Project
/-!
The parse-error bookkeeping that decides whether a file "parsed" (C05).

`format_project` creates one `ParseSess` per crate root (src/parse/session.rs).  It holds rustc's `DiagCtxt`
(whose error count and stash of not-yet-emitted diagnostics are what `has_errors()` looks at), the emitter `SilentOnIgnoredFilesEmitter` with its private
flag `has_non_ignorable_parser_errors`, and the `AtomicBool` `can_reset` shared between the two.  Every
diagnostic the rustc parser produces goes through `DiagCtxtInner::emit_diagnostic`: the emitter is called, then
the error count grows if the level is an error level.  `Parser::parse_crate` (the root) and
`Parser::parse_file_as_module` (every `mod m;`) look at `has_errors()` and `can_reset_errors()` afterwards and
either accept the file (`Ok`), accept it after `reset_errors()`, or fail (src/parse/parser.rs).

Nothing of that control flow is written down here: the statements of the emitter's two blocks, the
`Err(e)` arm of the closure, the arms of the two result matches and the initial values are the tables of
`RF.Gen.ParseErrs`, regenerated from the source by `translate/c05_errors.py` on every run, and this file is an
interpreter of such tables.  What is abstract: the rustc parser itself — a file is given by the sequence of
diagnostics parsing it produces (`level`, where the primary span lies) and by how the call ends (`Raw`).

The last section lifts the state machine into the project model: `annotateRoot` walks a crate in the order
`format_project` parses it (root, then `visit_crate` depth first), threads the session state through the
files, and writes the status the tables compute into `File.parse`, which is all `RF.Project.runProject` looks
at.
-/
namespace RF.ParseErrors
open RF.Gen.ParseErrs

/-- `warning` stands for every level that is not counted as an error (`DiagInner::is_error`). -/
inductive Level where | fatal | error | warning
  deriving DecidableEq, Repr

/-- Where the primary span of a diagnostic lies, as far as the emitter can tell: no primary span; a file that
is not `FileName::Real(LocalPath(_))` (standard input); a local file, matched by the `ignore` set or not. -/
inductive Loc where | noSpan | notLocal | localFile (ignored : Bool)
  deriving DecidableEq, Repr

structure Diag where
  level : Level
  loc : Loc
  /-- the parser stashes it (`Diag::stash`: a `static` item without a type, an expression in pattern position, …)
  instead of emitting it: it counts as an error at once but reaches the emitter only when the stash is emitted -/
  stashed : Bool := false
  deriving DecidableEq, Repr

/-- counted by `DiagCtxt` (`err_guars.push`) -/
def Diag.isError (d : Diag) : Bool := d.level != .warning

/-- the emitter drops it: not `Fatal`, primary span in a local file on the ignore list -/
def Diag.ignorable (d : Diag) : Bool := d.level != .fatal && d.loc == .localFile true

/-- `ParseSess` + `DiagCtxt` + emitter, reduced to what the decisions read.  `shown` counts the diagnostics
handed on to the wrapped emitter (stderr, unless `show_parse_errors = false`). -/
structure Sess where
  hasNonIgn : Bool
  canReset : Bool
  errCount : Nat
  shown : Nat
  /-- `DiagCtxtInner::stashed_diagnostics` -/
  stash : List Diag := []
  deriving DecidableEq, Repr

/-- `ParseSess::new` -/
def Sess.init : Sess := ⟨initHasNonIgn, initCanReset, 0, 0, []⟩

/-- `DiagCtxt::has_errors().is_some()`: emitted errors, or a stashed diagnostic that is an error -/
def Sess.hasErrors (s : Sess) : Bool := s.errCount != 0 || s.stash.any Diag.isError
/-- `reset_err_count`: the counts and the stash are dropped -/
def Sess.reset (s : Sess) : Sess := { s with errCount := 0, stash := [] }

/-- the two blocks of the emitter -/
structure EmitProg where
  handle : List Stmt
  ignored : List Stmt
  deriving DecidableEq, Repr

def runStmt : Stmt → Sess → Sess
  | .setHasNonIgn v, s => { s with hasNonIgn := v }
  | .storeCanReset v, s => { s with canReset := v }
  | .storeCanResetUnlessHasNonIgn v, s => if s.hasNonIgn then s else { s with canReset := v }
  | .forward, s => { s with shown := s.shown + 1 }

def runStmts : List Stmt → Sess → Sess
  | [], s => s
  | st :: r, s => runStmts r (runStmt st s)

/-- `SilentOnIgnoredFilesEmitter::emit_diagnostic` -/
def emitterStep (p : EmitProg) (s : Sess) (d : Diag) : Sess :=
  if d.level == .fatal then runStmts p.handle s
  else if d.loc == .localFile true then runStmts p.ignored s
  else runStmts p.handle s

/-- `DiagCtxtInner::emit_diagnostic`: the emitter first, then the error count -/
def dcxEmitNow (p : EmitProg) (s : Sess) (d : Diag) : Sess :=
  let s' := emitterStep p s d
  if d.isError then { s' with errCount := s'.errCount + 1 } else s'

def emitNowAll (p : EmitProg) : Sess → List Diag → Sess
  | s, [] => s
  | s, d :: r => emitNowAll p (dcxEmitNow p s d) r

/-- a diagnostic leaving the parser: `Diag::stash` puts it aside, `Diag::emit` sends it through -/
def dcxEmit (p : EmitProg) (s : Sess) (d : Diag) : Sess :=
  if d.stashed then { s with stash := s.stash ++ [d] } else dcxEmitNow p s d

def emitAll (p : EmitProg) : Sess → List Diag → Sess
  | s, [] => s
  | s, d :: r => emitAll p (dcxEmit p s d) r

/-- `DiagCtxtInner::emit_stashed_diagnostics`: the stash is taken and emitted in order; a stashed diagnostic
that is not an error is dropped when errors have already been emitted -/
def flushStash (p : EmitProg) (s : Sess) : Sess :=
  emitNowAll p { s with stash := [] } (s.stash.filter fun d => d.isError || s.errCount == 0)

/-! ### the decisions of parser.rs -/

/-- How the rustc parser's call ends: `Ok`; `Err(e)` (the diagnostic `e` is still pending); the call unwound
(`FatalError.raise()` after a lexer error, or a panic). -/
inductive Raw where | ok | err (e : Diag) | unwound
  deriving DecidableEq, Repr

/-- One file as the parser sees it: diagnostics emitted while it runs, in order, and how it ends. -/
structure FileParse where
  diags : List Diag := []
  raw : Raw := .ok
  pathExists : Bool := true     -- `path.exists()` in the arm guard
  stage : Stage := .crateMod    -- root only: which of the two `catch_unwind` matches sees the failure
  deriving DecidableEq, Repr

structure ParseProg where
  emit : EmitProg
  /-- `ParseSess::has_errors` emits the stash before it looks -/
  flush : Bool
  modErr : List PStmt
  fileArms : List Arm
  crateArms : List Arm
  inner : List InnerArm

/-- `ParseSess::has_errors()`, with its effect on the session -/
def hasErrorsCall (pp : ParseProg) (s : Sess) : Bool × Sess :=
  let s' := if pp.flush then flushStash pp.emit s else s
  (s'.hasErrors, s')

/-- a guard and what evaluating it does to the session -/
def evalGuard (pp : ParseProg) (g : Guard) (s : Sess) (pathExists : Bool) : Bool × Sess :=
  match g with
  | .always => (true, s)
  | .noErrors => let r := hasErrorsCall pp s; (!r.1, r.2)
  | .canReset => (s.canReset, s)
  | .pathExists => (pathExists, s)

def runPStmt (p : EmitProg) (e : Option Diag) : PStmt → Sess → Sess
  | .emitErr, s => match e with | some d => dcxEmit p s d | none => s
  | .resetIfCanReset, s => if s.canReset then s.reset else s
  | .resetErrors, s => s.reset

def runPStmts (p : EmitProg) (e : Option Diag) : List PStmt → Sess → Sess
  | [], s => s
  | st :: r, s => runPStmts p e r (runPStmt p e st s)

/-- the value the `match` looks at -/
inductive Val where | okSome | okNone | okErr | unwound
  deriving DecidableEq, Repr

def patMatches : Pat → Val → Bool
  | .okSome, .okSome => true
  | .okAny, .okSome => true
  | .okAny, .okNone => true
  | .okAny, .okErr => true
  | .okErr, .okErr => true
  | .unwound, .unwound => true
  | _, _ => false

/-- first arm whose pattern and guard hold (a guard is only evaluated when the pattern matches); `none`: no
arm (the `match` would not compile) -/
def selectArm (pp : ParseProg) : List Arm → Val → Sess → Bool → Sess × Option Ret
  | [], _, s, _ => (s, none)
  | a :: r, v, s, pe =>
    if patMatches a.pat v then
      let g := evalGuard pp a.guard s pe
      if g.1 then (runPStmts pp.emit none a.body g.2, some a.ret) else selectArm pp r v g.2 pe
    else selectArm pp r v s pe

/-- `Parser::parse_file_as_module` -/
def parseFile (pp : ParseProg) (s : Sess) (fp : FileParse) : Sess × Option Ret :=
  let s1 := emitAll pp.emit s fp.diags
  match fp.raw with
  | .ok => selectArm pp pp.fileArms .okSome s1 fp.pathExists
  | .err e => selectArm pp pp.fileArms .okNone (runPStmts pp.emit (some e) pp.modErr s1) fp.pathExists
  | .unwound => selectArm pp pp.fileArms .unwound s1 fp.pathExists

def innerFail (pp : ParseProg) (stage : Stage) (pat : Pat) (e : Option Diag) (s : Sess) : Sess × Option Ret :=
  match pp.inner.find? (fun a => a.stage == stage && a.pat == pat) with
  | some a =>
    ((if a.emits then (match e with | some d => dcxEmit pp.emit s d | none => s) else s), some a.ret)
  | none => (s, none)

/-- `Parser::parse_crate` -/
def parseCrate (pp : ParseProg) (s : Sess) (fp : FileParse) : Sess × Option Ret :=
  let s1 := emitAll pp.emit s fp.diags
  match fp.raw with
  | .ok => selectArm pp pp.crateArms .okSome s1 true
  | .err e => innerFail pp fp.stage .okErr (some e) s1
  | .unwound => innerFail pp fp.stage .unwound none s1

/-- the tables of the current source -/
def genEmit : EmitProg := ⟨handleNonIgnorable, ignoredFileBranch⟩
def genParse : ParseProg := ⟨genEmit, hasErrorsEmitsStashed, modErrArm, fileArms, crateArms, innerArms⟩

/-- every diagnostic of the call, the pending one included -/
def FileParse.allDiags (fp : FileParse) : List Diag :=
  match fp.raw with
  | .err e => fp.diags ++ [e]
  | _ => fp.diags

/-- a diagnostic that is counted as an error and is not dropped by the emitter (stashed or not) -/
def Diag.hardError (d : Diag) : Bool := d.isError && !d.ignorable

/-- **fault of a file**: the parser's call does not end in `Ok`, or it reports an error that is fatal or lies
outside the ignored files.  (An ignored file whose only diagnostics are non-fatal errors of its own is *not*
a fault: that is what `ignore` is for.) -/
def FileParse.fault (fp : FileParse) : Bool :=
  fp.raw != .ok || fp.allDiags.any Diag.hardError

/-! ### lift into the project model -/
open RF.Project

def retToParse : Option Ret → Parse
  | some .ok => .ok
  | some .parsePanicError => .panic
  | _ => .lexErr

mutual
/-- `visit_sub_mod` on a `mod m;` that resolved to this file: `parse_file_as_module` in the state left by
everything parsed before; the children are parsed only if the file is accepted and has no
`#![rustfmt::skip]`. -/
def annT (pp : ParseProg) (pi : Nat → FileParse) : Tree → Sess → Tree × Sess
  | .node f mods, s =>
    let r := parseFile pp s (pi f.path)
    let f' := { f with parse := retToParse r.2 }
    if r.2 = some .ok ∧ f.skipAttr = false then
      let m := annM pp pi mods r.1
      (.node f' m.1, m.2)
    else (.node f' mods, r.1)
def annM (pp : ParseProg) (pi : Nat → FileParse) : Mods → Sess → Mods × Sess
  | .nil, s => (.nil, s)
  | .found t rest, s =>
    let a := annT pp pi t s
    if faultT a.1 then (.found a.1 rest, a.2)        -- `?`: nothing after it is parsed
    else
      let m := annM pp pi rest a.2
      (.found a.1 m.1, m.2)
  | .skipped rest, s => let m := annM pp pi rest s; (.skipped m.1, m.2)
  | .notFound rest, s => (.notFound rest, s)
  | .multiple rest, s => (.multiple rest, s)
end

/-- The crate with every file's `parse` computed by the bookkeeping: `parse_crate` on the root in the fresh
session, then (unless `skip_children`) the modules.  `pi` gives, per path, what the rustc parser does on that
file. -/
def annotateRoot (pp : ParseProg) (pi : Nat → FileParse) (cfg : Cfg) (root : Tree) : Tree :=
  let r := parseCrate pp Sess.init (pi root.file.path)
  let f' := { root.file with parse := retToParse r.2 }
  if r.2 = some .ok ∧ cfg.skipChildren = false then .node f' (annM pp pi root.mods r.1).1
  else .node f' root.mods

mutual
/-- a file with a fault that module resolution reaches below this sub-module -/
def faultET (pi : Nat → FileParse) : Tree → Bool
  | .node f mods => (pi f.path).fault || (!f.skipAttr && faultEM pi mods)
def faultEM (pi : Nat → FileParse) : Mods → Bool
  | .nil => false
  | .found t rest => faultET pi t || faultEM pi rest
  | .skipped rest => faultEM pi rest
  | .notFound _ => true
  | .multiple _ => true
end

/-- **The root cannot be processed** (statement of C05, with the kinds of syntax error spelled out): the
root file has a fault, or — unless `skip_children` — some file module resolution reaches has one, or a
`mod` has no file or two. -/
def faultyE (pi : Nat → FileParse) (cfg : Cfg) (root : Tree) : Bool :=
  (pi root.file.path).fault || (!cfg.skipChildren && faultEM pi root.mods)

/-- `format_project` on a crate whose files are given by their diagnostics -/
def runProjectE (pp : ParseProg) (pi : Nat → FileParse) (phases : List RF.Gen.Phases.Phase)
    (steps : List RF.Gen.Phases.FileStep) (ops : FileOps) (kind : RF.Gen.Emitters.EmitterKind) (cfg : Cfg) (root : Tree) : Result :=
  runProject phases steps ops kind cfg (annotateRoot pp pi cfg root)

end RF.ParseErrors
