//! Token streams for C01/C03: lexing with rustc_lexer (independent of rustfmt's own scanners) and the
//! encoding sent to the Lean validator.
//!
//! Encoding of a token list: `_` when empty, else items joined by `,`; an item is `<class>:<hex text>`
//! with class  i ident/keyword · r raw ident · l lifetime · p punct (one char) · o open delim · c close delim ·
//! d doc comment (line or block, text as written) · n non-doc comment · u unknown/invalid ·
//! literals by kind:  Li int · Lf float · Lc char · Lb byte · Ls str · LB byte str · LC c str ·
//! Lr raw str · LR raw byte str · Lq raw c str.   Whitespace is dropped; non-doc comments are kept only
//! when `keep_comments`.
//!
//! `rustc_lexer` yields one token per punctuation character, so `a & &b` and `a && b` (and `a | |x| x`,
//! `a || x`) would be the same list.  The one place where that loses a parse decision the formatter could
//! get wrong is an `&&` / `||` in INFIX position: there two adjacent characters are one operator and two
//! separated ones are a binary operator followed by a borrow / closure.  So `&&` and `||` written without
//! anything between the two characters, directly after a token that ends an operand (identifier that is not
//! an expression keyword, literal, lifetime-free closer `)` `]` `}`, `?`), are sent as ONE token `p:&&` /
//! `p:||`; everywhere else (prefix position: `&&x`, `&&T`, `|| body`) the characters stay separate, because
//! the formatter may legitimately join or split them there.
use crate::util::*;

pub fn encode_tokens(src: &str, keep_comments: bool) -> String {
    use rustc_lexer::{LiteralKind as LK, TokenKind as K};
    let mut items: Vec<String> = vec![];
    let mut pos = 0usize;
    // (class, text, position just after the token) of the last token sent, for the gluing of infix `&&` / `||`
    let mut last: Option<(String, String, usize)> = None;
    let mut before_last_ends_operand = false;
    if let Some(n) = rustc_lexer::strip_shebang(src) {
        items.push(format!("u:{}", enc_str(&src[..n])));
        pos = n;
    }
    for t in rustc_lexer::tokenize(&src[pos..]) {
        let len = t.len as usize;
        let text = &src[pos..pos + len];
        pos += len;
        let class: String = match t.kind {
            K::Whitespace | K::Eof => continue,
            K::LineComment { doc_style } | K::BlockComment { doc_style, .. } => {
                if doc_style.is_some() { "d".into() } else if keep_comments { "n".into() } else { continue }
            }
            K::Ident | K::InvalidIdent => "i".into(),
            K::RawIdent => "r".into(),
            K::Lifetime { .. } | K::RawLifetime => "l".into(),
            K::Literal { kind, .. } => match kind {
                LK::Int { .. } => "Li",
                LK::Float { .. } => "Lf",
                LK::Char { .. } => "Lc",
                LK::Byte { .. } => "Lb",
                LK::Str { .. } => "Ls",
                LK::ByteStr { .. } => "LB",
                LK::CStr { .. } => "LC",
                LK::RawStr { .. } => "Lr",
                LK::RawByteStr { .. } => "LR",
                LK::RawCStr { .. } => "Lq",
            }
            .into(),
            K::OpenParen | K::OpenBrace | K::OpenBracket => "o".into(),
            K::CloseParen | K::CloseBrace | K::CloseBracket => "c".into(),
            K::Unknown | K::UnknownPrefix | K::UnknownPrefixLifetime | K::GuardedStrPrefix => "u".into(),
            _ => "p".into(),
        };
        // glue the second character of an infix `&&` / `||` onto the first
        if class == "p" && (text == "&" || text == "|") {
            if let Some((lc, lt, lend)) = &last {
                if lc == "p" && lt == text && *lend == pos - len && before_last_ends_operand {
                    items.pop();
                    items.push(format!("p:{}", enc_str(&format!("{}{}", text, text))));
                    last = Some(("p".into(), format!("{}{}", text, text), pos));
                    before_last_ends_operand = false;
                    continue;
                }
            }
        }
        before_last_ends_operand = match &last {
            Some((lc, lt, _)) => ends_operand(lc, lt),
            None => false,
        };
        last = Some((class.clone(), text.to_string(), pos));
        items.push(format!("{}:{}", class, enc_str(text)));
    }
    if items.is_empty() { "_".into() } else { items.join(",") }
}

/// a token after which a binary operator can follow (it ends an operand)
fn ends_operand(class: &str, text: &str) -> bool {
    match class {
        "i" => !matches!(text, "as" | "in" | "return" | "break" | "continue" | "yield" | "match" | "if" | "while" | "for" | "loop" | "let" | "mut" | "ref" | "else" | "move" | "static" | "async" | "unsafe" | "const" | "dyn" | "impl" | "where" | "box" | "become" | "do" | "use"),
        "r" | "Li" | "Lf" | "Lc" | "Lb" | "Ls" | "LB" | "LC" | "Lr" | "LR" | "Lq" => true,
        "c" => true,
        "p" => text == "?",
        _ => false,
    }
}
