#!/usr/bin/env python3
"""translator:c05_phases — the order of the phases of `format_input_inner` / `format_project` /
`format_file` / `handle_formatted_file` (src/formatting.rs) -> RF/Gen/Phases.lean.
C05's theorems (no write before all parsing and module resolution succeeded) are about this list."""
import os, re, sys
sys.path.insert(0, os.path.dirname(os.path.abspath(__file__)))
from common import *

NAME = "c05_phases"


def fn_body(src, name):
    m = re.search(r"fn\s+" + name + r"\b", src)
    if not m:
        refuse(NAME, f"fn {name} not found in src/formatting.rs")
    # body = first block after the signature: skip generics/params/where by finding the `{` that
    # follows the closing paren of the parameter list and an optional `-> …` / where clause
    i = src.index("(", m.end())
    d = 0
    j = i
    while True:
        if src[j] == "(":
            d += 1
        elif src[j] == ")":
            d -= 1
            if d == 0:
                break
        j += 1
    body, end = block_after(src, j)
    return body


def order(body, fname, pats):
    """pats: list of (tag, regex); every regex must match exactly once; returns tags by position"""
    pos = []
    for tag, rx in pats:
        ms = list(re.finditer(rx, body))
        if len(ms) != 1:
            refuse(NAME, f"{fname}: expected exactly one occurrence of /{rx}/ for phase `{tag}`, found {len(ms)}")
        pos.append((ms[0].start(), tag))
    pos.sort()
    return [t for (_, t) in pos]


def main():
    a = args()
    src = cut_tests(strip_rust_comments(read(a.repo, "src/formatting.rs", NAME)))
    src = src.split("#[cfg(feature = \"verif-hooks\")]")[0]
    inner = fn_body(src, "format_input_inner")
    p_inner = order(inner, "format_input_inner", [
        ("versionCheck", r"version_meets_requirement\(\)"),
        ("disableAllCheck", r"disable_all_formatting\(\)"),
        ("formatProject", r"format_project\("),
    ])
    if not re.search(r"if\s+!self\.config\.version_meets_requirement\(\)\s*\{\s*return\s+Err\(ErrorKind::VersionMismatch\)", inner):
        refuse(NAME, "format_input_inner: the version check no longer returns Err(VersionMismatch) at once")
    proj = fn_body(src, "format_project")
    p_proj = order(proj, "format_project", [
        ("newParseSess", r"ParseSess::new\(config\)\?"),
        ("ignoreRootCheck", r"psess\.ignore_file\(&main_file\)"),
        ("parseCrate", r"Parser::parse_crate\("),
        ("resolveModules", r"\.visit_crate\(&krate\)\?"),
        ("filterFiles", r"should_skip_module\("),
        ("formatLoop", r"for\s+\(path,\s*module\)\s+in\s+files\s*\{"),
    ])
    # the parse error arm must leave the function before the loop
    m = re.search(r"match\s+Parser::parse_crate\(input,\s*&psess\)\s*\{", proj)
    if not m:
        refuse(NAME, "format_project: `match Parser::parse_crate(input, &psess)` not found")
    arms, _ = block_after(proj, m.start())
    em = re.search(r"Err\(e\)\s*=>\s*\{", arms)
    if not em:
        refuse(NAME, "format_project: no Err arm on parse_crate")
    errarm, _ = block_after(arms, em.start())
    if "report.add_parsing_error()" not in errarm or not re.search(r"return\s+Ok\(report\)", errarm):
        refuse(NAME, "format_project: the parse-error arm no longer records a parsing error and returns")
    loop_m = re.search(r"for\s+\(path,\s*module\)\s+in\s+files\s*\{", proj)
    loop, _ = block_after(proj, loop_m.start())
    if not re.search(r"context\.format_file\(path,\s*&module,\s*is_macro_def\)\?", loop):
        refuse(NAME, "format_project: the loop no longer calls context.format_file(..)? ")
    if len(re.findall(r"format_file\(", proj)) != 1:
        refuse(NAME, "format_project: format_file is called outside the loop")
    ff = fn_body(src, "format_file")
    p_file = order(ff, "format_file", [
        ("visit", r"visitor\.format_separate_mod\("),
        ("appendNewline", r"source_file::append_newline\("),
        ("formatLines", r"\bformat_lines\("),
        ("applyNewlineStyle", r"\bapply_newline_style\("),
        ("emit", r"\.handle_formatted_file\("),
    ])
    hf = fn_body(src[src.index("impl<'b, T: Write + 'b> FormatHandler for Session"):], "handle_formatted_file")
    if len(re.findall(r"source_file::write_file\(", hf)) != 1:
        refuse(NAME, "handle_formatted_file: expected exactly one source_file::write_file call")
    if not re.search(r"&result,", hf):
        refuse(NAME, "handle_formatted_file: write_file is no longer given the complete formatted text `&result`")
    # should_skip_module: a sequence of `if <cond> { return true; }` and a final `false`
    sk = re.sub(r"\s+", "", fn_body(src, "should_skip_module"))
    conds = []
    rest = sk
    KNOWN = [
        ("ifcontains_skip(module.attrs()){returntrue;}", "skipAttr"),
        ("ifconfig.skip_children()&&path!=main_file{returntrue;}", "skipChildrenNotMain"),
        ("if!input_is_stdin&&context.ignore_file(path){returntrue;}", "ignored"),
        ("if!input_is_stdin&&!config.format_generated_files(){letsource_file=context.psess.span_to_file_contents(module.span);"
         "letsrc=source_file.src.as_ref().expect(\"SourceFilewithoutsrc\");ifis_generated_file(src,config){returntrue;}}", "generated"),
    ]
    while rest != "false":
        for text, tag in KNOWN:
            if rest.startswith(text):
                conds.append(tag)
                rest = rest[len(text):]
                break
        else:
            refuse(NAME, "should_skip_module: statement not understood: " + rest[:160])
    if not re.search(r"\.filter\(\|\(path,\s*module\)\|\s*\{\s*input_is_stdin\s*\|\|\s*!should_skip_module\(config,\s*&context,\s*input_is_stdin,\s*&main_file,\s*path,\s*module\)", proj):
        refuse(NAME, "format_project: the filter is no longer `input_is_stdin || !should_skip_module(config, &context, input_is_stdin, &main_file, path, module)`")
    L = ["/- GENERATED by translate/c05_phases.py from src/formatting.rs.  Do not edit. -/",
         "namespace RF.Gen.Phases\n",
         "/-- steps of `Session::format_input_inner`, in source order -/",
         "inductive InputStep where | versionCheck | disableAllCheck | formatProject\n  deriving DecidableEq, Repr\n",
         f"def formatInputInner : List InputStep := [{', '.join('.' + t for t in p_inner)}]\n",
         "/-- phases of `format_project`, in source order.  `newParseSess` (bad `ignore` glob), `parseCrate`\n(syntax error or parser panic in the root) and `resolveModules` (parses every reachable out-of-line\nmodule; unresolvable module, syntax error in a module) can fail, and the source shows each failure\nleaving the function at once (`?` / `return`). `formatLoop` is the only phase that reaches an emitter. -/",
         "inductive Phase where\n  | newParseSess | ignoreRootCheck | parseCrate | resolveModules | filterFiles | formatLoop\n  deriving DecidableEq, Repr\n",
         f"def formatProject : List Phase := [{', '.join('.' + t for t in p_proj)}]\n",
         "/-- steps of `FormatContext::format_file` for one file, in source order; `emit` hands the complete\nformatted text to `handle_formatted_file` → `source_file::write_file` → the emitter -/",
         "inductive FileStep where | visit | appendNewline | formatLines | applyNewlineStyle | emit\n  deriving DecidableEq, Repr\n",
         f"def formatFile : List FileStep := [{', '.join('.' + t for t in p_file)}]\n",
         "/-- the tests of `should_skip_module` (each `return true`), in source order; a path input is not standard input -/",
         "inductive SkipCond where | skipAttr | skipChildrenNotMain | ignored | generated\n  deriving DecidableEq, Repr\n",
         f"def shouldSkipConds : List SkipCond := [{', '.join('.' + t for t in conds)}]\n",
         "end RF.Gen.Phases\n"]
    changed = write_if_changed(os.path.join(a.out, "Phases.lean"), "\n".join(L))
    print(f"c05_phases: ok ({'rewritten' if changed else 'unchanged'}); formatProject = {p_proj}; formatFile = {p_file}")


if __name__ == "__main__":
    main()
