import RF.Lemmas.Sort
import RF.Gen.SortCalls

/-!
# C11  Reordering is a deterministic, order-insensitive permutation

Theorems about `RF.Model.Sort`: the comparators used when rustfmt sorts `use`, `mod` and
`extern crate` items (`version_sort`, the pre-2024 identifier order, `Ord for UseSegment`,
`Ord for UseTree`, `compare_items`), the stable sort, and the splitting of an item list into
reorderable groups.

Quantification: every string over every `char` (not only identifier characters), every use tree
of every depth, both style-edition families (`v2024 : Bool`), every list of elements.

`TotalPreorder cmp` (in `RF.Lemmas.Sort`) bundles: `cmp a a = Equal`; `cmp b a = (cmp a b).swap`
(so `cmp` is total and `Less`/`Greater` are consistent); `≤` (i.e. `cmp _ _ ≠ Greater`) is
transitive.  These are the requirements of `slice::sort_by`, which since Rust 1.81 may panic
otherwise.

Findings recorded here as `_counterexample` theorems (the code really behaves so):
  * `version_sort` ranks equal all identifiers that agree up to their first run of digits with a
    value ≥ 2^64 (`versionSort_antisymm_counterexample`), so it is a total preorder but not a
    total order on such identifiers;
  * for style edition 2024 `r#zed` and `zed` rank equal (`treeCmp_raw_counterexample`).
-/
namespace RF.Props.C11
open RF.Sort RF.Imports RF.Reorder RF.Lemmas.Sort

/-! ## `version_sort` -/

/-- `version_sort` is a total preorder on all strings: reflexive, antisymmetric in the sense
`cmp b a = (cmp a b).swap`, transitive. -/
theorem versionSort_total_preorder : TotalPreorder versionSort := versionSort_tp

/-- The three laws spelled out, plus totality. -/
theorem versionSort_laws :
    (∀ a, versionSort a a = .eq) ∧
    (∀ a b, versionSort b a = (versionSort a b).swap) ∧
    (∀ a b c, versionSort a b ≠ .gt → versionSort b c ≠ .gt → versionSort a c ≠ .gt) ∧
    (∀ a b, versionSort a b ≠ .gt ∨ versionSort b a ≠ .gt) :=
  ⟨versionSort_tp.refl, versionSort_tp.swap, versionSort_tp.trans, versionSort_tp.total⟩

/-- `s.length` calls of the chunk iterator are enough: more fuel gives the same chunks. -/
theorem chunks_fuel_suffices (n : Nat) (s : List Char) (h : s.length ≤ n) :
    chunksFuel n s = chunks s := chunksFuel_enough n s h

/-- When no run of ASCII digits has a value ≥ 2^64, the chunks are a partition of the string. -/
theorem chunks_partition (s : List Char) (h : allRunsFit s = true) :
    (chunks s).flatMap Chunk.source = s := chunks_source s h

/-- `version_sort` returns `Equal` only for equal strings, provided every run of ASCII digits
in both strings has a value below 2^64 (`usize`). -/
theorem versionSort_antisymm_partial (a b : List Char) (ha : allRunsFit a = true)
    (hb : allRunsFit b = true) (h : versionSort a b = .eq) : a = b :=
  versionSort_eq_imp a b ha hb h

/-- Non-vacuity: the hypothesis holds of ordinary identifiers, and leading zeros do distinguish. -/
example : allRunsFit "x86_064".toList = true ∧ allRunsFit "x86_64".toList = true ∧
    versionSort "x86_064".toList "x86_64".toList = .lt := by decide

/-- Without the hypothesis antisymmetry fails: the iterator stops at the first number that does
not fit `usize`, so two different identifiers with the same prefix before a 20-digit number
≥ 2^64 rank equal (and keep their input order when sorted). -/
theorem versionSort_antisymm_counterexample :
    ∃ a b : List Char, a ≠ b ∧ versionSort a b = .eq :=
  ⟨"a18446744073709551616b".toList, "a18446744073709551616a".toList, by decide, by decide⟩

/-- The same defect, smallest form: 2^64 ranks equal to the empty string. -/
theorem versionSort_big_number_counterexample :
    versionSort "18446744073709551616".toList [] = .eq ∧
    versionSort "18446744073709551615".toList [] = .gt := by decide

/-! ## The identifier order of style editions ≤ 2021 -/

/-- The pre-2024 identifier comparison (snake_case < CamelCase < UPPER_SNAKE_CASE, then
`str::cmp`) is a linear order: a total preorder in which only equal strings rank equal. -/
theorem legacyIdent_linear_order :
    TotalPreorder legacyIdentCmp ∧ ∀ a b, legacyIdentCmp a b = .eq → a = b :=
  ⟨legacyIdentCmp_tp, fun _ _ => legacyIdentCmp_eq_imp⟩

/-- Identifier comparison for either style-edition family. -/
theorem identCmp_total_preorder (v2024 : Bool) : TotalPreorder (identCmp v2024) := identCmp_tp v2024

/-! ## `Ord for UseSegment`, `Ord for UseTree` -/

/-- The model's `keep = false` mode is the literal `a.remove_alias().cmp(&b.remove_alias())`. -/
theorem removeAlias_literal (v2024 : Bool) (a b : Seg) :
    segCmpCore v2024 false a b = segCmp v2024 (removeAlias a) (removeAlias b) :=
  segCmpCore_false v2024 a b

/-- `UseSegment::cmp` is a total preorder for both style-edition families. -/
theorem segCmp_total_preorder (v2024 : Bool) : TotalPreorder (segCmp v2024) := segCmp_tp v2024

/-- `UseTree::cmp` (with its alias-insensitive skip) is a total preorder for both families. -/
theorem treeCmp_total_preorder (v2024 : Bool) : TotalPreorder (treeCmp v2024) := treeCmp_tp v2024

/-- `UseTree::cmp` compares the paths segment by segment *with aliases removed*, then by length:
the value returned by the loop with the "hack" is the alias-free comparison. -/
theorem treeCmp_is_alias_free_lex (v2024 : Bool) (p q : List Seg) :
    treeCmp v2024 (.mk p) (.mk q) = lexCmp (segCmpCore v2024 false) p q := by
  simp only [treeCmp, pathCmp_eq_lex]

/-- Trees that differ only in aliases (at any depth; for 2024 also in `r#` prefixes) rank equal.
No hypothesis. -/
theorem treeCmp_equal_of_alias_only (v2024 : Bool) (a b : Tree)
    (h : canonTree v2024 a = canonTree v2024 b) : treeCmp v2024 a b = .eq :=
  treeCmp_eq_of_canon v2024 a b h

/-- Style editions ≤ 2021: two trees rank equal exactly when they are equal after erasing every
alias (at every depth). -/
theorem treeCmp_equal_iff_alias_only (a b : Tree) :
    treeCmp false a b = .eq ↔ canonTree false a = canonTree false b :=
  treeCmp_legacy_eq_iff a b

/-- Style edition 2024: the same with `r#` prefixes erased too, provided no identifier of either
tree contains a number ≥ 2^64. -/
theorem treeCmp_equal_iff_alias_only_2024_partial (a b : Tree)
    (ha : ∀ n ∈ treeNames a, allRunsFit n = true) (hb : ∀ n ∈ treeNames b, allRunsFit n = true) :
    treeCmp true a b = .eq ↔ canonTree true a = canonTree true b :=
  treeCmp_2024_eq_iff a b ha hb

/-- Non-vacuity: `a::{b as c, d}` and `a::{b, d as e}` satisfy the hypotheses and rank equal. -/
example :
    let a := Tree.mk [.ident ['a'] none, .list [.mk [.ident ['b'] (some ['c'])], .mk [.ident ['d'] none]]]
    let b := Tree.mk [.ident ['a'] none, .list [.mk [.ident ['b'] none], .mk [.ident ['d'] (some ['e'])]]]
    (∀ n ∈ treeNames a, allRunsFit n = true) ∧ (∀ n ∈ treeNames b, allRunsFit n = true) ∧
      treeCmp true a b = .eq ∧ canonTree true a = canonTree true b :=
  ⟨by decide, by decide, by decide, rfl⟩

/-- For 2024 "equal after erasing aliases" is not the rank-equality: `r#zed` and `zed` differ
after erasing aliases (the 2021 canonical form keeps `r#`) yet rank equal. -/
theorem treeCmp_raw_counterexample :
    ∃ a b : Tree, treeCmp true a b = .eq ∧ canonTree false a ≠ canonTree false b :=
  ⟨.mk [.ident "r#zed".toList none], .mk [.ident "zed".toList none], by decide,
   by simp [canonTree, canonPath, canonSeg, canonName]⟩

/-- … and without the `usize` hypothesis the 2024 characterisation fails. -/
theorem treeCmp_equal_iff_alias_only_2024_counterexample :
    ∃ a b : Tree, treeCmp true a b = .eq ∧ canonTree true a ≠ canonTree true b :=
  ⟨.mk [.ident "a18446744073709551616b".toList none],
   .mk [.ident "a18446744073709551616a".toList none], by decide,
   by simp [canonTree, canonPath, canonSeg, canonName, trimRaw]⟩

/-! ## `compare_items` -/

/-- `compare_items` returns a value exactly for two items of the same kind (`None` models
`unreachable!()`), and on each kind it is a total preorder. -/
theorem compareItems_total_preorder (v2024 : Bool) :
    (∀ a b, compareItems v2024 a b = none ↔ a.kind ≠ b.kind) ∧
    (∀ a b, a.kind = b.kind → compareItems v2024 a b = some (kindCmp v2024 a.kind a b)) ∧
    (∀ k, TotalPreorder (kindCmp v2024 k)) :=
  ⟨compareItems_none_iff v2024, compareItems_same v2024, kindCmp_tp v2024⟩

/-- `extern crate` items are ordered by crate name, then un-renamed before renamed, then by the
rename. -/
theorem externCmp_is_lex (v2024 : Bool) (a b : Item) :
    externCmp v2024 a b =
      (nameCmp v2024 a.name b.name).then (optCmp (nameCmp v2024) a.rename b.rename) :=
  externCmp_eq v2024 a b

/-! ## The stable sort -/

/-- The sorted list is a permutation of the input (nothing lost, duplicated or invented). -/
theorem stableSort_perm {α} (cmp : α → α → Ordering) (l : List α) :
    (stableSort cmp l).Perm l := RF.Lemmas.Sort.stableSort_perm cmp l

/-- Under a total preorder the output is ascending: no element is greater than a later one. -/
theorem stableSort_sorted {α} {cmp : α → α → Ordering} (tp : TotalPreorder cmp) (l : List α) :
    (stableSort cmp l).Pairwise (fun a b => cmp a b ≠ .gt) :=
  RF.Lemmas.Sort.stableSort_sorted tp l

/-- Stability: for every rank, the elements of that rank appear in the output in their input
order. -/
theorem stableSort_stable {α} {cmp : α → α → Ordering} (tp : TotalPreorder cmp) (c : α)
    (l : List α) :
    (stableSort cmp l).filter (fun y => cmp c y = .eq) = l.filter (fun y => cmp c y = .eq) :=
  stableSort_classOf tp c l

/-- Under a total preorder the result depends only on the per-rank subsequences of the input:
two inputs that, for every rank, list the elements of that rank in the same order (which makes
them permutations of each other) sort to the same list. -/
theorem stableSort_unique {α} {cmp : α → α → Ordering} (tp : TotalPreorder cmp) (l1 l2 : List α)
    (h : ∀ c, l1.filter (fun y => cmp c y = .eq) = l2.filter (fun y => cmp c y = .eq)) :
    stableSort cmp l1 = stableSort cmp l2 :=
  RF.Lemmas.Sort.stableSort_unique tp l1 l2 h

set_option maxRecDepth 4000 in
/-- Non-vacuity: `[a as x, b, a as y]` and `[b, a as x, a as y]` have the same per-rank
subsequences under `UseTree::cmp` and sort to the same list. -/
example :
    let ax := Tree.mk [.ident ['a'] (some ['x'])]
    let ay := Tree.mk [.ident ['a'] (some ['y'])]
    let b := Tree.mk [.ident ['b'] none]
    stableSort (treeCmp false) [ax, b, ay] = [ax, ay, b] ∧
    stableSort (treeCmp false) [b, ax, ay] = [ax, ay, b] ∧
    stableSort (treeCmp false) [ay, b, ax] = [ay, ax, b] := ⟨rfl, rfl, rfl⟩

/-- The algorithm does not matter: any list that is ascending and keeps each rank's elements in
input order — the contract of a stable sort, e.g. `slice::sort_by` — is the list computed by
the model's insertion sort. -/
theorem stableSort_any_stable_sort {α} {cmp : α → α → Ordering} (tp : TotalPreorder cmp)
    (l s : List α) (hs : s.Pairwise (fun a b => cmp a b ≠ .gt))
    (h : ∀ c, s.filter (fun y => cmp c y = .eq) = l.filter (fun y => cmp c y = .eq)) :
    s = stableSort cmp l :=
  stableSort_spec_unique tp l s hs h

/-- Non-vacuity of the contract: the model's own output satisfies both hypotheses. -/
example {α} {cmp : α → α → Ordering} (tp : TotalPreorder cmp) (l : List α) :
    (stableSort cmp l).Pairwise (fun a b => cmp a b ≠ .gt) ∧
    ∀ c, (stableSort cmp l).filter (fun y => cmp c y = .eq) = l.filter (fun y => cmp c y = .eq) :=
  ⟨stableSort_sorted tp l, fun c => stableSort_stable tp c l⟩

/-- Order independence: if no two different elements of the input rank equal, every permutation
of the input sorts to the same list. -/
theorem order_independent {α} {cmp : α → α → Ordering} (tp : TotalPreorder cmp) (l1 l2 : List α)
    (hp : l1.Perm l2) (anti : ∀ a ∈ l1, ∀ b ∈ l1, cmp a b = .eq → a = b) :
    stableSort cmp l1 = stableSort cmp l2 :=
  RF.Lemmas.Sort.order_independent tp l1 l2 hp anti

/-- Instance for `mod`/identifier lists under `version_sort`: identifiers whose numbers fit
`usize` sort to the same list whatever their input order. -/
theorem versionSort_order_independent (l1 l2 : List (List Char)) (hp : l1.Perm l2)
    (hfit : ∀ a ∈ l1, allRunsFit a = true) :
    stableSort versionSort l1 = stableSort versionSort l2 :=
  RF.Lemmas.Sort.order_independent versionSort_tp l1 l2 hp
    (fun a ha b hb h => versionSort_eq_imp a b (hfit a ha) (hfit b hb) h)

example : stableSort versionSort (["u8", "u16", "u_zzz", "ua"].map String.toList)
    = stableSort versionSort (["ua", "u16", "u8", "u_zzz"].map String.toList) := by decide

/-- Instance for imports: lists of use trees without two different trees of the same canonical
form (i.e. differing only in aliases) sort to the same list whatever their input order
(style editions ≤ 2021; for 2024 add the `usize` hypothesis of
`treeCmp_equal_iff_alias_only_2024_partial`). -/
theorem treeSort_order_independent (l1 l2 : List Tree) (hp : l1.Perm l2)
    (hdistinct : ∀ a ∈ l1, ∀ b ∈ l1, canonTree false a = canonTree false b → a = b) :
    stableSort (treeCmp false) l1 = stableSort (treeCmp false) l2 :=
  RF.Lemmas.Sort.order_independent (treeCmp_tp false) l1 l2 hp
    (fun a ha b hb h => hdistinct a ha b hb ((treeCmp_legacy_eq_iff a b).mp h))

set_option maxRecDepth 4000 in
/-- Non-vacuity: `[b::c, a]` has no two trees with the same canonical form. -/
example :
    let l := [Tree.mk [.ident ['b'] none, .ident ['c'] none], Tree.mk [.ident ['a'] none]]
    (∀ a ∈ l, ∀ b ∈ l, canonTree false a = canonTree false b → a = b) ∧
      stableSort (treeCmp false) l = l.reverse := by
  refine ⟨by simp [canonTree, canonPath, canonSeg, canonName], rfl⟩

/-! ## Groups -/

/-- The loop of `visit_items_with_reordering` cuts the item list into consecutive pieces whose
concatenation is the input (no item changes group, none is lost), and every piece handed to the
sorter contains items of one reorderable kind only — so never an item with `#[macro_use]` or
`#[rustfmt::skip]` (their kind is `Other`), never two kinds — and, where blank lines separate
groups (`in_group`), consecutive items of a piece are at most one line apart.  A piece that is
not sorted is a single item whose kind is neither reorderable nor regroupable. -/
theorem groups_partition (c : GConfig) (items : List GItem) (gs : List Group)
    (h : splitGroups c items = some gs) :
    gs.flatMap Group.items = items ∧ ∀ g ∈ gs, GroupOK c g :=
  splitGroupsFuel_spec c _ items gs h

/-- The loop terminates (the fuel suffices) whenever every span has `lo ≤ hi`. -/
theorem groups_total (c : GConfig) (items : List GItem) (hw : ∀ i ∈ items, i.lo ≤ i.hi) :
    ∃ gs, splitGroups c items = some gs :=
  splitGroupsFuel_some c _ items (Nat.le_refl _) hw

/-- Non-vacuity / example: two `mod` declarations, a blank line, a third one, a `#[macro_use]`
one and a `use`: four pieces. -/
example :
    splitGroups ⟨true, true, true⟩
      [⟨.modDecl, false, false, 1, 1⟩, ⟨.modDecl, false, false, 2, 2⟩,
       ⟨.modDecl, false, false, 4, 4⟩, ⟨.modDecl, true, false, 5, 6⟩, ⟨.use, false, false, 7, 7⟩]
    = some [.run .mod [⟨.modDecl, false, false, 1, 1⟩, ⟨.modDecl, false, false, 2, 2⟩],
            .run .mod [⟨.modDecl, false, false, 4, 4⟩],
            .single ⟨.modDecl, true, false, 5, 6⟩,
            .run .use [⟨.use, false, false, 7, 7⟩]] := by decide

/-! ## The sorting calls of the code are stable sorts (generated table) -/

/-- `stableSort_unique` / `order_independent` are statements about a STABLE sort.  That the reordering code
calls one is read off the source on every run: `translate/c11_sorts.py` lists every sorting call of
`src/reorder.rs`, `src/imports.rs` and the impl-item reordering of `src/items.rs` with its method name;
`sort`, `sort_by`, `sort_by_key`, `sort_by_cached_key` are stable by the contract of `std`, `sort_unstable*` is not.
If this stops checking, rank-equal declarations (alias-only twins, same-named `#[cfg]` modules) no longer
keep their input order and two permutations of one group may format differently. -/
theorem sort_calls_stable : ∀ c ∈ RF.Gen.SortCalls.calls, c.2.2 = true := by decide

/-- Non-vacuity: the table is not empty and covers the three files. -/
example : RF.Gen.SortCalls.calls.length ≥ 6 ∧
    (RF.Gen.SortCalls.calls.map (·.1)).eraseDups.length = 3 := by decide

end RF.Props.C11
