import RF.Model.Lists
import RF.Model.ListsRc
/-
Model of the itemizing half of `src/lists.rs`: `ListItems::next` (lists.rs:743-793) with
`extract_pre_comment` (:579-612), `extract_post_comment` (:614-661), `get_comment_end` (:663-712),
`has_extra_newline` (:716-741), and `find_uncommented` (comment.rs) which they use.

The iterator walks the source text of a list `gap0 item1 gap1 item2 … itemN gapN`: for every item it takes
the text from the end of what the previous item consumed to the start of the item (`pre_snippet`) and the
text from the end of the item to the start of the next one (`post_snippet`, for the last item up to
`next_span_start`), decides with `get_comment_end` how much of the post snippet belongs to this item
(`comment_end`), extracts the two comments and remembers `prev_span_end = item.hi + comment_end`.

In the model the list is given as the first pre-snippet and, per item, the item's rewritten string and
its post-snippet; spans, `SnippetProvider` and the three closures are gone.  Offsets are counted in
CHARACTERS (the code counts bytes: equal on ASCII text, to which the correspondence check restricts itself;
`&s[..len - 1]`, `&s[1..]` and `&s[comment_end - len_last..]` are character operations here).  `none` stands
for a panic (`unwrap()` on `None`, a slice out of range).

These are separate definitions from the ones in `RF/Model/Comment.lean` (C03), which model the same three
string functions byte-exactly; here they are the building blocks of the iterator.
-/
namespace RF.Lists
open RF.CharClasses (Kind classes)

/-- `str::find(char)` as a character offset. -/
def findChar (p : Char → Bool) : List Char → Option Nat
  | [] => none
  | c :: cs => if p c then some 0 else (findChar p cs).map (· + 1)

/-- `str::find(&str)` as a character offset. -/
def findStr (pat : List Char) : List Char → Option Nat
  | [] => if pat.isEmpty then some 0 else none
  | c :: cs => if pat.isPrefixOf (c :: cs) then some 0 else (findStr pat cs).map (· + 1)

/-- `str::rfind(char)` as a character offset. -/
def rfindChar (p : Char → Bool) (s : List Char) : Option Nat :=
  (findChar p s.reverse).map (fun k => s.length - 1 - k)

/-- `str::trim_matches(&[' ', '\t'])` -/
def trimBlanks (s : List Char) : List Char :=
  let isBlank (c : Char) : Bool := c == ' ' || c == '\t'
  ((s.dropWhile isBlank).reverse.dropWhile isBlank).reverse

/-- The loop of `find_uncommented`, comment.rs: `needle` is what is left of `needle_iter`, `i` the
position of the head of the list, `len` the length of the searched string. -/
def findUncommentedGo (pat : List Char) (len : Nat) :
    List Char → Nat → List (Kind × Char) → Option Nat
  | needle, _, [] =>
    match needle with
    | [] => some (len - pat.length)
    | _ :: _ => none
  | needle, i, (kind, b) :: rest =>
    match needle with
    | [] => some (i - pat.length)
    | c :: needle' =>
      if (kind = Kind.normal || kind = Kind.inString) && b == c then
        findUncommentedGo pat len needle' (i + 1) rest
      else findUncommentedGo pat len pat (i + 1) rest

/-- `s.find_uncommented(pat)` -/
def findUncommented (s pat : List Char) : Option Nat :=
  findUncommentedGo pat s.length pat 0 (classes s)

/-- `extract_pre_comment`, lists.rs:579-612.  `none` = the `unwrap()` of `rfind('/')` panics
(cannot happen: the snippet ends with `*/`). -/
def extractPreComment (preSnippet : List Char) :
    Option (Option (List Char) × ListItemCommentStyle) :=
  let trimmedPreSnippet := trim preSnippet
  let startsWithBlockComment := startsWith "/*".toList trimmedPreSnippet
  let endsWithBlockComment := endsWith "*/".toList trimmedPreSnippet
  let startsWithSingleLineComment := startsWith "//".toList trimmedPreSnippet
  if endsWithBlockComment then
    match rfindChar (· == '/') preSnippet with
    | none => none
    | some commentEnd =>
      if hasNewline (preSnippet.drop commentEnd) then some (some trimmedPreSnippet, .differentLine)
      else some (some trimmedPreSnippet, .sameLine)
  else if startsWithSingleLineComment || startsWithBlockComment then
    some (some trimmedPreSnippet, .differentLine)
  else some (none, .none)

/-- `extract_post_comment`, lists.rs:614-661.  `none` = `&post_snippet[..comment_end]` is out of range. -/
def extractPostComment (postSnippet : List Char) (commentEnd : Nat) (separator : List Char)
    (isLast : Bool) : Option (Option (List Char)) :=
  if commentEnd > postSnippet.length then none else
  let postSnippet := trim (postSnippet.take commentEnd)
  let lastInlineCommentEndsWithSeparator :=
    if isLast then
      match (rustLines postSnippet).getLast? with
      | some line => endsWith separator line && startsWith "//".toList (trim line)
      | none => false
    else false
  let postSnippetTrimmed :=
    if (match postSnippet.head? with | some c => c == ',' || c == ':' | none => false) then
      trimBlanks (postSnippet.drop 1)
    else if startsWith separator postSnippet then trimBlanks (postSnippet.drop separator.length)
    else if lastInlineCommentEndsWithSeparator then trimBlanks postSnippet
    else if endsWith separator postSnippet &&
        (!startsWith "//".toList (trim postSnippet) || hasNewline (trim postSnippet)) then
      trimBlanks (postSnippet.take (postSnippet.length - 1))
    else postSnippet
  let removedNewlineSnippet := trim postSnippetTrimmed
  if !postSnippetTrimmed.isEmpty &&
      (startsWith "//".toList removedNewlineSnippet || startsWith "/*".toList removedNewlineSnippet) then
    some (some postSnippetTrimmed)
  else some none

/-- `get_comment_end`, lists.rs:663-712.  `none` = `find_comment_end(..).unwrap()` panics. -/
def getCommentEnd (postSnippet separator terminator : List Char) (isLast : Bool) : Option Nat :=
  if isLast then some ((findUncommented postSnippet terminator).getD postSnippet.length) else
  let blockOpenIndex := findStr "/*".toList postSnippet
  let blockOpenIndex :=
    match blockOpenIndex with
    | some i =>
      match findChar (· == '/') postSnippet with
      | some j =>
        if j < i then none
        else if endsWith ['/'] (postSnippet.take i) then none else some i
      | none => if endsWith ['/'] (postSnippet.take i) then none else some i
    | none => none
  let newlineIndex := findChar (· == '\n') postSnippet
  match findUncommented postSnippet separator with
  | some separatorIndex =>
    let blockEnd (i : Nat) : Option Nat :=
      (findCommentEnd (postSnippet.drop i)).map fun e => max (e + i) (separatorIndex + 1)
    match blockOpenIndex, newlineIndex with
    | some i, none => if i > separatorIndex then some (separatorIndex + 1) else blockEnd i
    | some i, some j =>
      if i < j then blockEnd i
      else if j > separatorIndex then some (j + 1) else some postSnippet.length
    | none, some j => if j > separatorIndex then some (j + 1) else some postSnippet.length
    | none, none => some postSnippet.length
  | none =>
    match newlineIndex with
    | some newlineIndex => some (newlineIndex + 1)
    | none => some 0

/-- `count_newlines` -/
def countNewlines (s : List Char) : Nat := s.count '\n'

/-- `has_extra_newline`, lists.rs:716-741.  `none` = a slice is out of range. -/
def hasExtraNewline (postSnippet : List Char) (commentEnd : Nat) : Option Bool :=
  if postSnippet.isEmpty || commentEnd == 0 then some false
  else if commentEnd > postSnippet.length then none
  else
    -- `len_last` is one character
    let testSnippet := postSnippet.drop (commentEnd - 1)
    let firstNewline := (findChar (· == '\n') testSnippet).getD testSnippet.length
    let testSnippet := testSnippet.drop firstNewline
    let first := (findChar (fun c => !isWhitespace c) testSnippet).getD testSnippet.length
    let testSnippet := testSnippet.take first
    some (countNewlines testSnippet > 1)

/-- One item of the source list: its rewritten string (`get_item_string`, `none` = `Err`) and the text
between its end and the start of the next item (or `next_span_start`). -/
structure SourceItem where
  itemString : Option (List Char)
  postSnippet : List Char
  deriving Repr, DecidableEq

/-- `ListItems::next` iterated to the end, lists.rs:752-792.  `preSnippet` is the text between
`prev_span_end` and the start of the first remaining item.  `none` = a panic. -/
def itemizeGo (separator terminator : List Char) (leaveLast : Bool) :
    List Char → List SourceItem → Option (List ListItem)
  | _, [] => some []
  | preSnippet, src :: rest =>
    let isLast := rest.isEmpty
    match extractPreComment preSnippet, getCommentEnd src.postSnippet separator terminator isLast with
    | some (preComment, preCommentStyle), some commentEnd =>
      match hasExtraNewline src.postSnippet commentEnd,
          extractPostComment src.postSnippet commentEnd separator isLast with
      | some newLines, some postComment =>
        let item : ListItem :=
          { preComment := preComment, preCommentStyle := preCommentStyle,
            item := if isLast && leaveLast then none else src.itemString,
            postComment := postComment, newLines := newLines }
        -- `self.prev_span_end = get_hi(&item) + comment_end`: the next pre-snippet starts there
        match itemizeGo separator terminator leaveLast (src.postSnippet.drop commentEnd) rest with
        | some items => some (item :: items)
        | none => none
      | _, _ => none
    | _, _ => none

/-- `itemize_list(...).collect()` -/
def itemize (separator terminator : List Char) (leaveLast : Bool) (firstPreSnippet : List Char)
    (src : List SourceItem) : Option (List ListItem) :=
  itemizeGo separator terminator leaveLast firstPreSnippet src

/-! ## What the gaps must become (oracle for the real iterator) -/

/-- The non-blank characters of the comments of a text, as `CharClasses` sees them. -/
def commentContent (s : List Char) : List Char :=
  ((classes s).filter (fun kc => kc.1.isComment && !isWhitespace kc.2)).map (·.2)

/-- The comments the iterator attached around the gap after item `k`: the post-comment of item `k` and
the pre-comment of item `k + 1`. -/
def gapComments (post : Option (List Char)) (pre : Option (List Char)) : List Char :=
  commentContent (post.getD []) ++ commentContent (pre.getD [])

/-- Index of the first gap whose comments were not handed on completely and in order (`0` = the text in
front of the first item, `k` = the text after item `k`), for gaps made of blanks, separators and
comments; `none` = every gap is accounted for.  The last gap counts up to the terminator. -/
def firstBadGap (terminator : List Char) (firstPre : List Char) (src : List SourceItem)
    (items : List ListItem) : Option Nat :=
  let pres := items.map (·.preComment)
  let posts := items.map (·.postComment)
  let gaps := firstPre :: src.map (·.postSnippet)
  let n := src.length
  let check (k : Nat) : Bool :=
    let gap := gaps.getD k []
    let gap := if k = n && k ≠ 0 then gap.take ((findUncommented gap terminator).getD gap.length) else gap
    let post := if k = 0 then none else (posts.getD (k - 1) none)
    let pre := if k = n then none else (pres.getD k none)
    commentContent gap == gapComments post pre
  if items.length ≠ n then some 0 else
  (List.range (n + 1)).find? (fun k => !check k)

end RF.Lists
