import RF.Model.CargoFmt
/-!
Lemmas about `RF.Model.CargoFmt` (C18).
-/
namespace RF.Lemmas.CargoFmt
open RF.CargoFmt

instance {ε α : Type} [DecidableEq ε] [DecidableEq α] : DecidableEq (Except ε α)
  | .ok a, .ok b => if h : a = b then isTrue (h ▸ rfl) else isFalse (fun h' => h (Except.ok.inj h'))
  | .error a, .error b =>
    if h : a = b then isTrue (h ▸ rfl) else isFalse (fun h' => h (Except.error.inj h'))
  | .ok _, .error _ => isFalse (fun h => by cases h)
  | .error _, .ok _ => isFalse (fun h => by cases h)

/-! ## Orders -/

theorem Comp.key_injective : ∀ a b : Comp, a.key = b.key → a = b := by
  intro a b h
  cases a <;> cases b <;> simp [Comp.key] at h ⊢
  rename_i s t
  exact (List.map_inj_right (f := Char.toNat) (fun x y h => Char.ext (UInt32.toNat_inj.mp h))).mp h

instance : Std.OrientedCmp cmpPath := ⟨fun {a b} => by unfold cmpPath; exact Std.OrientedCmp.eq_swap⟩
instance : Std.TransCmp cmpPath := ⟨fun {a b c} h1 h2 => by
  unfold cmpPath at *; exact Std.TransCmp.isLE_trans h1 h2⟩
instance : Std.ReflCmp cmpPath := ⟨fun {a} => by unfold cmpPath; exact Std.ReflCmp.compare_self⟩
instance : Std.LawfulEqCmp cmpPath := ⟨fun {a b} h => by
  unfold cmpPath at h
  have := Std.LawfulEqCmp.eq_of_compare h
  exact (List.map_inj_right Comp.key_injective).mp this⟩

instance : Std.OrientedCmp Target.cmp := ⟨fun {a b} => by unfold Target.cmp; exact Std.OrientedCmp.eq_swap⟩
instance : Std.TransCmp Target.cmp := ⟨fun {a b c} h1 h2 => by
  unfold Target.cmp at *; exact Std.TransCmp.isLE_trans h1 h2⟩

instance : Std.OrientedCmp cmpStr := ⟨fun {a b} => by unfold cmpStr; exact Std.OrientedCmp.eq_swap⟩
instance : Std.TransCmp cmpStr := ⟨fun {a b c} h1 h2 => by
  unfold cmpStr at *; exact Std.TransCmp.isLE_trans h1 h2⟩
instance : Std.ReflCmp cmpStr := ⟨fun {a} => by unfold cmpStr; exact Std.ReflCmp.compare_self⟩
instance : Std.LawfulEqCmp cmpStr := ⟨fun {a b} h => by
  unfold cmpStr at h; exact Std.LawfulEqCmp.eq_of_compare h⟩

theorem Target.cmp_eq_iff (a b : Target) : Target.cmp a b = .eq ↔ a.path = b.path := by
  unfold Target.cmp; exact Std.LawfulEqCmp.compare_eq_iff_eq

theorem cmpStr_eq_iff (a b : Str) : cmpStr a b = .eq ↔ a = b :=
  Std.LawfulEqCmp.compare_eq_iff_eq

/-! ## The sorted-list set -/

/-- Strictly ascending. -/
def Sorted {α} (cmp : α → α → Ordering) (l : List α) : Prop := l.Pairwise (fun a b => cmp a b = .lt)

section SSet
variable {α : Type} {cmp : α → α → Ordering}

theorem mem_sinsert_imp {x y : α} {l : List α} (h : y ∈ sinsert cmp x l) : y = x ∨ y ∈ l := by
  induction l with
  | nil => simp [sinsert] at h; exact .inl h
  | cons z zs ih =>
    simp only [sinsert] at h
    split at h
    · simp at h ⊢; rcases h with h | h | h <;> simp [h]
    · exact .inr h
    · simp at h ⊢; rcases h with h | h
      · simp [h]
      · rcases ih h with h | h <;> simp [h]

theorem subset_sinsert {x : α} {l : List α} : ∀ y ∈ l, y ∈ sinsert cmp x l := by
  induction l with
  | nil => simp
  | cons z zs ih =>
    intro y hy
    simp only [sinsert]
    split
    · simp at hy ⊢; exact .inr hy
    · exact hy
    · simp at hy ⊢; rcases hy with h | h
      · exact .inl h
      · exact .inr (ih y h)

/-- The new element is stored exactly when nothing equal was there. -/
theorem sinsert_new_or_equal (x : α) (l : List α) :
    (x ∈ sinsert cmp x l) ∨ (∃ y ∈ l, cmp x y = .eq) := by
  induction l with
  | nil => simp [sinsert]
  | cons z zs ih =>
    simp only [sinsert]
    split
    · simp
    · rename_i h; exact .inr ⟨z, by simp, h⟩
    · rcases ih with h | ⟨y, hy, h⟩
      · left; simp [h]
      · right; exact ⟨y, by simp [hy], h⟩

theorem sinsert_sorted [Std.TransCmp cmp] {x : α} {l : List α} (h : Sorted cmp l) :
    Sorted cmp (sinsert cmp x l) := by
  induction l with
  | nil => simp [sinsert, Sorted]
  | cons z zs ih =>
    unfold Sorted at *
    rw [List.pairwise_cons] at h
    simp only [sinsert]
    split
    · rename_i hlt
      rw [List.pairwise_cons]
      refine ⟨?_, List.pairwise_cons.mpr h⟩
      intro a ha
      simp at ha
      rcases ha with rfl | ha
      · exact hlt
      · exact Std.TransCmp.lt_trans hlt (h.1 a ha)
    · exact List.pairwise_cons.mpr h
    · rename_i hgt
      rw [List.pairwise_cons]
      refine ⟨?_, ih h.2⟩
      intro a ha
      rcases mem_sinsert_imp ha with rfl | ha
      · exact Std.OrientedCmp.gt_iff_lt.mp hgt
      · exact h.1 a ha

/-- In a sorted list an element equal (by `cmp`) to a *new* stored element cannot pre-exist. -/
theorem sinsert_mem_cases [Std.TransCmp cmp] {x y : α} {l : List α} (hs : Sorted cmp l)
    (h : y ∈ sinsert cmp x l) : y ∈ l ∨ (y = x ∧ ∀ z ∈ l, cmp x z ≠ .eq) := by
  induction l with
  | nil => simp [sinsert] at h; simp [h]
  | cons z zs ih =>
    unfold Sorted at hs
    rw [List.pairwise_cons] at hs
    simp only [sinsert] at h
    split at h
    · rename_i hlt
      simp at h
      rcases h with rfl | h | h
      · right; refine ⟨rfl, ?_⟩
        intro w hw
        simp at hw
        rcases hw with rfl | hw
        · simp [hlt]
        · have := Std.TransCmp.lt_trans hlt (hs.1 w hw); simp [this]
      · left; simp [h]
      · left; simp [h]
    · left; exact h
    · rename_i hgt
      simp at h
      rcases h with rfl | h
      · left; simp
      · rcases ih hs.2 h with h | ⟨rfl, h⟩
        · left; simp [h]
        · right; refine ⟨rfl, ?_⟩
          intro w hw
          simp at hw
          rcases hw with rfl | hw
          · simp [hgt]
          · exact h w hw

theorem mem_map_sinsert {κ : Type} (f : α → κ) (hf : ∀ a b, cmp a b = .eq ↔ f a = f b)
    (x : α) (l : List α) (k : κ) :
    k ∈ (sinsert cmp x l).map f ↔ k = f x ∨ k ∈ l.map f := by
  constructor
  · intro h
    rw [List.mem_map] at h
    obtain ⟨y, hy, rfl⟩ := h
    rcases mem_sinsert_imp hy with rfl | hy
    · exact .inl rfl
    · exact .inr (List.mem_map.mpr ⟨y, hy, rfl⟩)
  · rintro (rfl | h)
    · rcases sinsert_new_or_equal (cmp := cmp) x l with h | ⟨y, hy, h⟩
      · exact List.mem_map.mpr ⟨x, h, rfl⟩
      · exact List.mem_map.mpr ⟨y, subset_sinsert y hy, ((hf x y).mp h).symm⟩
    · rw [List.mem_map] at h ⊢
      obtain ⟨y, hy, rfl⟩ := h
      exact ⟨y, subset_sinsert y hy, rfl⟩

end SSet

/-! ## `BTreeSet<Target>` -/

/-- The paths of a target set. -/
def paths (s : TSet) : List Path := s.map (·.path)

theorem mem_paths_insert (t : Target) (s : TSet) (p : Path) :
    p ∈ paths (TSet.insert t s) ↔ p = t.path ∨ p ∈ paths s :=
  mem_map_sinsert (cmp := Target.cmp) (·.path) Target.cmp_eq_iff t s p

theorem insert_sorted {t : Target} {s : TSet} (h : Sorted Target.cmp s) :
    Sorted Target.cmp (TSet.insert t s) := sinsert_sorted h

theorem sorted_paths_nodup {s : TSet} (h : Sorted Target.cmp s) : (paths s).Nodup := by
  unfold paths Sorted at *
  rw [List.nodup_iff_pairwise_ne, List.pairwise_map]
  refine h.imp ?_
  intro a b hab heq
  have := (Target.cmp_eq_iff a b).mpr heq
  simp [this] at hab

theorem fromTarget_ok {env : Env} {t : MTarget} {tg : Target} (h : Target.fromTarget env t = .ok tg) :
    tg.path = srcCanon env t ∧ tg.edition = t.edition ∧ t.kind.head? = some tg.kind := by
  unfold Target.fromTarget at h
  split at h
  · cases h
  · rename_i k ks hk
    cases h
    simp [hk]

theorem fromTarget_isOk_iff (env : Env) (t : MTarget) :
    (∃ tg, Target.fromTarget env t = .ok tg) ↔ t.kind ≠ [] := by
  unfold Target.fromTarget
  split <;> simp_all

/-- The targets the loop actually builds, in order (defined when no `kind` is empty). -/
def builtTargets (env : Env) (ts : List MTarget) : List Target :=
  ts.filterMap fun t => match Target.fromTarget env t with | .ok tg => some tg | .error _ => none

theorem insertTargets_ok_kinds {env : Env} {ts : List MTarget} {s s' : TSet}
    (h : insertTargets env ts s = .ok s') : ∀ t ∈ ts, t.kind ≠ [] := by
  induction ts generalizing s with
  | nil => simp
  | cons t ts ih =>
    simp only [insertTargets] at h
    split at h
    · cases h
    · rename_i tg htg
      intro u hu
      simp at hu
      rcases hu with rfl | hu
      · exact (fromTarget_isOk_iff env u).mp ⟨tg, htg⟩
      · exact ih h u hu

theorem insertTargets_err {env : Env} {ts : List MTarget} {s : TSet} {e : Err}
    (h : insertTargets env ts s = .error e) : e = .kindPanic ∧ ∃ t ∈ ts, t.kind = [] := by
  induction ts generalizing s with
  | nil => simp [insertTargets] at h
  | cons t ts ih =>
    simp only [insertTargets] at h
    split at h
    · rename_i e' he
      cases h
      unfold Target.fromTarget at he
      split at he
      · cases he; exact ⟨rfl, t, by simp, by assumption⟩
      · cases he
    · obtain ⟨h1, u, hu, h2⟩ := ih h
      exact ⟨h1, u, by simp [hu], h2⟩

theorem insertTargets_isOk {env : Env} {ts : List MTarget} (s : TSet) (h : ∀ t ∈ ts, t.kind ≠ []) :
    ∃ s', insertTargets env ts s = .ok s' := by
  cases hr : insertTargets env ts s with
  | ok s' => exact ⟨s', rfl⟩
  | error e =>
    obtain ⟨_, t, ht, hk⟩ := insertTargets_err hr
    exact absurd hk (h t ht)

/-- `insertTargets` is the fold of `insert` over the built targets. -/
theorem insertTargets_eq_foldl {env : Env} {ts : List MTarget} {s s' : TSet}
    (h : insertTargets env ts s = .ok s') :
    s' = (builtTargets env ts).foldl (fun acc tg => TSet.insert tg acc) s ∧
    (builtTargets env ts).map (·.path) = ts.map (srcCanon env) := by
  induction ts generalizing s with
  | nil => simp [insertTargets] at h; simp [builtTargets, h]
  | cons t ts ih =>
    simp only [insertTargets] at h
    split at h
    · cases h
    · rename_i tg htg
      obtain ⟨h1, h2⟩ := ih h
      unfold builtTargets at *
      simp only [List.filterMap_cons, htg, List.foldl_cons, List.map_cons]
      exact ⟨h1, by rw [h2, (fromTarget_ok htg).1]⟩

theorem foldl_insert_sorted (l : List Target) (s : TSet) (h : Sorted Target.cmp s) :
    Sorted Target.cmp (l.foldl (fun acc tg => TSet.insert tg acc) s) := by
  induction l generalizing s with
  | nil => exact h
  | cons t l ih => exact ih _ (insert_sorted h)

theorem mem_paths_foldl_insert (l : List Target) (s : TSet) (p : Path) :
    p ∈ paths (l.foldl (fun acc tg => TSet.insert tg acc) s) ↔ p ∈ paths s ∨ p ∈ l.map (·.path) := by
  induction l generalizing s with
  | nil => simp
  | cons t l ih =>
    simp only [List.foldl_cons, ih, mem_paths_insert, List.map_cons, List.mem_cons]
    constructor
    · rintro ((h | h) | h) <;> simp [h]
    · rintro (h | h | h) <;> simp [h]

theorem subset_foldl_insert (l : List Target) (s : TSet) :
    ∀ y ∈ s, y ∈ l.foldl (fun acc tg => TSet.insert tg acc) s := by
  induction l generalizing s with
  | nil => simp
  | cons t l ih => intro y hy; exact ih _ y (subset_sinsert y hy)

/-- First insertion wins: an element of the final set is an old one, or the *first* of the
inserted targets with its path, and then no old element had that path. -/
theorem foldl_insert_first_wins (l : List Target) (s : TSet) (hs : Sorted Target.cmp s) :
    ∀ y ∈ l.foldl (fun acc tg => TSet.insert tg acc) s,
      y ∈ s ∨ ((∀ z ∈ s, z.path ≠ y.path) ∧
        ∃ pre post, l = pre ++ y :: post ∧ ∀ z ∈ pre, z.path ≠ y.path) := by
  induction l generalizing s with
  | nil => intro y hy; exact .inl hy
  | cons t l ih =>
    intro y hy
    simp only [List.foldl_cons] at hy
    rcases ih _ (insert_sorted hs) y hy with h | ⟨h1, pre, post, h2, h3⟩
    · rcases sinsert_mem_cases hs h with h | ⟨rfl, h⟩
      · exact .inl h
      · right
        refine ⟨?_, [], l, rfl, by simp⟩
        intro z hz heq
        exact h z hz ((Target.cmp_eq_iff _ _).mpr heq.symm)
    · right
      have ht : t.path ≠ y.path := by
        intro heq
        have : t.path ∈ paths (TSet.insert t s) := (mem_paths_insert t s _).mpr (.inl rfl)
        unfold paths at this
        rw [List.mem_map] at this
        obtain ⟨z, hz, hzp⟩ := this
        exact h1 z hz (hzp.trans heq)
      refine ⟨?_, t :: pre, post, by simp [h2], ?_⟩
      · intro z hz; exact h1 z (subset_sinsert z hz)
      · intro z hz
        simp at hz
        rcases hz with rfl | hz
        · exact ht
        · exact h3 z hz

theorem insertTargets_sorted {env : Env} {ts : List MTarget} {s s' : TSet}
    (h : insertTargets env ts s = .ok s') (hs : Sorted Target.cmp s) : Sorted Target.cmp s' := by
  rw [(insertTargets_eq_foldl h).1]; exact foldl_insert_sorted _ _ hs

theorem mem_paths_insertTargets {env : Env} {ts : List MTarget} {s s' : TSet}
    (h : insertTargets env ts s = .ok s') (p : Path) :
    p ∈ paths s' ↔ p ∈ paths s ∨ ∃ t ∈ ts, srcCanon env t = p := by
  obtain ⟨h1, h2⟩ := insertTargets_eq_foldl h
  rw [h1, mem_paths_foldl_insert, h2]
  simp

theorem insertTargets_subset {env : Env} {ts : List MTarget} {s s' : TSet}
    (h : insertTargets env ts s = .ok s') : ∀ y ∈ s, y ∈ s' := by
  rw [(insertTargets_eq_foldl h).1]; exact subset_foldl_insert _ _

/-! ## `--all`: the recursion computes the reachable closure -/

/-- A path dependency named `n` in the answer `md` whose manifest `m'` the code follows. -/
def MdEdge (env : Env) (md : Metadata) (n : Str) (m' : Path) : Prop :=
  ∃ pkg ∈ md.packages, ∃ d ∈ pkg.deps, ∃ p, d.path = some p ∧ d.name = n ∧ m' = depManifest p ∧
    followable env md m' = true

def EdgeN (env : Env) (m : Option Path) (n : Str) (m' : Path) : Prop :=
  ∃ md, env.metadata m = .ok md ∧ MdEdge env md n m'

/-- Manifests reachable from the starting one along followed path dependencies. -/
inductive Reach (env : Env) (root : Option Path) : Option Path → Prop
  | root : Reach env root root
  | step {m n m'} : Reach env root m → EdgeN env m n m' → Reach env root (some m')

/-- The paths `--all` should collect: every target of every package of every reachable answer. -/
def SpecPath (env : Env) (root : Option Path) (p : Path) : Prop :=
  ∃ m md, Reach env root m ∧ env.metadata m = .ok md ∧
    ∃ pkg ∈ md.packages, ∃ t ∈ pkg.targets, srcCanon env t = p

/-- Among the followed dependencies reachable from `root`, the name determines the manifest. -/
def NameFun (env : Env) (root : Option Path) : Prop :=
  ∀ m₁ m₂ n m₁' m₂', Reach env root m₁ → Reach env root m₂ →
    EdgeN env m₁ n m₁' → EdgeN env m₂ n m₂' → m₁' = m₂'

def Closed (env : Env) (st : RecState) (m : Option Path) : Prop :=
  ∀ md, env.metadata m = .ok md →
    (∀ pkg ∈ md.packages, ∀ t ∈ pkg.targets, srcCanon env t ∈ paths st.targets) ∧
    (∀ n m', MdEdge env md n m' → n ∈ st.visited)

def ClosedName (env : Env) (root : Option Path) (n : Str) (st : RecState) : Prop :=
  ∀ m m', Reach env root m → EdgeN env m n m' → Closed env st (some m')

/-- `st'` extends `st`: both components grow, what is new is justified, and every name that
became visited has its manifest completely processed. -/
structure Ext (env : Env) (root : Option Path) (st st' : RecState) : Prop where
  vis : ∀ n ∈ st.visited, n ∈ st'.visited
  tgt : ∀ p ∈ paths st.targets, p ∈ paths st'.targets
  sound : ∀ p ∈ paths st'.targets, p ∈ paths st.targets ∨ SpecPath env root p
  sorted : Sorted Target.cmp st.targets → Sorted Target.cmp st'.targets
  newClosed : ∀ n ∈ st'.visited, n ∉ st.visited → ClosedName env root n st'

theorem Closed.mono {env : Env} {st st' : RecState} {m : Option Path} (h : Closed env st m)
    (hv : ∀ n ∈ st.visited, n ∈ st'.visited) (ht : ∀ p ∈ paths st.targets, p ∈ paths st'.targets) :
    Closed env st' m := by
  intro md hmd
  obtain ⟨h1, h2⟩ := h md hmd
  exact ⟨fun pkg hp t ht' => ht _ (h1 pkg hp t ht'), fun n m' he => hv _ (h2 n m' he)⟩

theorem Ext.refl (env : Env) (root : Option Path) (st : RecState) : Ext env root st st :=
  ⟨fun _ h => h, fun _ h => h, fun _ h => .inl h, fun h => h, fun _ h h' => absurd h h'⟩

theorem Ext.trans {env : Env} {root : Option Path} {a b c : RecState}
    (h1 : Ext env root a b) (h2 : Ext env root b c) : Ext env root a c where
  vis := fun n h => h2.vis n (h1.vis n h)
  tgt := fun p h => h2.tgt p (h1.tgt p h)
  sound := fun p h => by
    rcases h2.sound p h with h | h
    · exact h1.sound p h
    · exact .inr h
  sorted := fun h => h2.sorted (h1.sorted h)
  newClosed := fun n hn hna => by
    by_cases hb : n ∈ b.visited
    · intro m m' hr he
      exact (h1.newClosed n hb hna m m' hr he).mono h2.vis h2.tgt
    · exact h2.newClosed n hn hb

/-- What a (recursive) call on a reachable manifest guarantees. -/
def CallSpec (env : Env) (root : Option Path)
    (call : Path → RecState → Option (Except Err RecState)) : Prop :=
  ∀ m st st', Reach env root (some m) → call m st = some (.ok st') →
    Ext env root st st' ∧ Closed env st' (some m)

theorem depsLoop_spec {env : Env} {root : Option Path}
    {call : Path → RecState → Option (Except Err RecState)} (hcall : CallSpec env root call)
    (hfun : NameFun env root) {m : Option Path} (hm : Reach env root m) {md : Metadata}
    (hmd : env.metadata m = .ok md) {pkg : Package} (hpkg : pkg ∈ md.packages)
    (ds : List Dep) (hds : ∀ d ∈ ds, d ∈ pkg.deps) (st st' : RecState)
    (h : depsLoop env call md ds st = some (.ok st')) :
    Ext env root st st' ∧
    ∀ d ∈ ds, ∀ p, d.path = some p → followable env md (depManifest p) = true → d.name ∈ st'.visited := by
  induction ds generalizing st with
  | nil =>
    simp [depsLoop] at h
    subst h
    exact ⟨Ext.refl _ _ _, by simp⟩
  | cons d ds ih =>
    have hds' : ∀ d ∈ ds, d ∈ pkg.deps := fun x hx => hds x (by simp [hx])
    simp only [depsLoop] at h
    split at h
    · rename_i hp
      obtain ⟨h1, h2⟩ := ih hds' st h
      refine ⟨h1, ?_⟩
      intro x hx p hxp hf
      simp at hx
      rcases hx with rfl | hx
      · simp [hp] at hxp
      · exact h2 x hx p hxp hf
    · rename_i p hp
      split at h
      · rename_i hvis
        obtain ⟨h1, h2⟩ := ih hds' st h
        refine ⟨h1, ?_⟩
        intro x hx q hxq hf
        simp at hx
        rcases hx with rfl | hx
        · exact h1.vis _ (by simpa using hvis)
        · exact h2 x hx q hxq hf
      · rename_i hvis
        split at h
        · rename_i hfol
          split at h
          · rename_i st1 hc
            have hedge : EdgeN env m d.name (depManifest p) :=
              ⟨md, hmd, pkg, hpkg, d, hds d (by simp), p, hp, rfl, rfl, hfol⟩
            have hreach : Reach env root (some (depManifest p)) := .step hm hedge
            obtain ⟨hc1, hc2⟩ := hcall _ _ _ hreach hc
            obtain ⟨h1, h2⟩ := ih hds' st1 h
            have hext : Ext env root st st1 := by
              refine ⟨fun n hn => hc1.vis n (by simp [hn]), hc1.tgt, hc1.sound, hc1.sorted, ?_⟩
              intro n hn hna
              by_cases hnd : n = d.name
              · subst hnd
                intro m2 m2' hr2 he2
                have := hfun _ _ _ _ _ hr2 hm he2 hedge
                subst this
                exact hc2
              · exact hc1.newClosed n hn (by simp [hnd, hna])
            refine ⟨hext.trans h1, ?_⟩
            intro x hx q hxq hf
            simp at hx
            rcases hx with rfl | hx
            · exact h1.vis _ (hc1.vis _ (by simp))
            · exact h2 x hx q hxq hf
          · rename_i hne
            exact absurd h (by
              intro heq
              exact hne _ heq)
        · rename_i hfol
          obtain ⟨h1, h2⟩ := ih hds' st h
          refine ⟨h1, ?_⟩
          intro x hx q hxq hf
          simp at hx
          rcases hx with rfl | hx
          · rw [hp] at hxq; cases hxq; exact absurd hf hfol
          · exact h2 x hx q hxq hf

theorem pkgsLoop_spec {env : Env} {root : Option Path}
    {call : Path → RecState → Option (Except Err RecState)} (hcall : CallSpec env root call)
    (hfun : NameFun env root) {m : Option Path} (hm : Reach env root m) {md : Metadata}
    (hmd : env.metadata m = .ok md)
    (ps : List Package) (hps : ∀ p ∈ ps, p ∈ md.packages) (st st' : RecState)
    (h : pkgsLoop env call md ps st = some (.ok st')) :
    Ext env root st st' ∧
    (∀ pkg ∈ ps, ∀ t ∈ pkg.targets, srcCanon env t ∈ paths st'.targets) ∧
    (∀ pkg ∈ ps, ∀ d ∈ pkg.deps, ∀ p, d.path = some p → followable env md (depManifest p) = true →
      d.name ∈ st'.visited) := by
  induction ps generalizing st with
  | nil =>
    simp [pkgsLoop] at h
    subst h
    exact ⟨Ext.refl _ _ _, by simp, by simp⟩
  | cons pkg ps ih =>
    have hps' : ∀ p ∈ ps, p ∈ md.packages := fun x hx => hps x (by simp [hx])
    have hpkg : pkg ∈ md.packages := hps pkg (by simp)
    simp only [pkgsLoop] at h
    split at h
    · cases h
    · rename_i ts hins
      split at h
      · rename_i st1 hdl
        obtain ⟨hd1, hd2⟩ := depsLoop_spec hcall hfun hm hmd hpkg pkg.deps (fun _ h => h) _ _ hdl
        obtain ⟨h1, h2, h3⟩ := ih hps' st1 h
        have hext0 : Ext env root st { st with targets := ts } := by
          refine ⟨fun _ h => h, ?_, ?_, fun hs => insertTargets_sorted hins hs, fun _ h h' => absurd h h'⟩
          · intro p hp; exact (mem_paths_insertTargets hins p).mpr (.inl hp)
          · intro p hp
            rcases (mem_paths_insertTargets hins p).mp hp with hp | ⟨t, ht, hp⟩
            · exact .inl hp
            · exact .inr ⟨m, md, hm, hmd, pkg, hpkg, t, ht, hp⟩
        refine ⟨(hext0.trans hd1).trans h1, ?_, ?_⟩
        · intro q hq t ht
          simp at hq
          rcases hq with rfl | hq
          · apply h1.tgt; apply hd1.tgt
            exact (mem_paths_insertTargets hins _).mpr (.inr ⟨t, ht, rfl⟩)
          · exact h2 q hq t ht
        · intro q hq d hd p hdp hf
          simp at hq
          rcases hq with rfl | hq
          · exact h1.vis _ (hd2 d hd p hdp hf)
          · exact h3 q hq d hd p hdp hf
      · rename_i hne
        exact absurd h (by intro heq; exact hne _ heq)

theorem recursive_spec {env : Env} {root : Option Path} (hfun : NameFun env root) (fuel : Nat) :
    ∀ (m : Option Path) (st st' : RecState), Reach env root m →
      getTargetsRecursive env fuel m st = some (.ok st') →
      Ext env root st st' ∧ Closed env st' m := by
  induction fuel with
  | zero => intro m st st' _ h; simp [getTargetsRecursive] at h
  | succ fuel ih =>
    intro m st st' hm h
    simp only [getTargetsRecursive] at h
    split at h
    · cases h
    · rename_i md hmd
      have hcall : CallSpec env root (fun m st => getTargetsRecursive env fuel (some m) st) :=
        fun m st st' hr hc => ih (some m) st st' hr hc
      obtain ⟨h1, h2, h3⟩ := pkgsLoop_spec hcall hfun hm hmd md.packages (fun _ h => h) st st' h
      refine ⟨h1, ?_⟩
      intro md' hmd'
      rw [hmd] at hmd'
      cases hmd'
      refine ⟨h2, ?_⟩
      rintro n m' ⟨pkg, hpkg, d, hd, p, hdp, rfl, rfl, hf⟩
      exact h3 pkg hpkg d hd p hdp hf

/-- Everything reachable is closed at the end of a successful root call. -/
theorem recursive_closed_all {env : Env} {root : Option Path} (hfun : NameFun env root) {fuel : Nat}
    {st' : RecState} (h : getTargetsRecursive env fuel root ⟨[], []⟩ = some (.ok st')) :
    ∀ m, Reach env root m → Closed env st' m := by
  obtain ⟨hext, hcl⟩ := recursive_spec hfun fuel root _ _ .root h
  intro m hm
  induction hm with
  | root => exact hcl
  | step hr he ih =>
    rename_i m n m'
    obtain ⟨md, hmd, hedge⟩ := he
    have hn : n ∈ st'.visited := (ih md hmd).2 n m' hedge
    exact hext.newClosed n hn (by simp) _ _ hr ⟨md, hmd, hedge⟩

theorem recursive_paths_iff {env : Env} {root : Option Path} (hfun : NameFun env root) {fuel : Nat}
    {st' : RecState} (h : getTargetsRecursive env fuel root ⟨[], []⟩ = some (.ok st')) (p : Path) :
    p ∈ paths st'.targets ↔ SpecPath env root p := by
  constructor
  · intro hp
    rcases (recursive_spec hfun fuel root _ _ .root h).1.sound p hp with h | h
    · simp [paths] at h
    · exact h
  · rintro ⟨m, md, hm, hmd, pkg, hpkg, t, ht, rfl⟩
    exact (recursive_closed_all hfun h m hm md hmd).1 pkg hpkg t ht

theorem recursive_sorted {env : Env} {root : Option Path} (hfun : NameFun env root) {fuel : Nat}
    {st' : RecState} (h : getTargetsRecursive env fuel root ⟨[], []⟩ = some (.ok st')) :
    Sorted Target.cmp st'.targets :=
  (recursive_spec hfun fuel root _ _ .root h).1.sorted (by simp [Sorted])

/-! ## Fuel -/

/-- Number of (occurrences of) names not yet visited. -/
def unv : List Str → List Str → Nat
  | [], _ => 0
  | a :: r, V => (if a ∈ V then 0 else 1) + unv r V

theorem unv_le_length (names V : List Str) : unv names V ≤ names.length := by
  induction names with
  | nil => simp [unv]
  | cons a r ih => simp only [unv, List.length_cons]; split <;> omega

theorem unv_le {names V V' : List Str} (h : ∀ n ∈ V, n ∈ V') : unv names V' ≤ unv names V := by
  induction names with
  | nil => simp [unv]
  | cons a r ih =>
    simp only [unv]
    by_cases h1 : a ∈ V
    · have := h a h1; simp only [h1, this, if_true]; omega
    · by_cases h2 : a ∈ V' <;> simp only [h1, h2, if_true, if_false] <;> omega

theorem unv_lt {names V : List Str} {n : Str} (hn : n ∈ names) (hv : n ∉ V) :
    unv names (n :: V) < unv names V := by
  induction names with
  | nil => simp at hn
  | cons a r ih =>
    have hle : unv r (n :: V) ≤ unv r V := unv_le (fun x hx => by simp [hx])
    simp only [unv]
    by_cases ha : a = n
    · subst ha; simp only [List.mem_cons, true_or, if_true, hv, if_false]; omega
    · have hn' : n ∈ r := by simpa [Ne.symm ha] using hn
      have := ih hn'
      by_cases h1 : a ∈ V
      · simp only [List.mem_cons, h1, or_true, if_true]; omega
      · have : a ∉ n :: V := by simp [ha, h1]
        simp only [this, h1, if_false]; omega

/-- Every path dependency of every answer has its name in `names`. -/
def NamesBound (env : Env) (names : List Str) : Prop :=
  ∀ m md, env.metadata m = .ok md → ∀ pkg ∈ md.packages, ∀ d ∈ pkg.deps, d.path.isSome → d.name ∈ names

/-- "`call` answers whenever fewer than `k` names are unvisited, and only adds to `visited`". -/
def CallTotal (names : List Str) (k : Nat) (call : Path → RecState → Option (Except Err RecState)) : Prop :=
  ∀ m st, unv names st.visited < k →
    ∃ r, call m st = some r ∧ ∀ st', r = .ok st' → ∀ n ∈ st.visited, n ∈ st'.visited

theorem depsLoop_total {env : Env} {names : List Str} {k : Nat}
    {call : Path → RecState → Option (Except Err RecState)} (hcall : CallTotal names k call)
    (md : Metadata) (ds : List Dep) (hds : ∀ d ∈ ds, d.path.isSome → d.name ∈ names) (st : RecState)
    (hk : unv names st.visited ≤ k) :
    ∃ r, depsLoop env call md ds st = some r ∧ ∀ st', r = .ok st' → ∀ n ∈ st.visited, n ∈ st'.visited := by
  induction ds generalizing st with
  | nil => exact ⟨.ok st, by simp [depsLoop], by intro st' h; cases h; simp⟩
  | cons d ds ih =>
    have hds' : ∀ d ∈ ds, d.path.isSome → d.name ∈ names := fun x hx => hds x (by simp [hx])
    simp only [depsLoop]
    split
    · exact ih hds' st hk
    · rename_i p hp
      split
      · exact ih hds' st hk
      · rename_i hvis
        split
        · have hvis' : d.name ∉ st.visited := by simpa using hvis
          have hn : d.name ∈ names := hds d (by simp) (by simp [hp])
          have hlt := unv_lt hn hvis'
          obtain ⟨r, hr1, hr2⟩ := hcall (depManifest p) { st with visited := d.name :: st.visited }
            (by simp only; omega)
          rw [hr1]
          match r, hr2 with
          | .error e, _ => exact ⟨.error e, rfl, by intro st' h; cases h⟩
          | .ok st1, hr2 =>
            have hsub := hr2 st1 rfl
            have hk1 : unv names st1.visited ≤ k := by
              have := unv_le (names := names) hsub
              simp only at this; omega
            obtain ⟨r', h1, h2⟩ := ih hds' st1 hk1
            refine ⟨r', h1, ?_⟩
            intro st' hst' n hn
            exact h2 st' hst' n (hsub n (by simp [hn]))
        · exact ih hds' st hk

theorem pkgsLoop_total {env : Env} {names : List Str} {k : Nat}
    {call : Path → RecState → Option (Except Err RecState)} (hcall : CallTotal names k call)
    (md : Metadata) (ps : List Package)
    (hps : ∀ p ∈ ps, ∀ d ∈ p.deps, d.path.isSome → d.name ∈ names) (st : RecState)
    (hk : unv names st.visited ≤ k) :
    ∃ r, pkgsLoop env call md ps st = some r ∧ ∀ st', r = .ok st' → ∀ n ∈ st.visited, n ∈ st'.visited := by
  induction ps generalizing st with
  | nil => exact ⟨.ok st, by simp [pkgsLoop], by intro st' h; cases h; simp⟩
  | cons p ps ih =>
    have hps' : ∀ q ∈ ps, ∀ d ∈ q.deps, d.path.isSome → d.name ∈ names := fun x hx => hps x (by simp [hx])
    simp only [pkgsLoop]
    split
    · rename_i e _; exact ⟨.error e, rfl, by intro st' h; cases h⟩
    · rename_i ts _
      obtain ⟨r, hr1, hr2⟩ := depsLoop_total (env := env) hcall md p.deps (hps p (by simp))
        { st with targets := ts } hk
      rw [hr1]
      match r, hr2 with
      | .error e, _ => exact ⟨.error e, rfl, by intro st' h; cases h⟩
      | .ok st1, hr2 =>
        have hsub := hr2 st1 rfl
        have hk1 : unv names st1.visited ≤ k := by
          have := unv_le (names := names) hsub
          simp only at this; omega
        obtain ⟨r', h1, h2⟩ := ih hps' st1 hk1
        exact ⟨r', h1, fun st' hst' n hn => h2 st' hst' n (hsub n hn)⟩

/-- The recursion needs at most one level per unvisited dependency name, plus one. -/
theorem recursive_total {env : Env} {names : List Str} (hb : NamesBound env names) (fuel : Nat) :
    ∀ (m : Option Path) (st : RecState), unv names st.visited < fuel →
      ∃ r, getTargetsRecursive env fuel m st = some r ∧
        ∀ st', r = .ok st' → ∀ n ∈ st.visited, n ∈ st'.visited := by
  induction fuel with
  | zero => intro m st h; omega
  | succ fuel ih =>
    intro m st h
    simp only [getTargetsRecursive]
    split
    · rename_i e _; exact ⟨.error (.metadata e), rfl, by intro st' h; cases h⟩
    · rename_i md hmd
      have hcall : CallTotal names fuel (fun m st => getTargetsRecursive env fuel (some m) st) :=
        fun m st h => ih (some m) st h
      exact pkgsLoop_total hcall md md.packages (fun p hp d hd => hb m md hmd p hp d hd) st (by omega)

theorem recursive_fuel_suffices {env : Env} {names : List Str} (hb : NamesBound env names)
    (fuel : Nat) (hf : names.length < fuel) (m : Option Path) (ts : TSet) :
    (getTargetsRecursive env fuel m ⟨ts, []⟩).isSome = true := by
  have : unv names [] < fuel := by
    have := unv_le_length names []
    omega
  obtain ⟨r, hr, _⟩ := recursive_total hb fuel m ⟨ts, []⟩ this
  simp [hr]

/-- More fuel never changes an answer. -/
theorem depsLoop_call_mono {env : Env} {call call' : Path → RecState → Option (Except Err RecState)}
    (hc : ∀ m st r, call m st = some r → call' m st = some r) (md : Metadata) (ds : List Dep)
    (st : RecState) (r : Except Err RecState) (h : depsLoop env call md ds st = some r) :
    depsLoop env call' md ds st = some r := by
  induction ds generalizing st with
  | nil => simpa [depsLoop] using h
  | cons d ds ih =>
    simp only [depsLoop] at h ⊢
    split
    · rename_i hp; simp only [hp] at h; exact ih st h
    · rename_i p hp
      simp only [hp] at h
      split
      · rename_i hv; simp only [hv, if_true] at h; exact ih st h
      · rename_i hv
        simp only [hv] at h
        split
        · rename_i hf
          simp only [hf, if_true] at h
          cases hcall : call (depManifest p) { st with visited := d.name :: st.visited } with
          | none => simp [hcall] at h
          | some r1 =>
            rw [hc _ _ _ hcall]
            rw [hcall] at h
            cases r1 with
            | error e => exact h
            | ok st1 => exact ih st1 h
        · rename_i hf; simp only [hf] at h; exact ih st h

theorem pkgsLoop_call_mono {env : Env} {call call' : Path → RecState → Option (Except Err RecState)}
    (hc : ∀ m st r, call m st = some r → call' m st = some r) (md : Metadata) (ps : List Package)
    (st : RecState) (r : Except Err RecState) (h : pkgsLoop env call md ps st = some r) :
    pkgsLoop env call' md ps st = some r := by
  induction ps generalizing st with
  | nil => simpa [pkgsLoop] using h
  | cons p ps ih =>
    simp only [pkgsLoop] at h ⊢
    split
    · rename_i e he; simp only [he] at h; exact h
    · rename_i ts hts
      simp only [hts] at h
      cases hd : depsLoop env call md p.deps { st with targets := ts } with
      | none => simp [hd] at h
      | some r1 =>
        rw [depsLoop_call_mono hc md _ _ _ hd]
        rw [hd] at h
        cases r1 with
        | error e => exact h
        | ok st1 => exact ih st1 h

theorem recursive_fuel_mono {env : Env} (fuel : Nat) :
    ∀ (m : Option Path) (st : RecState) (r : Except Err RecState),
      getTargetsRecursive env fuel m st = some r → getTargetsRecursive env (fuel + 1) m st = some r := by
  induction fuel with
  | zero => intro m st r h; simp [getTargetsRecursive] at h
  | succ fuel ih =>
    intro m st r h
    rw [getTargetsRecursive] at h ⊢
    split
    · rename_i e he; simp only [he] at h; exact h
    · rename_i md hmd
      simp only [hmd] at h
      exact pkgsLoop_call_mono (fun m st r h => ih (some m) st r h) md _ _ _ h

theorem recursive_fuel_indep {env : Env} {f f' : Nat} {m : Option Path} {st : RecState}
    {r r' : Except Err RecState} (h : getTargetsRecursive env f m st = some r)
    (h' : getTargetsRecursive env f' m st = some r') : r = r' := by
  have mono : ∀ k f r, getTargetsRecursive env f m st = some r →
      getTargetsRecursive env (f + k) m st = some r := by
    intro k
    induction k with
    | zero => intro f r h; exact h
    | succ k ih => intro f r h; exact recursive_fuel_mono _ _ _ _ (ih f r h)
  have h1 := mono f' f r h
  have h2 := mono f f' r' h'
  rw [Nat.add_comm] at h2
  rw [h1] at h2
  cases h2; rfl

theorem world_namesBound (w : World) : NamesBound w.env w.depNames := by
  intro m md hmd pkg hpkg d hd hp
  simp only [World.env] at hmd
  split at hmd
  · rename_i a r hfind
    subst hmd
    have hmem := List.mem_of_find?_eq_some hfind
    simp only [World.depNames, List.mem_flatMap]
    refine ⟨_, hmem, ?_⟩
    simp only [List.mem_flatMap]
    exact ⟨pkg, hpkg, by simp; exact ⟨d, ⟨hd, hp⟩, rfl⟩⟩
  · cases hmd

theorem world_fuel_suffices (w : World) (m : Option Path) (ts : TSet) :
    (getTargetsRecursive w.env w.fuel m ⟨ts, []⟩).isSome = true :=
  recursive_fuel_suffices (world_namesBound w) _ (by simp [World.fuel]) m ts

/-! ## `-p`: the hit list -/

theorem mem_sinsert_str (x y : Str) (l : List Str) : y ∈ sinsert cmpStr x l ↔ y = x ∨ y ∈ l := by
  have := mem_map_sinsert (cmp := cmpStr) id (fun a b => by simp [cmpStr_eq_iff a b]) x l y
  simpa using this

theorem hitSet_spec (l : List Str) : Sorted cmpStr (hitSet l) ∧ ∀ n, n ∈ hitSet l ↔ n ∈ l := by
  unfold hitSet
  suffices H : ∀ (l acc : List Str), Sorted cmpStr acc →
      Sorted cmpStr (l.foldl (fun s n => sinsert cmpStr n s) acc) ∧
      ∀ n, n ∈ l.foldl (fun s n => sinsert cmpStr n s) acc ↔ n ∈ acc ∨ n ∈ l by
    have := H l [] (by simp [Sorted])
    simpa using this
  intro l
  induction l with
  | nil => intro acc h; simpa using h
  | cons a l ih =>
    intro acc h
    obtain ⟨h1, h2⟩ := ih _ (sinsert_sorted (x := a) h)
    refine ⟨h1, ?_⟩
    intro n
    simp only [List.foldl_cons, h2, mem_sinsert_str, List.mem_cons]
    constructor
    · rintro ((h | h) | h) <;> simp [h]
    · rintro (h | h | h) <;> simp [h]

theorem scontains_str (x : Str) (l : List Str) : scontains cmpStr x l = true ↔ x ∈ l := by
  simp [scontains]

theorem mem_sremove_str (x y : Str) (l : List Str) : y ∈ sremove cmpStr x l ↔ y ∈ l ∧ y ≠ x := by
  simp only [sremove, List.mem_filter, bne_iff_ne, ne_eq, cmpStr_eq_iff]
  constructor
  · rintro ⟨h1, h2⟩; exact ⟨h1, fun h => h2 h.symm⟩
  · rintro ⟨h1, h2⟩; exact ⟨h1, fun h => h2 h.symm⟩

theorem sremove_sorted (x : Str) {l : List Str} (h : Sorted cmpStr l) : Sorted cmpStr (sremove cmpStr x l) :=
  List.Pairwise.filter _ h

/-- The targets of the first package called `n`. -/
def FirstNamed (env : Env) (ps : List Package) (n : Str) (p : Path) : Prop :=
  ∃ pkg, ps.find? (fun q => q.name == n) = some pkg ∧ ∃ t ∈ pkg.targets, srcCanon env t = p

theorem hitlistLoop_spec {env : Env} (ps : List Package) (hit : List Str) (s : TSet)
    {hit' : List Str} {s' : TSet} (h : hitlistLoop env ps hit s = .ok (hit', s')) :
    (∀ n, n ∈ hit' ↔ n ∈ hit ∧ ∀ q ∈ ps, q.name ≠ n) ∧
    (Sorted cmpStr hit → Sorted cmpStr hit') ∧
    (Sorted Target.cmp s → Sorted Target.cmp s') ∧
    (∀ p, p ∈ paths s' ↔ p ∈ paths s ∨ ∃ n ∈ hit, FirstNamed env ps n p) := by
  induction ps generalizing hit s with
  | nil =>
    simp [hitlistLoop] at h
    obtain ⟨rfl, rfl⟩ := h
    simp [FirstNamed]
  | cons q ps ih =>
    simp only [hitlistLoop] at h
    split at h
    · rename_i hc
      rw [scontains_str] at hc
      split at h
      · cases h
      · rename_i s1 hins
        obtain ⟨h1, h2, h3, h4⟩ := ih _ _ h
        refine ⟨?_, fun hs => h2 (sremove_sorted _ hs), fun hs => h3 (insertTargets_sorted hins hs), ?_⟩
        · intro n
          rw [h1, mem_sremove_str]
          constructor
          · rintro ⟨⟨ha, hb⟩, hc'⟩
            refine ⟨ha, ?_⟩
            intro x hx
            simp at hx
            rcases hx with rfl | hx
            · exact fun h => hb h.symm
            · exact hc' x hx
          · intro ⟨ha, hb⟩
            exact ⟨⟨ha, fun h => hb q (by simp) h.symm⟩, fun x hx => hb x (by simp [hx])⟩
        · intro p
          rw [h4, mem_paths_insertTargets hins]
          constructor
          · rintro ((hp | ⟨t, ht, hp⟩) | ⟨n, hn, pkg, hf, hp⟩)
            · exact .inl hp
            · exact .inr ⟨q.name, hc, q, by simp, t, ht, hp⟩
            · rw [mem_sremove_str] at hn
              refine .inr ⟨n, hn.1, pkg, ?_, hp⟩
              rw [List.find?_cons]
              have : (q.name == n) = false := by simpa using fun h => hn.2 h.symm
              simp [this, hf]
          · rintro (hp | ⟨n, hn, pkg, hf, hp⟩)
            · exact .inl (.inl hp)
            · rw [List.find?_cons] at hf
              by_cases hqn : q.name = n
              · have : (q.name == n) = true := by simpa using hqn
                simp only [this] at hf
                cases hf
                obtain ⟨t, ht, hp⟩ := hp
                exact .inl (.inr ⟨t, ht, hp⟩)
              · have : (q.name == n) = false := by simpa using hqn
                simp only [this] at hf
                exact .inr ⟨n, (mem_sremove_str _ _ _).mpr ⟨hn, fun h => hqn h.symm⟩, pkg, hf, hp⟩
    · rename_i hc
      rw [scontains_str] at hc
      obtain ⟨h1, h2, h3, h4⟩ := ih _ _ h
      refine ⟨?_, h2, h3, ?_⟩
      · intro n
        rw [h1]
        constructor
        · rintro ⟨ha, hb⟩
          refine ⟨ha, ?_⟩
          intro x hx
          simp at hx
          rcases hx with rfl | hx
          · intro h; exact hc (h ▸ ha)
          · exact hb x hx
        · intro ⟨ha, hb⟩
          exact ⟨ha, fun x hx => hb x (by simp [hx])⟩
      · intro p
        rw [h4]
        have key : ∀ n ∈ hit, (FirstNamed env ps n p ↔ FirstNamed env (q :: ps) n p) := by
          intro n hn
          have : (q.name == n) = false := by
            simp only [beq_eq_false_iff_ne, ne_eq]
            intro h; exact hc (h ▸ hn)
          simp [FirstNamed, this]
        constructor
        · rintro (hp | ⟨n, hn, hf⟩)
          · exact .inl hp
          · exact .inr ⟨n, hn, (key n hn).mp hf⟩
        · rintro (hp | ⟨n, hn, hf⟩)
          · exact .inl hp
          · exact .inr ⟨n, hn, (key n hn).mpr hf⟩

theorem hitlistLoop_err {env : Env} (ps : List Package) (hit : List Str) (s : TSet) {e : Err}
    (h : hitlistLoop env ps hit s = .error e) :
    e = .kindPanic ∧ ∃ q ∈ ps, ∃ t ∈ q.targets, t.kind = [] := by
  induction ps generalizing hit s with
  | nil => simp [hitlistLoop] at h
  | cons q ps ih =>
    simp only [hitlistLoop] at h
    split at h
    · split at h
      · rename_i e' he
        cases h
        obtain ⟨h1, t, ht, hk⟩ := insertTargets_err he
        exact ⟨h1, q, by simp, t, ht, hk⟩
      · obtain ⟨h1, x, hx, h2⟩ := ih _ _ h
        exact ⟨h1, x, by simp [hx], h2⟩
    · obtain ⟨h1, x, hx, h2⟩ := ih _ _ h
      exact ⟨h1, x, by simp [hx], h2⟩

theorem sorted_head_le {l : List Str} {n : Str} {r : List Str} (hs : Sorted cmpStr l)
    (hl : l = n :: r) : ∀ x ∈ l, cmpStr n x ≠ .gt := by
  subst hl
  unfold Sorted at hs
  rw [List.pairwise_cons] at hs
  intro x hx
  simp at hx
  rcases hx with rfl | hx
  · simp [Std.ReflCmp.compare_self]
  · simp [hs.1 x hx]

/-- Complete description of `get_targets_with_hitlist`. -/
theorem hitlist_spec {env : Env} {mp : Option Path} {names : List Str} {md : Metadata}
    (hmd : env.metadata mp = .ok md) :
    match getTargetsWithHitlist env mp names [] with
    | .ok s =>
        (∀ n ∈ names, ∃ q ∈ md.packages, q.name = n) ∧ Sorted Target.cmp s ∧
        ∀ p, p ∈ paths s ↔ ∃ n ∈ names, FirstNamed env md.packages n p
    | .error e =>
        (e = .kindPanic ∧ ∃ q ∈ md.packages, ∃ t ∈ q.targets, t.kind = []) ∨
        (∃ n, e = .notMember n ∧ n ∈ names ∧ (∀ q ∈ md.packages, q.name ≠ n) ∧
          ∀ n' ∈ names, (∀ q ∈ md.packages, q.name ≠ n') → cmpStr n n' ≠ .gt) := by
  obtain ⟨hs0, hm0⟩ := hitSet_spec names
  unfold getTargetsWithHitlist
  simp only [hmd]
  cases hl : hitlistLoop env md.packages (hitSet names) [] with
  | error e => exact .inl (hitlistLoop_err _ _ _ hl)
  | ok r =>
    obtain ⟨hit', s'⟩ := r
    obtain ⟨h1, h2, h3, h4⟩ := hitlistLoop_spec _ _ _ hl
    cases hit' with
    | nil =>
      simp only
      refine ⟨?_, h3 (by simp [Sorted]), ?_⟩
      · intro n hn
        have := (not_congr (h1 n)).mp (by simp)
        rw [hm0] at this
        simp only [not_and, hn, true_implies] at this
        have : ∃ q ∈ md.packages, ¬ q.name ≠ n := by
          apply Classical.byContradiction
          intro hc
          exact this (fun q hq hne => hc ⟨q, hq, fun h => h hne⟩)
        obtain ⟨q, hq, hne⟩ := this
        exact ⟨q, hq, Classical.not_not.mp hne⟩
      · intro p
        rw [h4]
        simp [paths, hm0]
    | cons n r =>
      simp only
      right
      have hn := (h1 n).mp (by simp)
      rw [hm0] at hn
      refine ⟨n, rfl, hn.1, hn.2, ?_⟩
      intro n' hn' hmiss
      have : n' ∈ n :: r := (h1 n').mpr ⟨(hm0 n').mpr hn', hmiss⟩
      exact sorted_head_le (h2 hs0) rfl n' this

/-! ## The root strategy -/

/-- `current_dir_manifest`. -/
def currentManifest (env : Env) : Option Path → Option Path
  | some tm => env.canon tm
  | none => (env.canon env.cwd).map Path.joinCargoToml

/-- `in_workspace_root`. -/
def inWsRoot (env : Env) (wsRoot : Path) : Option Path → Bool
  | some tm => wsRoot == tm
  | none => env.canon env.cwd == some wsRoot

/-- Which packages `get_targets_root_only` takes. -/
def RootSelected (env : Env) (mp : Option Path) (md : Metadata) (wsRoot here : Path) (pkg : Package) : Prop :=
  md.packages.length = 1 ∨ inWsRoot env wsRoot mp = true ∨
    (env.canon (parsePath pkg.manifestPath)).getD [] = here

theorem mem_paths_insertTargets_nil {env : Env} {ts : List MTarget} {s' : TSet}
    (h : insertTargets env ts [] = .ok s') (p : Path) :
    p ∈ paths s' ↔ ∃ t ∈ ts, srcCanon env t = p := by
  rw [mem_paths_insertTargets h]; simp [paths]

theorem rootOnly_ok {env : Env} {mp : Option Path} {s : TSet}
    (h : getTargetsRootOnly env mp [] = .ok s) :
    ∃ md wsRoot here, env.metadata mp = .ok md ∧ env.canon (parsePath md.workspaceRoot) = some wsRoot ∧
      currentManifest env mp = some here ∧
      insertTargets env (rootPackageTargets env md (inWsRoot env wsRoot mp) here) [] = .ok s := by
  unfold getTargetsRootOnly at h
  split at h
  · cases h
  · rename_i md hmd
    split at h
    · cases h
    · rename_i wsRoot hws
      cases mp with
      | some tm =>
        simp only at h
        cases hc : env.canon tm with
        | none => simp [hc] at h
        | some c =>
          simp only [hc] at h
          exact ⟨md, wsRoot, c, hmd, hws, by simp [currentManifest, hc], by simpa [inWsRoot] using h⟩
      | none =>
        simp only at h
        cases hc : env.canon env.cwd with
        | none => simp [hc] at h
        | some cd =>
          simp only [hc] at h
          have : inWsRoot env wsRoot none = (wsRoot == cd) := by
            simp only [inWsRoot, hc]
            rw [Bool.eq_iff_iff, beq_iff_eq, beq_iff_eq]
            exact ⟨fun h => by cases h; rfl, fun h => by rw [h]⟩
          exact ⟨md, wsRoot, cd.joinCargoToml, hmd, hws, by simp [currentManifest, hc], by rw [this]; exact h⟩

theorem mem_rootPackageTargets {env : Env} {md : Metadata} {inRoot : Bool} {here : Path} (t : MTarget) :
    t ∈ rootPackageTargets env md inRoot here ↔
      ∃ pkg ∈ md.packages, (md.packages.length = 1 ∨ inRoot = true ∨
        (env.canon (parsePath pkg.manifestPath)).getD [] = here) ∧ t ∈ pkg.targets := by
  unfold rootPackageTargets
  split
  · rename_i q hq
    simp [hq]
  · rename_i hne
    have hlen : md.packages.length ≠ 1 := by
      intro hl
      match hp : md.packages, hl with
      | [q], _ => exact hne q hp
    simp only [List.mem_flatMap, List.mem_filter, Bool.or_eq_true, beq_iff_eq, hlen, false_or]
    constructor
    · rintro ⟨q, ⟨hq, hsel⟩, ht⟩; exact ⟨q, hq, hsel, ht⟩
    · rintro ⟨q, hq, hsel, ht⟩; exact ⟨q, ⟨hq, hsel⟩, ht⟩

theorem rootOnly_spec {env : Env} {mp : Option Path} {s : TSet}
    (h : getTargetsRootOnly env mp [] = .ok s) :
    ∃ md wsRoot here, env.metadata mp = .ok md ∧ env.canon (parsePath md.workspaceRoot) = some wsRoot ∧
      currentManifest env mp = some here ∧ Sorted Target.cmp s ∧
      ∀ p, p ∈ paths s ↔ ∃ pkg ∈ md.packages, RootSelected env mp md wsRoot here pkg ∧
        ∃ t ∈ pkg.targets, srcCanon env t = p := by
  obtain ⟨md, wsRoot, here, h1, h2, h3, hins⟩ := rootOnly_ok h
  refine ⟨md, wsRoot, here, h1, h2, h3, insertTargets_sorted hins (by simp [Sorted]), ?_⟩
  intro p
  rw [mem_paths_insertTargets_nil hins]
  constructor
  · rintro ⟨t, ht, hp⟩
    obtain ⟨pkg, hpkg, hsel, ht⟩ := (mem_rootPackageTargets t).mp ht
    exact ⟨pkg, hpkg, hsel, t, ht, hp⟩
  · rintro ⟨pkg, hpkg, hsel, t, ht, hp⟩
    exact ⟨t, (mem_rootPackageTargets t).mpr ⟨pkg, hpkg, hsel, ht⟩, hp⟩

/-! ## Grouping by edition -/

theorem Edition.year_inj {a b : Edition} (h : a.year = b.year) : a = b := by
  cases a <;> cases b <;> simp [Edition.year] at h <;> rfl

abbrev EMap := List (Edition × List Path)

/-- Keys strictly ascending (`BTreeMap` iteration order). -/
def KeysSorted (m : EMap) : Prop := m.Pairwise (fun a b => a.1.year < b.1.year)

/-- The vector stored under `e` (empty when absent). -/
def filesOf (e : Edition) (m : EMap) : List Path :=
  match m.find? (fun x => x.1 == e) with
  | some x => x.2
  | none => []

theorem filesOf_cons (e : Edition) (x : Edition × List Path) (m : EMap) :
    filesOf e (x :: m) = if x.1 = e then x.2 else filesOf e m := by
  unfold filesOf
  rw [List.find?_cons]
  by_cases h : x.1 = e
  · simp [h]
  · have : (x.1 == e) = false := by simpa using h
    simp [h, this]

theorem filesOf_eq_nil_of_lt {e : Edition} {m : EMap} (h : ∀ x ∈ m, e.year < x.1.year) :
    filesOf e m = [] := by
  induction m with
  | nil => rfl
  | cons x m ih =>
    rw [filesOf_cons]
    have hx := h x (by simp)
    have : x.1 ≠ e := by intro heq; rw [heq] at hx; omega
    simp only [this, if_false]
    exact ih (fun y hy => h y (by simp [hy]))

theorem mapPush_keys {e : Edition} {p : Path} {m : EMap} :
    ∀ x ∈ mapPush e p m, x.1 = e ∨ ∃ y ∈ m, y.1 = x.1 := by
  induction m with
  | nil => simp [mapPush]
  | cons y m ih =>
    obtain ⟨e', ps⟩ := y
    intro x hx
    simp only [mapPush] at hx
    split at hx
    · simp at hx
      rcases hx with rfl | rfl | hx
      · simp
      · simp
      · exact .inr ⟨x, by simp [hx], rfl⟩
    · split at hx
      · simp at hx
        rcases hx with rfl | hx
        · simp
        · exact .inr ⟨x, by simp [hx], rfl⟩
      · simp at hx
        rcases hx with rfl | hx
        · simp
        · rcases ih x hx with h | ⟨y, hy, h⟩
          · exact .inl h
          · exact .inr ⟨y, by simp [hy], h⟩

theorem mapPush_sorted {e : Edition} {p : Path} {m : EMap} (h : KeysSorted m) :
    KeysSorted (mapPush e p m) := by
  induction m with
  | nil => simp [mapPush, KeysSorted]
  | cons y m ih =>
    obtain ⟨e', ps⟩ := y
    unfold KeysSorted at *
    rw [List.pairwise_cons] at h
    simp only [mapPush]
    split
    · rename_i hlt
      rw [List.pairwise_cons]
      refine ⟨?_, List.pairwise_cons.mpr h⟩
      intro x hx
      simp at hx
      rcases hx with rfl | hx
      · exact hlt
      · have := h.1 x hx
        show e.year < x.1.year
        simp only at this; omega
    · split
      · exact List.pairwise_cons.mpr h
      · rename_i hnlt hne
        rw [List.pairwise_cons]
        refine ⟨?_, ih h.2⟩
        intro x hx
        rcases mapPush_keys x hx with hx | ⟨y, hy, hx⟩
        · have h1 : x.1.year = e.year := congrArg Edition.year hx
          have h2 : e.year ≠ e'.year := fun h => hne (Edition.year_inj h)
          show e'.year < x.1.year
          omega
        · have := h.1 y hy; rw [hx] at this; exact this

theorem filesOf_mapPush {e : Edition} {p : Path} {m : EMap} (h : KeysSorted m) (e' : Edition) :
    filesOf e' (mapPush e p m) = if e' = e then filesOf e m ++ [p] else filesOf e' m := by
  induction m with
  | nil =>
    simp only [mapPush, filesOf_cons]
    by_cases he : e' = e
    · simp [he, filesOf]
    · have : e ≠ e' := fun h => he h.symm
      simp [he, this, filesOf]
  | cons y m ih =>
    obtain ⟨k, ps⟩ := y
    unfold KeysSorted at h
    rw [List.pairwise_cons] at h
    simp only [mapPush]
    split
    · rename_i hlt
      rw [filesOf_cons]
      by_cases he : e' = e
      · subst he
        have : filesOf e' ((k, ps) :: m) = [] := by
          apply filesOf_eq_nil_of_lt
          intro x hx
          simp at hx
          rcases hx with rfl | hx
          · exact hlt
          · have := h.1 x hx; simp only at this; omega
        simp [this]
      · have : e ≠ e' := fun h => he h.symm
        simp [he, this]
    · split
      · rename_i hnlt hek
        subst hek
        rw [filesOf_cons, filesOf_cons]
        by_cases he : e' = e
        · subst he; simp
        · have : e ≠ e' := fun h => he h.symm
          simp [he, this, filesOf_cons]
      · rename_i hnlt hek
        rw [filesOf_cons, filesOf_cons, ih h.2]
        by_cases he : e' = e
        · subst he
          have : k ≠ e' := fun h => hek h.symm
          simp [this]
        · simp [he, filesOf_cons]

theorem mapPush_nonempty {e : Edition} {p : Path} {m : EMap} (h : ∀ x ∈ m, x.2 ≠ []) :
    ∀ x ∈ mapPush e p m, x.2 ≠ [] := by
  induction m with
  | nil => simp [mapPush]
  | cons y m ih =>
    obtain ⟨k, ps⟩ := y
    intro x hx
    simp only [mapPush] at hx
    split at hx
    · simp at hx
      rcases hx with rfl | rfl | hx
      · simp
      · exact h _ (by simp)
      · exact h _ (by simp [hx])
    · split at hx
      · simp at hx
        rcases hx with rfl | hx
        · simp
        · exact h _ (by simp [hx])
      · simp at hx
        rcases hx with rfl | hx
        · exact h _ (by simp)
        · exact ih (fun y hy => h y (by simp [hy])) x hx

theorem mapPush_flat_perm (e : Edition) (p : Path) (m : EMap) :
    ((mapPush e p m).flatMap (·.2)).Perm (p :: m.flatMap (·.2)) := by
  induction m with
  | nil => simp [mapPush]
  | cons y m ih =>
    obtain ⟨k, ps⟩ := y
    simp only [mapPush]
    split
    · simp
    · split
      · have : (ps ++ [p]) ++ m.flatMap (·.2) = ps ++ p :: m.flatMap (·.2) := by simp
        simp only [List.flatMap_cons]
        rw [this]
        exact List.perm_middle
      · simp only [List.flatMap_cons]
        exact (List.Perm.append_left ps ih).trans List.perm_middle

theorem filesOf_of_mem {m : EMap} (h : KeysSorted m) {e : Edition} {fs : List Path} (hm : (e, fs) ∈ m) :
    filesOf e m = fs := by
  induction m with
  | nil => simp at hm
  | cons y m ih =>
    unfold KeysSorted at h
    rw [List.pairwise_cons] at h
    rw [filesOf_cons]
    simp at hm
    rcases hm with rfl | hm
    · simp
    · have := h.1 _ hm
      have hne : y.1 ≠ e := by intro heq; rw [heq] at this; simp only at this; omega
      simp only [hne, if_false]
      exact ih h.2 hm

theorem foldl_mapPush_spec (ts : List Target) (m : EMap) (hk : KeysSorted m) (hn : ∀ x ∈ m, x.2 ≠ []) :
    let r := ts.foldl (fun h t => mapPush t.edition t.path h) m
    KeysSorted r ∧ (∀ x ∈ r, x.2 ≠ []) ∧
    (∀ e, filesOf e r = filesOf e m ++ (ts.filter (fun t => t.edition = e)).map (·.path)) ∧
    (r.flatMap (·.2)).Perm (m.flatMap (·.2) ++ ts.map (·.path)) := by
  induction ts generalizing m with
  | nil => refine ⟨hk, hn, ?_, ?_⟩ <;> simp
  | cons t ts ih =>
    obtain ⟨h1, h2, h3, h4⟩ := ih (mapPush t.edition t.path m) (mapPush_sorted hk) (mapPush_nonempty hn)
    refine ⟨h1, h2, ?_, ?_⟩
    · intro e
      simp only [List.foldl_cons]
      rw [h3 e, filesOf_mapPush hk, List.filter_cons]
      by_cases he : t.edition = e
      · subst he; simp
      · have : e ≠ t.edition := fun h => he h.symm
        simp [he, this]
    · simp only [List.foldl_cons, List.map_cons]
      refine h4.trans ?_
      refine (List.Perm.append_right _ (mapPush_flat_perm _ _ _)).trans ?_
      simpa using (List.perm_middle (l₁ := m.flatMap (·.2)) (l₂ := ts.map (·.path)) (a := t.path)).symm

/-- `by_edition`: ascending distinct editions; under each, exactly the paths of the targets of that
edition in path order; nothing empty; every target's edition is present. -/
theorem byEdition_spec (ts : TSet) :
    KeysSorted (byEdition ts) ∧
    (∀ e fs, (e, fs) ∈ byEdition ts → fs ≠ [] ∧ fs = (ts.filter (fun t => t.edition = e)).map (·.path)) ∧
    (∀ t ∈ ts, ∃ fs, (t.edition, fs) ∈ byEdition ts) ∧
    ((byEdition ts).flatMap (·.2)).Perm (paths ts) := by
  obtain ⟨h1, h2, h3, h4⟩ := foldl_mapPush_spec ts [] (by simp [KeysSorted]) (by simp)
  refine ⟨h1, ?_, ?_, by simpa [paths, byEdition] using h4⟩
  · intro e fs hm
    refine ⟨h2 _ hm, ?_⟩
    have := filesOf_of_mem h1 hm
    rw [← this]
    simpa [filesOf] using h3 e
  · intro t ht
    have h := h3 t.edition
    simp only [filesOf, List.find?_nil, List.nil_append] at h
    unfold byEdition
    split at h
    · rename_i x hx
      have hm := List.mem_of_find?_eq_some hx
      have hk := List.find?_some hx
      simp only [beq_iff_eq] at hk
      exact ⟨x.2, by rw [← hk]; exact hm⟩
    · have : t.path ∈ (ts.filter (fun u => u.edition = t.edition)).map (·.path) :=
        List.mem_map.mpr ⟨t, by simp [ht], rfl⟩
      rw [← h] at this
      simp at this

/-! ## Statuses -/

theorem foldStatus_ne_zero (ss : List Status) :
    foldStatus ss ≠ 0 ↔ ∃ n, Status.code n ∈ ss ∧ n ≠ 0 := by
  induction ss with
  | nil => simp [foldStatus]
  | cons s r ih =>
    simp only [foldStatus]
    cases s with
    | code n =>
      cases n with
      | zero =>
        simp only [Status.success, if_true, ih]
        constructor
        · rintro ⟨n, h1, h2⟩; exact ⟨n, by simp [h1], h2⟩
        · rintro ⟨n, h1, h2⟩
          simp at h1
          rcases h1 with rfl | h1
          · simp at h2
          · exact ⟨n, h1, h2⟩
      | succ n =>
        simp only [Status.success, Status.code?]
        constructor
        · intro _; exact ⟨n + 1, by simp, by simp⟩
        · intro _; simp
    | signal =>
      simp only [Status.success, Status.code?]
      simpa using ih
    | spawnErr =>
      simp only [Status.success, Status.code?]
      simpa using ih

/-- The first non-zero code is the result. -/
theorem foldStatus_first (ss : List Status) (pre post : List Status) (n : Nat) (hn : n ≠ 0)
    (h : ss = pre ++ .code n :: post) (hpre : ∀ s ∈ pre, ∀ k, s = .code k → k = 0) :
    foldStatus ss = n := by
  subst h
  induction pre with
  | nil =>
    cases n with
    | zero => simp at hn
    | succ n => simp [foldStatus, Status.success, Status.code?]
  | cons s pre ih =>
    have ih := ih (fun s hs => hpre s (by simp [hs]))
    simp only [List.cons_append, foldStatus]
    cases s with
    | code k =>
      have := hpre (.code k) (by simp) k rfl
      subst this
      simpa [Status.success] using ih
    | signal => simpa [Status.success, Status.code?] using ih
    | spawnErr => simpa [Status.success, Status.code?] using ih

theorem spawnLoop_spec (run : List Str → Status) (as : List (List Str)) :
    let r := spawnLoop run as
    (∀ x ∈ r.1, x.2 = run x.1) ∧
    (r.1.map (·.1) <+: as) ∧
    (r.2 = true → r.1.map (·.1) = as ∧ ∀ x ∈ r.1, x.2 ≠ .spawnErr) ∧
    (r.2 = false → ∃ a, (a, Status.spawnErr) ∈ r.1) := by
  induction as with
  | nil => simp [spawnLoop]
  | cons a as ih =>
    simp only [spawnLoop]
    split
    · rename_i hr
      simp [hr]
    · rename_i hne
      obtain ⟨h1, h2, h3, h4⟩ := ih
      refine ⟨?_, ?_, ?_, ?_⟩
      · intro x hx
        simp at hx
        rcases hx with rfl | hx
        · rfl
        · exact h1 x hx
      · simp only [List.map_cons]
        exact List.prefix_cons_inj a |>.mpr h2
      · intro hok
        obtain ⟨h3a, h3b⟩ := h3 hok
        refine ⟨by simp [h3a], ?_⟩
        intro x hx
        simp at hx
        rcases hx with rfl | hx
        · exact fun h => hne h
        · exact h3b x hx
      · intro hok
        obtain ⟨b, hb⟩ := h4 hok
        exact ⟨b, by simp [hb]⟩

/-- The exit code `handle_command_status(run_rustfmt(..))` yields. -/
def runExit (r : Except Err Nat) : Nat :=
  match r with
  | .ok c => c
  | .error e => errExit e

/-- Exactly when the exit code of the formatting run is non-zero. -/
theorem runRustfmt_exit (run : List Str → Status) (ts : TSet) (args : List Str) :
    let r := runRustfmt run ts args
    runExit r.2 ≠ 0 ↔ (∃ a, (a, Status.spawnErr) ∈ r.1) ∨ (∃ a n, (a, Status.code n) ∈ r.1 ∧ n ≠ 0) := by
  simp only [runRustfmt]
  obtain ⟨h1, h2, h3, h4⟩ := spawnLoop_spec run ((planInvocations ts args).map Invocation.argv)
  generalize spawnLoop run ((planInvocations ts args).map Invocation.argv) = r at *
  obtain ⟨tr, ok⟩ := r
  cases ok with
  | false =>
    simp only [Bool.false_eq_true, if_false, runExit, errExit]
    simp [h4 (by simp)]
  | true =>
    simp only [if_true, runExit]
    rw [foldStatus_ne_zero]
    obtain ⟨_, h3b⟩ := h3 (by simp)
    simp only at h3b
    constructor
    · rintro ⟨n, hn, hne⟩
      rw [List.mem_map] at hn
      obtain ⟨x, hx, hxs⟩ := hn
      exact .inr ⟨x.1, n, by rw [← hxs]; exact hx, hne⟩
    · rintro (⟨a, ha⟩ | ⟨a, n, ha, hne⟩)
      · exact absurd rfl (h3b _ ha)
      · exact ⟨n, List.mem_map.mpr ⟨_, ha, rfl⟩, hne⟩

theorem runRustfmt_trace (run : List Str → Status) (ts : TSet) (args : List Str) :
    let r := runRustfmt run ts args
    (r.1.map (·.1) <+: (planInvocations ts args).map Invocation.argv) ∧
    (∀ x ∈ r.1, x.2 = run x.1) ∧
    ((∀ a, run a ≠ .spawnErr) → r.1.map (·.1) = (planInvocations ts args).map Invocation.argv) := by
  simp only [runRustfmt]
  obtain ⟨h1, h2, h3, h4⟩ := spawnLoop_spec run ((planInvocations ts args).map Invocation.argv)
  generalize spawnLoop run ((planInvocations ts args).map Invocation.argv) = r at *
  obtain ⟨tr, ok⟩ := r
  refine ⟨h2, h1, ?_⟩
  intro hrun
  cases ok with
  | true => exact (h3 (by simp)).1
  | false =>
    obtain ⟨a, ha⟩ := h4 (by simp)
    have := h1 _ ha
    exact absurd this.symm (hrun a)

/-! ## Sortedness of the result, for every strategy -/

theorem depsLoop_sorted {env : Env} {call : Path → RecState → Option (Except Err RecState)}
    (hcall : ∀ m st st', call m st = some (.ok st') → Sorted Target.cmp st.targets → Sorted Target.cmp st'.targets)
    (md : Metadata) (ds : List Dep) (st st' : RecState)
    (h : depsLoop env call md ds st = some (.ok st')) (hs : Sorted Target.cmp st.targets) :
    Sorted Target.cmp st'.targets := by
  induction ds generalizing st with
  | nil => simp [depsLoop] at h; subst h; exact hs
  | cons d ds ih =>
    simp only [depsLoop] at h
    split at h
    · exact ih st h hs
    · split at h
      · exact ih st h hs
      · split at h
        · split at h
          · rename_i st1 hc
            exact ih st1 h (hcall _ _ _ hc hs)
          · rename_i hne; exact absurd h (fun heq => hne _ heq)
        · exact ih st h hs

theorem pkgsLoop_sorted {env : Env} {call : Path → RecState → Option (Except Err RecState)}
    (hcall : ∀ m st st', call m st = some (.ok st') → Sorted Target.cmp st.targets → Sorted Target.cmp st'.targets)
    (md : Metadata) (ps : List Package) (st st' : RecState)
    (h : pkgsLoop env call md ps st = some (.ok st')) (hs : Sorted Target.cmp st.targets) :
    Sorted Target.cmp st'.targets := by
  induction ps generalizing st with
  | nil => simp [pkgsLoop] at h; subst h; exact hs
  | cons p ps ih =>
    simp only [pkgsLoop] at h
    split at h
    · cases h
    · rename_i ts hins
      split at h
      · rename_i st1 hd
        exact ih st1 h (depsLoop_sorted hcall md _ _ _ hd (insertTargets_sorted hins hs))
      · rename_i hne; exact absurd h (fun heq => hne _ heq)

theorem recursive_sorted' {env : Env} (fuel : Nat) :
    ∀ (m : Option Path) (st st' : RecState), getTargetsRecursive env fuel m st = some (.ok st') →
      Sorted Target.cmp st.targets → Sorted Target.cmp st'.targets := by
  induction fuel with
  | zero => intro m st st' h; simp [getTargetsRecursive] at h
  | succ fuel ih =>
    intro m st st' h hs
    simp only [getTargetsRecursive] at h
    split at h
    · cases h
    · exact pkgsLoop_sorted (fun m st st' hc hs => ih (some m) st st' hc hs) _ _ _ _ h hs

/-- Unfolding `get_targets`: the set comes from the strategy's function and is not empty. -/
theorem getTargets_ok {env : Env} {fuel : Nat} {strategy : Strategy} {mp : Option Path} {T : TSet}
    (h : getTargets env fuel strategy mp = some (.ok T)) :
    T ≠ [] ∧
    match strategy with
    | .root => getTargetsRootOnly env mp [] = .ok T
    | .all => ∃ st, getTargetsRecursive env fuel mp ⟨[], []⟩ = some (.ok st) ∧ st.targets = T
    | .some names => getTargetsWithHitlist env mp names [] = .ok T := by
  unfold getTargets at h
  cases strategy with
  | root =>
    simp only at h
    cases hr : getTargetsRootOnly env mp [] with
    | error e => simp [hr] at h
    | ok s =>
      simp only [hr] at h
      cases s with
      | nil => simp at h
      | cons a r => simp at h; subst h; simp
  | all =>
    simp only at h
    cases hr : getTargetsRecursive env fuel mp ⟨[], []⟩ with
    | none => simp [hr] at h
    | some r =>
      cases r with
      | error e => simp [hr] at h
      | ok st =>
        obtain ⟨ts, vs⟩ := st
        simp only [hr] at h
        cases ts with
        | nil => simp at h
        | cons a r => simp at h; subst h; simp
  | some names =>
    simp only at h
    cases hr : getTargetsWithHitlist env mp names [] with
    | error e => simp [hr] at h
    | ok s =>
      simp only [hr] at h
      cases s with
      | nil => simp at h
      | cons a r => simp at h; subst h; exact ⟨by simp, hr⟩

theorem getTargets_sorted {env : Env} {fuel : Nat} {strategy : Strategy} {mp : Option Path} {T : TSet}
    (h : getTargets env fuel strategy mp = some (.ok T)) : Sorted Target.cmp T := by
  obtain ⟨_, h⟩ := getTargets_ok h
  cases strategy with
  | root =>
    obtain ⟨_, _, _, _, _, _, hs, _⟩ := rootOnly_spec h
    exact hs
  | all =>
    obtain ⟨st, hrec, rfl⟩ := h
    exact recursive_sorted' _ _ _ _ hrec (by simp [Sorted])
  | some names =>
    simp only at h
    unfold getTargetsWithHitlist at h
    split at h
    · cases h
    · split at h
      · cases h
      · rename_i hl
        cases h
        exact (hitlistLoop_spec _ _ _ hl).2.2.1 (by simp [Sorted])
      · cases h

/-! ## Command line -/

def hasEmit (args : List Str) : Bool := args.any (fun a => sEmit.isPrefixOf a)
def hasCheck (args : List Str) : Bool := args.any (fun a => a == sCheck)
def hasListFlag (args : List Str) : Bool :=
  args.any (fun a => a == sL || a == sFilesWithDiff)

theorem convert_table (fmt : Str) (args : List Str) :
    convertMessageFormat fmt args =
      if fmt = sShort then .ok (if hasListFlag args then args else args ++ [sL])
      else if fmt = sJson then
        (if hasEmit args then .error .emitWithJson
         else if hasCheck args then .error .checkWithJson
         else .ok (args ++ [sEmit, sJson]))
      else if fmt = sHuman then .ok args
      else .error .invalid := by
  rfl

theorem convert_ok_prefix {fmt : Str} {args out : List Str} (h : convertMessageFormat fmt args = .ok out) :
    ∃ extra, out = args ++ extra ∧
      (extra = [] ∨ extra = [sL] ∨ extra = [sEmit, sJson]) := by
  unfold convertMessageFormat at h
  simp only at h
  split at h
  · split at h <;> cases h
    · exact ⟨[], by simp, by simp⟩
    · exact ⟨_, rfl, by simp⟩
  · split at h
    · split at h
      · cases h
      · split at h
        · cases h
        · cases h; exact ⟨_, rfl, by simp⟩
    · split at h
      · cases h; exact ⟨[], by simp, by simp⟩
      · cases h

/-- The arguments with `--check` pushed (main.rs 121-127). -/
def withCheck (o : Opts) : List Str :=
  if o.check && !hasCheck o.rustfmtOptions then o.rustfmtOptions ++ [sCheck] else o.rustfmtOptions

theorem rustfmtArgs_eq (o : Opts) :
    rustfmtArgs o = match o.messageFormat with
      | none => .ok (withCheck o)
      | some f => convertMessageFormat f (withCheck o) := rfl

theorem hasCheck_iff (l : List Str) : hasCheck l = true ↔ sCheck ∈ l := by
  unfold hasCheck
  simp only [List.any_eq_true, beq_iff_eq]
  exact ⟨fun ⟨x, hx, h⟩ => h ▸ hx, fun h => ⟨_, h, rfl⟩⟩

theorem withCheck_spec (o : Opts) :
    (∃ e1, withCheck o = o.rustfmtOptions ++ e1) ∧
    (o.check = true → sCheck ∈ withCheck o) ∧
    (withCheck o).count sCheck =
      (if o.check = true ∧ o.rustfmtOptions.count sCheck = 0 then 1
       else o.rustfmtOptions.count sCheck) := by
  unfold withCheck
  by_cases hc : o.check = true
  · by_cases hp : sCheck ∈ o.rustfmtOptions
    · have h1 : hasCheck o.rustfmtOptions = true := (hasCheck_iff _).mpr hp
      have h2 : o.rustfmtOptions.count sCheck ≠ 0 := fun h0 => (List.count_eq_zero.mp h0) hp
      rw [if_neg (by simp [h1]), if_neg (fun h => h2 h.2)]
      exact ⟨⟨[], by simp⟩, fun _ => hp, rfl⟩
    · have h1 : hasCheck o.rustfmtOptions = false := by
        cases h : hasCheck o.rustfmtOptions with
        | false => rfl
        | true => exact absurd ((hasCheck_iff _).mp h) hp
      have h2 : o.rustfmtOptions.count sCheck = 0 := List.count_eq_zero.mpr hp
      rw [if_pos (by simp [hc, h1]), if_pos ⟨hc, h2⟩]
      refine ⟨⟨_, rfl⟩, fun _ => by simp, ?_⟩
      rw [List.count_append, h2]
      simp
  · have hc' : o.check = false := by simpa using hc
    rw [if_neg (by simp [hc']), if_neg (fun h => hc h.1)]
    exact ⟨⟨[], by simp⟩, fun h => absurd h hc, rfl⟩

theorem rustfmtArgs_shape {o : Opts} {args : List Str} (h : rustfmtArgs o = .ok args) :
    ∃ extra, args = o.rustfmtOptions ++ extra ∧
      (o.check = true → sCheck ∈ args) ∧
      args.count sCheck =
        (if o.check = true ∧ o.rustfmtOptions.count sCheck = 0 then 1
         else o.rustfmtOptions.count sCheck) := by
  obtain ⟨⟨e1, h1⟩, h2, h3⟩ := withCheck_spec o
  rw [rustfmtArgs_eq] at h
  split at h
  · cases h; exact ⟨e1, h1, h2, h3⟩
  · rename_i f _
    obtain ⟨e2, rfl, he2⟩ := convert_ok_prefix h
    refine ⟨e1 ++ e2, by rw [h1]; simp, fun hc => by simp [h2 hc], ?_⟩
    rw [List.count_append, h3]
    have hl : List.count sCheck [sL] = 0 := by decide
    have hj : List.count sCheck [sEmit, sJson] = 0 := by decide
    rcases he2 with rfl | rfl | rfl
    · simp
    · rw [hl]; simp
    · rw [hj]; simp

/-- `cargo fmt` goes on to format (no early exit, no forwarding of an information flag). -/
def Normal (o : Opts) : Prop :=
  (o.verbose && o.quiet) = false ∧ o.version = false ∧ o.rustfmtOptions.any isInfoFlag = false

theorem execute_normal {env : Env} {fuel : Nat} {run : List Str → Status} {o : Opts} (hn : Normal o) :
    execute env fuel run o =
      match rustfmtArgs o with
      | .error _ => some ⟨1, []⟩
      | .ok args =>
        match o.manifestPath with
        | some mp =>
          if !(cargoToml.isSuffixOf mp) then some ⟨1, []⟩
          else formatCrate env fuel run (Strategy.fromOpts o) args (some (parsePath mp))
        | none => formatCrate env fuel run (Strategy.fromOpts o) args none := by
  obtain ⟨h1, h2, h3⟩ := hn
  unfold execute
  simp only [h1, h2, h3, Bool.false_eq_true, if_false]
  cases rustfmtArgs o with
  | error e => rfl
  | ok args =>
    cases o.manifestPath with
    | none => rfl
    | some mp => rfl

theorem formatCrate_cases (env : Env) (fuel : Nat) (run : List Str → Status) (strategy : Strategy)
    (args : List Str) (mp : Option Path) :
    formatCrate env fuel run strategy args mp =
      match getTargets env fuel strategy mp with
      | none => none
      | some (.error e) => some ⟨errExit e, []⟩
      | some (.ok ts) => some ⟨runExit (runRustfmt run ts args).2, (runRustfmt run ts args).1⟩ := by
  unfold formatCrate
  cases hg : getTargets env fuel strategy mp with
  | none => rfl
  | some r =>
    cases r with
    | error e => rfl
    | ok ts =>
      simp only
      rcases hr : runRustfmt run ts args with ⟨tr, r⟩
      cases r <;> simp [runExit]

theorem errExit_ne_zero (e : Err) : errExit e ≠ 0 := by
  cases e <;> simp [errExit]

/-! ## Where the elements of the set come from -/

/-- First insertion wins, at the level of `cargo metadata` targets. -/
theorem insertTargets_first_wins {env : Env} (ts : List MTarget) (s : TSet) {s' : TSet}
    (h : insertTargets env ts s = .ok s') (hs : Sorted Target.cmp s) :
    ∀ y ∈ s', y ∈ s ∨ ((∀ z ∈ s, z.path ≠ y.path) ∧
      ∃ pre t post, ts = pre ++ t :: post ∧ Target.fromTarget env t = .ok y ∧
        ∀ u ∈ pre, srcCanon env u ≠ y.path) := by
  induction ts generalizing s with
  | nil => simp [insertTargets] at h; subst h; intro y hy; exact .inl hy
  | cons t ts ih =>
    simp only [insertTargets] at h
    split at h
    · cases h
    · rename_i tg htg
      intro y hy
      rcases ih _ h (insert_sorted hs) y hy with h0 | ⟨h1, pre, u, post, h2, h3, h4⟩
      · rcases sinsert_mem_cases hs h0 with h0 | ⟨rfl, h0⟩
        · exact .inl h0
        · right
          refine ⟨?_, [], t, ts, rfl, htg, by simp⟩
          intro z hz heq
          exact h0 z hz ((Target.cmp_eq_iff _ _).mpr heq.symm)
      · right
        have ht : srcCanon env t ≠ y.path := by
          intro heq
          have : tg.path ∈ paths (TSet.insert tg s) := (mem_paths_insert tg s _).mpr (.inl rfl)
          unfold paths at this
          rw [List.mem_map] at this
          obtain ⟨z, hz, hzp⟩ := this
          exact h1 z hz (hzp.trans ((fromTarget_ok htg).1.trans heq))
        refine ⟨fun z hz => h1 z (subset_sinsert z hz), t :: pre, u, post, by simp [h2], h3, ?_⟩
        intro v hv
        simp at hv
        rcases hv with rfl | hv
        · exact ht
        · exact h4 v hv

theorem insertTargets_mem {env : Env} {ts : List MTarget} {s s' : TSet}
    (h : insertTargets env ts s = .ok s') :
    ∀ y ∈ s', y ∈ s ∨ ∃ t ∈ ts, Target.fromTarget env t = .ok y := by
  induction ts generalizing s with
  | nil => simp [insertTargets] at h; subst h; intro y hy; exact .inl hy
  | cons t ts ih =>
    simp only [insertTargets] at h
    split at h
    · cases h
    · rename_i tg htg
      intro y hy
      rcases ih h y hy with h0 | ⟨u, hu, h0⟩
      · rcases mem_sinsert_imp h0 with rfl | h0
        · exact .inr ⟨t, by simp, htg⟩
        · exact .inl h0
      · exact .inr ⟨u, by simp [hu], h0⟩

/-- `y` was built from a target that some `cargo metadata` answer declares. -/
def Declared (env : Env) (y : Target) : Prop :=
  ∃ m md, env.metadata m = .ok md ∧ ∃ pkg ∈ md.packages, ∃ t ∈ pkg.targets, Target.fromTarget env t = .ok y

theorem depsLoop_declared {env : Env} {call : Path → RecState → Option (Except Err RecState)}
    (hcall : ∀ m st st', call m st = some (.ok st') → ∀ y ∈ st'.targets, y ∈ st.targets ∨ Declared env y)
    (md : Metadata) (ds : List Dep) (st st' : RecState)
    (h : depsLoop env call md ds st = some (.ok st')) :
    ∀ y ∈ st'.targets, y ∈ st.targets ∨ Declared env y := by
  induction ds generalizing st with
  | nil => simp [depsLoop] at h; subst h; intro y hy; exact .inl hy
  | cons d ds ih =>
    simp only [depsLoop] at h
    split at h
    · exact ih st h
    · split at h
      · exact ih st h
      · split at h
        · split at h
          · rename_i st1 hc
            intro y hy
            rcases ih st1 h y hy with h0 | h0
            · exact hcall _ _ _ hc y h0
            · exact .inr h0
          · rename_i hne; exact absurd h (fun heq => hne _ heq)
        · exact ih st h

theorem pkgsLoop_declared {env : Env} {call : Path → RecState → Option (Except Err RecState)}
    (hcall : ∀ m st st', call m st = some (.ok st') → ∀ y ∈ st'.targets, y ∈ st.targets ∨ Declared env y)
    {m : Option Path} {md : Metadata} (hmd : env.metadata m = .ok md)
    (ps : List Package) (hps : ∀ p ∈ ps, p ∈ md.packages) (st st' : RecState)
    (h : pkgsLoop env call md ps st = some (.ok st')) :
    ∀ y ∈ st'.targets, y ∈ st.targets ∨ Declared env y := by
  induction ps generalizing st with
  | nil => simp [pkgsLoop] at h; subst h; intro y hy; exact .inl hy
  | cons p ps ih =>
    simp only [pkgsLoop] at h
    split at h
    · cases h
    · rename_i ts hins
      split at h
      · rename_i st1 hd
        intro y hy
        rcases ih (fun q hq => hps q (by simp [hq])) st1 h y hy with h0 | h0
        · rcases depsLoop_declared hcall md _ _ _ hd y h0 with h1 | h1
          · rcases insertTargets_mem hins y h1 with h2 | ⟨t, ht, h2⟩
            · exact .inl h2
            · exact .inr ⟨m, md, hmd, p, hps p (by simp), t, ht, h2⟩
          · exact .inr h1
        · exact .inr h0
      · rename_i hne; exact absurd h (fun heq => hne _ heq)

theorem recursive_declared {env : Env} (fuel : Nat) :
    ∀ (m : Option Path) (st st' : RecState), getTargetsRecursive env fuel m st = some (.ok st') →
      ∀ y ∈ st'.targets, y ∈ st.targets ∨ Declared env y := by
  induction fuel with
  | zero => intro m st st' h; simp [getTargetsRecursive] at h
  | succ fuel ih =>
    intro m st st' h
    simp only [getTargetsRecursive] at h
    split at h
    · cases h
    · rename_i md hmd
      exact pkgsLoop_declared (fun m st st' hc => ih (some m) st st' hc) hmd _ (fun _ h => h) _ _ h

theorem hitlistLoop_declared {env : Env} {m : Option Path} {md : Metadata} (hmd : env.metadata m = .ok md)
    (ps : List Package) (hps : ∀ p ∈ ps, p ∈ md.packages) (hit : List Str) (s : TSet)
    {hit' : List Str} {s' : TSet} (h : hitlistLoop env ps hit s = .ok (hit', s')) :
    ∀ y ∈ s', y ∈ s ∨ Declared env y := by
  induction ps generalizing hit s with
  | nil => simp [hitlistLoop] at h; obtain ⟨_, rfl⟩ := h; intro y hy; exact .inl hy
  | cons q ps ih =>
    have hps' : ∀ p ∈ ps, p ∈ md.packages := fun x hx => hps x (by simp [hx])
    simp only [hitlistLoop] at h
    split at h
    · split at h
      · cases h
      · rename_i s1 hins
        intro y hy
        rcases ih hps' _ _ h y hy with h0 | h0
        · rcases insertTargets_mem hins y h0 with h1 | ⟨t, ht, h1⟩
          · exact .inl h1
          · exact .inr ⟨m, md, hmd, q, hps q (by simp), t, ht, h1⟩
        · exact .inr h0
    · exact ih hps' _ _ h

theorem getTargets_declared {env : Env} {fuel : Nat} {strategy : Strategy} {mp : Option Path} {T : TSet}
    (h : getTargets env fuel strategy mp = some (.ok T)) : ∀ y ∈ T, Declared env y := by
  obtain ⟨_, h⟩ := getTargets_ok h
  cases strategy with
  | root =>
    obtain ⟨md, wsRoot, here, hmd, _, _, hins⟩ := rootOnly_ok h
    intro y hy
    rcases insertTargets_mem hins y hy with h0 | ⟨t, ht, h0⟩
    · simp at h0
    · obtain ⟨pkg, hpkg, _, ht⟩ := (mem_rootPackageTargets t).mp ht
      exact ⟨mp, md, hmd, pkg, hpkg, t, ht, h0⟩
  | all =>
    obtain ⟨st, hrec, rfl⟩ := h
    intro y hy
    rcases recursive_declared _ _ _ _ hrec y hy with h0 | h0
    · simp at h0
    · exact h0
  | some names =>
    simp only at h
    unfold getTargetsWithHitlist at h
    split at h
    · cases h
    · rename_i md hmd
      split at h
      · cases h
      · rename_i hl
        cases h
        intro y hy
        rcases hitlistLoop_declared hmd _ (fun _ h => h) _ _ hl y hy with h0 | h0
        · simp at h0
        · exact h0
      · cases h

theorem sorted_path_unique {s : TSet} (hs : Sorted Target.cmp s) :
    ∀ a ∈ s, ∀ b ∈ s, a.path = b.path → a = b := by
  induction s with
  | nil => simp
  | cons x s ih =>
    unfold Sorted at hs
    rw [List.pairwise_cons] at hs
    have hne : ∀ z ∈ s, x.path ≠ z.path := by
      intro z hz heq
      have := hs.1 z hz
      rw [(Target.cmp_eq_iff x z).mpr heq] at this
      cases this
    intro a ha b hb hab
    simp at ha hb
    rcases ha with rfl | ha <;> rcases hb with rfl | hb
    · rfl
    · exact absurd hab (hne b hb)
    · exact absurd hab.symm (hne a ha)
    · exact ih hs.2 a ha b hb hab

/-! ## A decidable sufficient condition for `NameFun` in finite worlds -/

theorem world_edge_allDeps {w : World} {m : Option Path} {n : Str} {m' : Path}
    (h : EdgeN w.env m n m') : ∃ q, (n, q) ∈ w.allDeps ∧ m' = depManifest q := by
  obtain ⟨md, hmd, pkg, hpkg, d, hd, q, hq, hn, hm', _⟩ := h
  refine ⟨q, ?_, hm'⟩
  simp only [World.env] at hmd
  split at hmd
  · rename_i a r hfind
    subst hmd
    have hmem := List.mem_of_find?_eq_some hfind
    simp only [World.allDeps, List.mem_flatMap]
    refine ⟨_, hmem, ?_⟩
    simp only [List.mem_flatMap, List.mem_filterMap]
    exact ⟨pkg, hpkg, d, hd, by simp [hq, hn]⟩
  · cases hmd

theorem world_nameFun {w : World} (h : w.namesFunctional = true) (root : Option Path) :
    NameFun w.env root := by
  intro m₁ m₂ n a b _ _ e1 e2
  obtain ⟨q1, h1, rfl⟩ := world_edge_allDeps e1
  obtain ⟨q2, h2, rfl⟩ := world_edge_allDeps e2
  simp only [World.namesFunctional, List.all_eq_true] at h
  have := h _ h1 _ h2
  simpa using this

theorem runRustfmt_full (run : List Str → Status) (ts : TSet) (args : List Str)
    (h : ∀ x ∈ (runRustfmt run ts args).1, x.2 ≠ .spawnErr) :
    (runRustfmt run ts args).1.map (·.1) = (planInvocations ts args).map Invocation.argv ∧
    (runRustfmt run ts args).2 = .ok (foldStatus ((runRustfmt run ts args).1.map (·.2))) := by
  simp only [runRustfmt] at h ⊢
  obtain ⟨h1, h2, h3, h4⟩ := spawnLoop_spec run ((planInvocations ts args).map Invocation.argv)
  generalize spawnLoop run ((planInvocations ts args).map Invocation.argv) = r at *
  obtain ⟨tr, ok⟩ := r
  cases ok with
  | true => exact ⟨(h3 (by simp)).1, by simp⟩
  | false =>
    obtain ⟨a, ha⟩ := h4 (by simp)
    exact absurd rfl (h _ ha)

end RF.Lemmas.CargoFmt
