import RF.Model.Lists
/-
The instance of the comment rewriter that the driver plugs into `RF.Lists.writeList`:
`rewrite_comment(orig, block_style, shape, config)` = `identify_comment(orig, block_style, shape, config,
false)` (comment.rs:243-395) under `normalize_comments = false` and `wrap_comments = false` (the defaults).
Under these two settings neither `block_style` nor `shape.width` is read; the result depends on `orig`,
`shape.indent` and `hard_tabs` / `tab_spaces` only.

Modelled: `comment_style`, `is_custom_comment`, `custom_opener`, `consume_same_line_comments`, the search
for the line that closes a block comment (the closer-counting loop), `light_rewrite_comment`, and the
recursion on the rest of the comment (`find_comment_end`, through the `CharClasses` model, is defined here
for `get_comment_end`).  Offsets are counted in characters (equal to the byte offsets of
the code on ASCII text, to which the correspondence check restricts itself).
Also modelled: `trim_left_preserve_layout` (utils.rs), which rewrites a block comment with a "bare line"
(a line that starts with neither `*`, `//` nor `/*`), over the `LineClasses` model; `none` is then the
`Err(_)` of the real function.  `char::is_alphanumeric` is modelled for ASCII only, and the `fnw - 1` byte
index of `light_rewrite_comment` as "one character back" (equal when that character is ASCII).
-/
namespace RF.Lists
open RF.Shape

inductive CommentStyle where
  | doubleSlash | tripleSlash | doc | singleBullet | doubleBullet | exclamation
  | custom (opener : List Char)
  deriving Repr, DecidableEq

def CommentStyle.isLineComment : CommentStyle → Bool
  | .doubleSlash | .tripleSlash | .doc | .custom _ => true
  | _ => false

def CommentStyle.isBlockComment : CommentStyle → Bool
  | .singleBullet | .doubleBullet | .exclamation => true
  | _ => false

/-- `style.opener()` -/
def CommentStyle.opener : CommentStyle → List Char
  | .doubleSlash => "// ".toList
  | .tripleSlash => "/// ".toList
  | .doc => "//! ".toList
  | .singleBullet => "/* ".toList
  | .doubleBullet => "/** ".toList
  | .exclamation => "/*! ".toList
  | .custom o => o

/-- `style.line_start()` -/
def CommentStyle.lineStart : CommentStyle → List Char
  | .doubleSlash => "// ".toList
  | .tripleSlash => "/// ".toList
  | .doc => "//! ".toList
  | .singleBullet | .doubleBullet | .exclamation => " * ".toList
  | .custom o => o

/-- ASCII part of `char::is_alphanumeric`. -/
def isAlphanumericAscii (c : Char) : Bool :=
  ('0' ≤ c && c ≤ '9') || ('a' ≤ c && c ≤ 'z') || ('A' ≤ c && c ≤ 'Z')

/-- comment.rs:19-27 -/
def isCustomComment (comment : List Char) : Bool :=
  if !startsWith "//".toList comment then false
  else match comment[2]? with
    | some c => !isAlphanumericAscii c && !isWhitespace c
    | none => false

/-- comment.rs:40-46 -/
def customOpener (s : List Char) : List Char :=
  match (rustLines s).head? with
  | none => []
  | some firstLine =>
    if firstLine.contains ' ' then firstLine.takeWhile (· ≠ ' ') ++ [' '] else firstLine

/-- `comment_style(orig, false)`, comment.rs:114-130 -/
def commentStyle (orig : List Char) : CommentStyle :=
  if startsWith "/**".toList orig && !startsWith "/**/".toList orig then .doubleBullet
  else if startsWith "/*!".toList orig then .exclamation
  else if startsWith "/*".toList orig then .singleBullet
  else if startsWith "///".toList orig && (match orig[3]? with | some c => c != '/' | none => true) then
    .tripleSlash
  else if startsWith "//!".toList orig then .doc
  else if isCustomComment orig then .custom (customOpener orig)
  else .doubleSlash

/-- `consume_same_line_comments`, comment.rs:280-302, over the raw lines (`split_inclusive('\n')`):
returns (has blank line, the consumed raw lines). -/
def consumeSameLineComments (style : CommentStyle) (lineStart : List Char) :
    List (List Char) → Bool × List (List Char)
  | [] => (false, [])
  | raw :: rest =>
    let trimmedLine := trimStart (stripLineEnding raw)
    if trimmedLine.isEmpty then (true, [])
    else if startsWith lineStart trimmedLine || commentStyle trimmedLine == style then
      let (hbl, got) := consumeSameLineComments style lineStart rest
      (hbl, raw :: got)
    else (false, [])

/-- `s.ends_with(p)` -/
def endsWith (p s : List Char) : Bool := p.reverse.isPrefixOf s.reverse

/-- The position of the first character tagged `Normal` or `InString`. -/
def firstCodeIndex : Nat → List (RF.CharClasses.Kind × Char) → Option Nat
  | _, [] => none
  | i, (k, _) :: rest =>
    if k = RF.CharClasses.Kind.normal || k = RF.CharClasses.Kind.inString then some i
    else firstCodeIndex (i + 1) rest

/-- `find_comment_end`, comment.rs: the first position after the first comment. -/
def findCommentEnd (s : List Char) : Option Nat :=
  match firstCodeIndex 0 (RF.CharClasses.classes s) with
  | some i => some i
  | none =>
    if RF.CharClasses.endStatus RF.CharClasses.Status.normal s = RF.CharClasses.Status.normal then
      some s.length
    else none

/-- A line of a block comment that starts with neither `*`, `//` nor `/*` (comment.rs:323-328). -/
def isBareLine (raw : List Char) : Bool :=
  let trimmedLine := trimStart (stripLineEnding raw)
  !startsWith ['*'] trimmedLine && !startsWith "//".toList trimmedLine &&
    !startsWith "/*".toList trimmedLine

/-- `orig.matches(pat).count()`: non-overlapping, left to right (`fuel` bounds the scan). -/
def countMatches (pat : List Char) (fuel : Nat) (s : List Char) : Nat :=
  match fuel with
  | 0 => 0
  | fuel + 1 =>
    match s with
    | [] => 0
    | c :: cs =>
      if pat.isPrefixOf (c :: cs) && !pat.isEmpty then 1 + countMatches pat fuel ((c :: cs).drop pat.length)
      else countMatches pat fuel cs

/-- The loop over the lines of a block comment in `identify_comment`, comment.rs:320-342: the group ends
with the line on which the last of the `count` closers `*/` of the comment ends a line (the opener is
removed from the first line before the test).  Returns (has bare lines, consumed raw lines).
`count - 1` on `count = 0` cannot happen (every line that ends with `*/` holds its own match). -/
def blockGroup (openerLen : Nat) : List (List Char) → Bool → Nat → Bool → Bool × List (List Char)
  | [], _, _, hbl => (hbl, [])
  | raw :: rest, first, count, hbl =>
    let hbl := hbl || isBareLine raw
    let trimmedLine := trimStart (stripLineEnding raw)
    let trimmedLine := if first then trimmedLine.drop openerLen else trimmedLine
    if endsWith "*/".toList trimmedLine then
      if count - 1 = 0 then (hbl, [raw])
      else
        let (h, got) := blockGroup openerLen rest false (count - 1) hbl
        (h, raw :: got)
    else
      let (h, got) := blockGroup openerLen rest false count hbl
      (h, raw :: got)

/-- One line of `light_rewrite_comment`, comment.rs:1070-1086 (`is_doc_comment = false`). -/
def lightLine (l : List Char) : List Char :=
  let ws := l.takeWhile isWhitespace
  let rest := l.dropWhile isWhitespace
  let leftTrimmed :=
    match rest with
    | [] => []
    | c :: _ =>
      if c = '*' && ws.length > 0 then (ws.getLast?.toList) ++ rest else rest
  trimEnd leftTrimmed

/-- `light_rewrite_comment(orig, offset, config, false)`; `nl` is `"\n" + offset.to_string(config)`. -/
def lightRewriteComment (orig : List Char) (nl : List Char) : List Char :=
  nl.intercalate ((rustLines orig).map lightLine)

/-- `utils::is_empty_line` -/
def isEmptyLine (s : List Char) : Bool := s.all isWhitespace

/-- `utils::get_prefix_space_width` -/
def prefixSpaceWidth (tabSpaces : Nat) : List Char → Nat
  | [] => 0
  | c :: cs =>
    if c = ' ' then 1 + prefixSpaceWidth tabSpaces cs
    else if c = '\t' then tabSpaces + prefixSpaceWidth tabSpaces cs
    else 0

/-- The `filter_map` closure of `trim_left_preserve_layout` over the lines after the first:
returns the `trimmed_lines` (trimmed?, line, prefix_space_width) and the widths that enter the minimum.
`veto` is `veto_trim`; `ed2024` is `style_edition >= 2024`. -/
def tlplLines (tabSpaces : Nat) (ed2024 : Bool) :
    List (RF.CharClasses.Kind × List Char) → Bool → List (Bool × List Char × Option Nat) × List Nat
  | [], _ => ([], [])
  | (kind, line) :: rest, veto =>
    let psw := if isEmptyLine line then none else some (prefixSpaceWidth tabSpaces line)
    let newVeto := (kind = .inString || (ed2024 && kind = .inStringCommented)) && !endsWith ['\\'] line
    let (entry, veto') :=
      if veto || newVeto then ((false, line, psw), newVeto) else ((true, trim line, psw), veto)
    let counted : Option Nat :=
      if ed2024 && (kind = .inStringCommented || kind = .endStringCommented) then none
      else if kind = .inString || kind = .endString then none
      else psw
    let (es, ws) := tlplLines tabSpaces ed2024 rest veto'
    (entry :: es, counted.toList ++ ws)

/-- `utils::trim_left_preserve_layout(orig, indent, config)`, utils.rs:582-649.  `none` = `None`
(no first line, or no line that counts for the minimum).  `Indent::from_width` / `to_string` come from
the shape model (empty string where they panic). -/
def trimLeftPreserveLayout (orig : List Char) (indent : Indent) (config : Config) (ed2024 : Bool) :
    Option (List Char) :=
  match RF.CharClasses.lineClasses orig with
  | [] => none
  | (_, first) :: rest =>
    let firstLine := trimEnd first
    let (entries, widths) := tlplLines config.tab_spaces ed2024 rest false
    match widths with
    | [] => none
    | w :: ws =>
      let minW := ws.foldl min w
      let render (e : Bool × List Char × Option Nat) : List Char :=
        if !e.1 then e.2.1
        else match e.2.2 with
          | some originalIndentWidth =>
            let newIndentWidth := indent.width + (originalIndentWidth - minW)
            (match Indent.from_width config newIndentWidth with
              | .ok ni => indentString ni config
              | .error _ => []) ++ e.2.1
          | none => []
      some (firstLine ++ ['\n'] ++ ['\n'].intercalate (entries.map render))

/-- The first group of a comment, comment.rs:304-345: (has bare lines, the raw lines of the group). -/
def firstGroupOf (orig : List Char) : Bool × List (List Char) :=
  let style := commentStyle orig
  let raws := splitInclusiveGo [] orig
  match style with
  | .doubleSlash | .tripleSlash | .doc =>
    consumeSameLineComments style (trimStart style.lineStart) raws
  | .custom opener => consumeSameLineComments style (trimEnd opener) raws
  | _ =>
    blockGroup (trimEnd style.opener).length raws true (countMatches "*/".toList orig.length orig) false

/-- `identify_comment` (comment.rs:252-395) under `normalize_comments = false`, `wrap_comments = false`,
`is_doc_comment = false`.  `indentStr` is `shape.indent.to_string(config)`; `bare` is
`trim_left_preserve_layout(_, shape.indent, config)`, used for a block comment with bare lines.
`none` = `Err(_)`. -/
def identifyCommentLight (indentStr : List Char) (bare : List Char → Option (List Char)) :
    Nat → List Char → Option (List Char)
  | 0, _ => none
  | fuel + 1, orig =>
    let style := commentStyle orig
    let (hasBareLines, group) := firstGroupOf orig
    let firstGroup := group.flatten
    let rest := orig.drop firstGroup.length
    let rewritten : Option (List Char) :=
      if hasBareLines && style.isBlockComment then bare firstGroup
      else some (lightRewriteComment firstGroup ('\n' :: indentStr))
    match rewritten with
    | none => none
    | some rewrittenFirstGroup =>
      if rest.isEmpty then some rewrittenFirstGroup
      else
        match identifyCommentLight indentStr bare fuel (trimStart rest) with
        | none => none
        | some restStr =>
          some (rewrittenFirstGroup ++ ['\n'] ++
            (if hasBareLines && style.isLineComment then ['\n'] else []) ++ indentStr ++ restStr)

/-- `rewrite_comment` for the driver (style edition below 2024, the default). -/
def rewriteCommentLight (config : Config) : Rc := fun orig _blockStyle shape =>
  identifyCommentLight (indentString shape.indent config)
    (fun g => trimLeftPreserveLayout g shape.indent config false) (orig.length + 1) orig

end RF.Lists
