//! Correspondence of the missed-span writer of `src/missed_spans.rs` (`format_missing`,
//! `format_missing_with_indent`, `format_missing_no_indent`, `format_missing_inner`, `write_snippet_inner`,
//! `process_comment`, `process_missing_code`, `push_vertical_spaces`) with the Lean model
//! `RF/Model/MissedSpans.lean` (driver `RF/Driver/MissedSpans.lean`, op `ms.write`), through
//! `verif_hooks::missed`, plus four Lean oracles that judge what the real code wrote
//! (`ms.oracle.content`, `ms.oracle.comments`, `ms.oracle.only`, `ms.oracle.clamp`).
//!
//! A case = one call on a fresh visitor: (text before the gap, gap, text behind it, buffer, block_indent,
//! entry point, configuration).  A panic of the real code is the answer `panic`.
//! Families: (a) every gap of <= N pieces over the alphabet PIECES (N = 3 under the full configuration
//! product of quick, 4 under the base configurations; thorough 4 / 5) x contexts x entry points;
//! (b) random longer gaps over a wider alphabet; (c) real gaps: every maximal run of white space and
//! comments between two tokens of the fixtures (rustc_lexer) that holds a line break or a comment;
//! (d) positions: `last_pos` / `end` at every byte of short texts (inverted spans, positions inside a
//! character).
use rustfmt_nightly::verif_hooks::missed as hm;
use rustfmt_nightly::Config;

use crate::util::*;

fn guard<T>(f: impl FnOnce() -> T) -> Option<T> {
    std::panic::catch_unwind(std::panic::AssertUnwindSafe(f)).ok()
}

/// The part of the configuration the model reads.
#[derive(Clone, Copy, Debug, PartialEq, Eq, Hash)]
pub struct Cfg {
    pub hard_tabs: bool,
    pub tab_spaces: usize,
    pub max_width: usize,
    pub comment_width: usize,
    pub lower: usize,
    pub upper: usize,
    pub ed2024: bool,
}

pub const BASE: Cfg = Cfg { hard_tabs: false, tab_spaces: 4, max_width: 100, comment_width: 80, lower: 0, upper: 1, ed2024: false };

pub fn mk_config(c: Cfg) -> Config {
    let mut k = Config::default();
    k.set().hard_tabs(c.hard_tabs);
    k.set().tab_spaces(c.tab_spaces);
    k.set().max_width(c.max_width);
    k.set().comment_width(c.comment_width);
    k.set().blank_lines_lower_bound(c.lower);
    k.set().blank_lines_upper_bound(c.upper);
    if c.ed2024 {
        k.set().style_edition(rustfmt_nightly::StyleEdition::Edition2024);
    }
    k
}

#[derive(Clone, Debug)]
pub struct Call {
    pub text: String,
    pub pad: usize,
    pub buffer: String,
    pub indent: (usize, usize),
    pub last_pos: usize,
    pub end: usize,
    pub entry: u8,
    pub cfg: Cfg,
}

fn request(op: &str, c: &Call, base: usize) -> String {
    format!(
        "{} {} {} {} {} {} {} {} {} {} {} {} {} {} {} {}",
        op,
        enc_str(&c.text),
        base,
        enc_str(&c.buffer),
        c.indent.0,
        c.indent.1,
        c.last_pos,
        c.end,
        c.entry,
        c.cfg.hard_tabs as u8,
        c.cfg.tab_spaces,
        c.cfg.max_width,
        c.cfg.comment_width,
        c.cfg.lower,
        c.cfg.upper,
        c.cfg.ed2024 as u8
    )
}

/// Where the text starts in the source map: 0, or behind a file of `pad` bytes (rustc leaves one
/// position between two files).
fn base_of(pad: usize) -> usize {
    if pad == 0 { 0 } else { pad + 1 }
}

pub fn run_real(c: &Call, k: &Config) -> Option<hm::After> {
    guard(|| hm::format_missing(&c.text, c.pad, &c.buffer, c.indent, c.last_pos, c.end, c.entry, k))
}

/// Is the snippet white space and comments only (every Normal slice of CommentCodeSlices blank)?
fn is_blank_gap(snippet: &str) -> bool {
    match guard(|| rustfmt_nightly::verif_hooks::comment::comment_code_slices(snippet)) {
        Some(sl) => sl.iter().all(|(is_comment, _, t)| *is_comment || t.trim().is_empty()),
        None => false,
    }
}

struct Pending {
    call: Call,
    desc: &'static str,
    oracles: bool,
    consistent: bool,
    idem: bool,
}

/// The gaps on which a second run is required to reproduce the first one's text: printable ASCII, blank,
/// tab and line feed only (a lone CR or a Unicode blank in front of a comment is taken for code on the
/// comment's line: finding MISSED-IDEM-UBLANK), and no block comment followed on its line by another
/// comment (findings MISSED-IDEM-SAMELINE, MISSED-IDEM-TRAIL).  The configurations are restricted too:
/// lower = 0 (a lower bound is only applied where the source had a line break) and upper >= 1 (finding
/// MISSED-IDEM-UPPER0).
fn idem_family(gap: &str) -> bool {
    if !gap.chars().all(|c| c == ' ' || c == '\t' || c == '\n' || (c.is_ascii_graphic())) {
        return false;
    }
    let b = gap.as_bytes();
    let mut i = 0;
    while i + 1 < b.len() {
        if b[i] == b'*' && b[i + 1] == b'/' {
            let mut j = i + 2;
            while j < b.len() && (b[j] == b' ' || b[j] == b'\t') {
                j += 1;
            }
            if j < b.len() && b[j] == b'/' {
                return false;
            }
        }
        i += 1;
    }
    true
}

/// The call a second run of the formatter makes at the same place: the text in front of the gap is the
/// buffer, the gap is what the first run wrote.
fn second_call(c: &Call, first: &hm::After) -> Option<Call> {
    let valid = c.last_pos <= c.end && c.end <= c.text.len() && c.text.is_char_boundary(c.last_pos) && c.text.is_char_boundary(c.end);
    if !valid || !first.buffer.starts_with(&c.buffer) || !idem_family(&c.text[c.last_pos..c.end]) {
        return None;
    }
    let delta = &first.buffer[c.buffer.len()..];
    Some(Call { text: format!("{}{}{}", c.buffer, delta, &c.text[c.end..]), pad: c.pad, buffer: c.buffer.clone(), indent: c.indent, last_pos: c.buffer.len(), end: c.buffer.len() + delta.len(), entry: c.entry, cfg: c.cfg })
}

struct Sink<'a> {
    o: &'a mut Outcome,
    desc: &'static str,
    /// evaluate the oracles on the real output
    oracles: bool,
    /// the (prefix, buffer) pair is what a run of the formatter produces: the blank-line oracle applies
    consistent: bool,
    /// also run the writer on its own output (consistent contexts, blank gaps)
    idem: bool,
    pending: Vec<Pending>,
}

impl<'a> Sink<'a> {
    fn put(&mut self, c: &Call, _k: &Config) {
        self.pending.push(Pending { call: c.clone(), desc: self.desc, oracles: self.oracles, consistent: self.consistent, idem: self.idem });
        if self.pending.len() >= 200_000 {
            self.flush();
        }
    }

    /// Runs the real code on the pending calls (in parallel) and turns them into cases.
    fn flush(&mut self) {
        let pending = std::mem::take(&mut self.pending);
        let reals: Vec<(Option<hm::After>, Option<(Call, Option<hm::After>)>)> = par_map(&pending, |p| {
            let k = mk_config(p.call.cfg);
            let first = run_real(&p.call, &k);
            let second = match &first {
                Some(a) if p.idem && p.consistent && p.oracles && p.call.cfg.lower == 0 && p.call.cfg.upper >= 1 => second_call(&p.call, a).filter(|c2| is_blank_gap(&c2.text[c2.last_pos..c2.end])).map(|c2| {
                    let r = run_real(&c2, &k);
                    (c2, r)
                }),
                _ => None,
            };
            (first, second)
        });
        for (p, (real, second)) in pending.iter().zip(reals.into_iter()) {
            if let (Some(a), Some((c2, r2))) = (&real, &second) {
                self.o.direct_evals += 1;
                let same = r2.as_ref().map(|b| b.buffer == a.buffer).unwrap_or(false);
                if !same {
                    let sig = if r2.is_none() { "missed:second-run-panics" } else { "missed:second-run-differs" };
                    self.o.direct_failures.push(serde_json::json!({"sig": sig, "first": format!("{:?}", p.call), "second": format!("{:?}", c2), "wrote_first": a.buffer, "wrote_second": r2.as_ref().map(|b| b.buffer.clone())}));
                } else if a.buffer != p.call.buffer {
                    self.o.direct_distinct += 1;
                }
            }
            self.emit(p, real);
        }
    }

    fn emit(&mut self, p: &Pending, real: Option<hm::After>) {
        let c = &p.call;
        let base = base_of(c.pad);
        let answer = match &real {
            None => "panic".to_string(),
            Some(a) => {
                if a.base != base {
                    self.o.direct_failures.push(serde_json::json!({"sig": "missed:base", "detail": format!("source map start {} where {} was expected (pad {})", a.base, base, c.pad)}));
                }
                format!("{}:{}:{}", enc_str(&a.buffer), a.line_number, a.last_pos)
            }
        };
        if real.is_none() {
            self.o.count("missed:panic");
        }
        let valid = c.last_pos <= c.end && c.end <= c.text.len() && c.text.is_char_boundary(c.last_pos) && c.text.is_char_boundary(c.end);
        let snippet = if valid { &c.text[c.last_pos..c.end] } else { "" };
        let nontrivial = snippet.contains('/') || snippet.contains('\n') || !snippet.trim().is_empty();
        self.o.push("corr", "ms.write", request("ms.write", c, base), answer, p.desc.into(), nontrivial);
        if !p.oracles || !valid {
            return;
        }
        let Some(a) = real else { return };
        if !a.buffer.starts_with(&c.buffer) {
            self.o.direct_failures.push(serde_json::json!({"sig": "missed:buffer-not-extended", "detail": format!("{:?}", c)}));
            return;
        }
        let delta = &a.buffer[c.buffer.len()..];
        let (es, ed) = (enc_str(snippet), enc_str(delta));
        if let Ok(f) = std::env::var("MISSED_FIND") {
            if f == ed {
                eprintln!("MISSED_FIND: {:?}\n  {}", c, request("ms.log", c, base));
            }
        }
        // the start-of-file rule drops a blank snippet; everything else keeps the non-blank characters
        self.o.push("oracle", "ms.oracle.content", format!("ms.oracle.content {} {}", es, ed), "ok".into(), p.desc.into(), nontrivial);
        if is_blank_gap(snippet) {
            self.o.count("missed:blank-gap");
            self.o.push("oracle", "ms.oracle.comments", format!("ms.oracle.comments {} {}", es, ed), "ok".into(), p.desc.into(), snippet.contains('/'));
            self.o.push("oracle", "ms.oracle.only", format!("ms.oracle.only {} {}", es, ed), "ok".into(), p.desc.into(), snippet.contains('/'));
            if p.consistent && c.cfg.lower <= c.cfg.upper {
                self.o.push("oracle", "ms.oracle.clamp", format!("ms.oracle.clamp {} {} {}", enc_str(&c.buffer), ed, c.cfg.upper), "ok".into(), p.desc.into(), snippet.contains('\n'));
            }
        } else {
            self.o.count("missed:code-gap");
        }
    }
}

/// The alphabet of the exhaustive family.
pub const PIECES: &[&str] = &[" ", "\t", "\n", "\r", "// c\n", "/* c */", "/* a\n * b */", "//\n", "\u{2028}", "\u{3000}", "\u{a0}", ";"];

/// More pieces for the random family (comments stay inside the rewriter model: ASCII, or a two-byte letter).
const MORE: &[&str] = &["  ", "\n\n", "\n\n\n", "\r\n", "// \u{e9}\n", "/* \u{e9} */", "/*\n\n*/", "/* a\n   b */", "/* a\n * b\n */", "x", "x y", "{", "}", "\"s\"", "#[a]", "////\n", "/// d\n", "/** d */", "//! i\n", "\u{85}", "\u{b}", "\u{c}", "\u{2029}", "\u{2003}", "// a  \n", "/* c */ ", "//x\n", "/*x*/", "x;", "a\n b  \n", "'c'", "/* \" */", "// \"\n"];

/// (text in front of the gap, buffer): the first six are what a run of the formatter has when the gap is
/// written (the buffer ends with the formatted form of what the text ends with).
const CONTEXTS: &[(&str, &str, bool)] = &[
    ("", "", true),
    ("fn a() {}", "fn a() {}", true),
    ("fn a() {", "fn a() {", true),
    ("    let x = 1;", "    let x = 1;", true),
    ("x;\n", "x;\n", false),
    ("{ ", "{", true),
    ("x", "", false),
    ("", "a", false),
    ("x\n", "a\n\n\n", false),
    ("{\t", "a\n", false),
    ("\u{e9}", "\u{e9}", false),
    ("x \t", "a \t", false),
];

fn gaps_upto(n: usize, pieces: &[&str]) -> Vec<String> {
    let mut all = vec![String::new()];
    let mut layer = vec![String::new()];
    for _ in 0..n {
        let mut next = Vec::with_capacity(layer.len() * pieces.len());
        for g in &layer {
            for p in pieces {
                next.push(format!("{}{}", g, p));
            }
        }
        all.extend(next.iter().cloned());
        layer = next;
    }
    all
}

fn call(pre: &str, gap: &str, suf: &str, buffer: &str, indent: (usize, usize), entry: u8, cfg: Cfg, pad: usize) -> Call {
    Call { text: format!("{}{}{}", pre, gap, suf), pad, buffer: buffer.to_string(), indent, last_pos: pre.len(), end: pre.len() + gap.len(), entry, cfg, }
}

/// The configurations of the exhaustive product.
fn cfg_product() -> Vec<Cfg> {
    let mut v = vec![];
    for (ht, ts) in [(false, 4usize), (true, 4), (true, 3)] {
        for lower in 0..=2usize {
            for upper in 0..=2usize {
                for ed in [false, true] {
                    v.push(Cfg { hard_tabs: ht, tab_spaces: ts, lower, upper, ed2024: ed, ..BASE });
                }
            }
        }
    }
    v
}

/// The families of `cases_parts`.
pub const A1: u32 = 1;
pub const A2: u32 = 2;
pub const A3: u32 = 4;
pub const POSITIONS: u32 = 8;
pub const RANDOM: u32 = 16;
pub const FIXTURES: u32 = 32;
pub const CLOSE: u32 = 64;
pub const ALL: u32 = 127;

/// Everything (the standalone check).
pub fn cases(o: &mut Outcome, rng: &mut Rng, thorough: bool) {
    cases_parts(o, rng, thorough, ALL);
}

/// For C03 (comments are never dropped): the longer gaps, the random and the fixture gaps with the
/// content / comments / only oracles, and `close_block`; the repaired defect's probe.
pub fn cases_c03(o: &mut Outcome, rng: &mut Rng, thorough: bool) {
    cases_parts(o, rng, thorough, A2 | RANDOM | FIXTURES | CLOSE);
    probes_fixed(o);
}

/// For C08 (blank-line discipline): the short gaps under the whole product of blank-line bounds, tab
/// settings and style editions, with the clamp oracle; the repaired defect's probe.
pub fn cases_c08(o: &mut Outcome, rng: &mut Rng, thorough: bool) {
    cases_parts(o, rng, thorough, A1);
    probes_fixed(o);
}

/// For C16 (no abnormal termination): the corners of the configuration, every position pair, random
/// gaps, `close_block` (a panic of the code that the model does not predict is a disagreement).
pub fn cases_c16(o: &mut Outcome, rng: &mut Rng, thorough: bool) {
    cases_parts(o, rng, thorough, A3 | POSITIONS | RANDOM | CLOSE);
}

/// For C02 (idempotence): the second-run check rides on A2 / RANDOM / FIXTURES; the four shapes on which
/// the writer does not reproduce its own output are probes (known findings).
pub fn cases_c02(o: &mut Outcome, rng: &mut Rng, thorough: bool) {
    cases_parts(o, rng, thorough, A2 | FIXTURES);
    probes_idem(o);
}

pub fn cases_parts(o: &mut Outcome, rng: &mut Rng, thorough: bool, parts: u32) {
    // panics of the real code are answers here: keep them off stderr
    let prev = std::panic::take_hook();
    std::panic::set_hook(Box::new(|_| {}));
    cases_inner(o, rng, thorough, parts);
    if parts & CLOSE != 0 {
        close_cases(o, rng, thorough);
    }
    std::panic::set_hook(prev);
}

fn cases_inner(o: &mut Outcome, rng: &mut Rng, thorough: bool, parts: u32) {
    let t0 = std::time::Instant::now();
    let mut k = Sink { o, desc: "exhaustive", oracles: true, consistent: true, idem: false, pending: vec![] };

    // (a1) short gaps under the whole configuration product, realistic contexts, three indents
    let n_full = if thorough { 3 } else { 2 };
    let cfgs = cfg_product();
    let configs: Vec<Config> = cfgs.iter().map(|c| mk_config(*c)).collect();
    let gaps_full = if parts & A1 != 0 { gaps_upto(n_full, PIECES) } else { vec![] };
    let few: Vec<usize> = cfgs.iter().enumerate().filter(|(_, c)| (c.lower, c.upper) == (0, 1) || (c.lower, c.upper, c.hard_tabs) == (2, 0, false)).map(|(i, _)| i).collect();
    for (ci, cfg) in cfgs.iter().enumerate() {
        for g in &gaps_full {
            for (xi, (pre, buf, cons)) in CONTEXTS.iter().enumerate() {
                // the contexts a run of the formatter cannot be in: a few configurations only
                if !*cons && !few.contains(&ci) {
                    continue;
                }
                k.consistent = *cons;
                let indents: &[(usize, usize)] = if (1..4).contains(&xi) { &[(4, 0), (8, 2)] } else if xi == 0 { &[(0, 0)] } else { &[(4, 0)] };
                for &ind in indents {
                    for entry in 0..3u8 {
                        k.put(&call(pre, g, "z", buf, ind, entry, *cfg, 0), &configs[ci]);
                    }
                }
            }
        }
    }
    k.flush();
    k.o.notes.push(format!("missed (a1): {} gaps x {} configurations in {:?}", gaps_full.len(), cfgs.len(), t0.elapsed()));

    // (a2) longer gaps under three base configurations
    k.idem = true;
    let n_base = if thorough { 5 } else { 4 };
    let bases = [BASE, Cfg { hard_tabs: true, upper: 2, lower: 1, ..BASE }, Cfg { ed2024: true, upper: 0, ..BASE }];
    let base_configs: Vec<Config> = bases.iter().map(|c| mk_config(*c)).collect();
    let gaps_base = if parts & A2 != 0 { gaps_upto(n_base, PIECES) } else { vec![] };
    for (gi, g) in gaps_base.iter().enumerate() {
        // every gap under one configuration and two contexts (rotating), entry point rotating too
        let ci = gi % bases.len();
        for j in 0..2usize {
            let (pre, buf, cons) = CONTEXTS[(gi / 3 + j * 5) % CONTEXTS.len()];
            k.consistent = cons;
            let entry = ((gi / 7 + j) % 3) as u8;
            let ind = [(0usize, 0usize), (4, 0), (8, 0)][(gi / 5 + j) % 3];
            k.put(&call(pre, g, "z", buf, ind, entry, bases[ci], 0), &base_configs[ci]);
        }
    }
    k.flush();
    k.o.notes.push(format!("missed (a2): {} gaps in {:?}", gaps_base.len(), t0.elapsed()));

    k.idem = false;
    // (a3) the corners of the configuration: narrow pages, indentation beyond the page (F1), tab_spaces 0,
    //      a text that does not start the source map
    let corner: Vec<Cfg> = vec![
        Cfg { max_width: 10, ..BASE },
        Cfg { max_width: 0, comment_width: 0, ..BASE },
        Cfg { hard_tabs: true, tab_spaces: 0, ..BASE },
        Cfg { hard_tabs: false, tab_spaces: 0, ..BASE },
        Cfg { hard_tabs: true, tab_spaces: 1, ..BASE },
        Cfg { tab_spaces: 8, comment_width: 5, ..BASE },
    ];
    let gaps_corner = if parts & A3 != 0 { gaps_upto(2, PIECES) } else { vec![] };
    for cfg in &corner {
        let config = mk_config(*cfg);
        for g in &gaps_corner {
            for (pre, buf, cons) in CONTEXTS.iter().take(7) {
                k.consistent = *cons;
                for &ind in &[(0usize, 0usize), (12, 0), (81, 3)] {
                    for entry in 0..3u8 {
                        for pad in [0usize, 5] {
                            k.put(&call(pre, g, "", buf, ind, entry, *cfg, pad), &config);
                        }
                    }
                }
            }
        }
    }

    // (d) positions: every (last_pos, end) over short texts, inverted and inside characters included
    k.oracles = false;
    k.consistent = false;
    let base_config = mk_config(BASE);
    let position_texts: &[&str] = if parts & POSITIONS != 0 { &[";", " ; ", "a;b", "\u{e9};", "/* \u{e9} */\u{2028}x", "\n\n", " \u{3000}// c\n;", "x // c\n\u{a0}y"] } else { &[] };
    for text in position_texts.iter().copied() {
        for lp in 0..=text.len() + 1 {
            for end in 0..=text.len() + 1 {
                for entry in 0..3u8 {
                    for buf in ["", "a"] {
                        let c = Call { text: text.to_string(), pad: 0, buffer: buf.to_string(), indent: (4, 0), last_pos: lp, end, entry, cfg: BASE };
                        k.put(&c, &base_config);
                    }
                }
            }
        }
    }

    // (b) random longer gaps over the wider alphabet
    k.desc = "random";
    k.oracles = true;
    k.idem = true;
    let all_pieces: Vec<&str> = PIECES.iter().chain(MORE.iter()).copied().collect();
    let blank_pieces: Vec<&str> = all_pieces.iter().copied().filter(|p| p.trim().is_empty() || p.starts_with("//") || p.starts_with("/*")).collect();
    let n_random = if parts & RANDOM == 0 { 0 } else if thorough { 60000 } else { 6000 };
    for i in 0..n_random {
        let only_blank = i % 2 == 0;
        let pool: &[&str] = if only_blank { &blank_pieces } else { &all_pieces };
        let len = rng.range(3, 12);
        let mut g = String::new();
        for _ in 0..len {
            let piece: &str = *rng.pick(pool);
            g.push_str(piece);
        }
        let (pre, buf, cons) = *rng.pick(CONTEXTS);
        k.consistent = cons;
        let cfg = Cfg {
            hard_tabs: rng.chance(1, 3),
            tab_spaces: *rng.pick(&[4usize, 4, 2, 3, 8, 1]),
            max_width: *rng.pick(&[100usize, 100, 40, 12]),
            comment_width: *rng.pick(&[80usize, 80, 20]),
            lower: rng.below(3),
            upper: rng.below(4),
            ed2024: rng.chance(1, 3),
        };
        let ind = (*rng.pick(&[0usize, 4, 8, 16, 3]), *rng.pick(&[0usize, 0, 0, 2]));
        let suf = *rng.pick(&["", "z", "}", "fn b() {}"]);
        let pad = if rng.chance(1, 8) { rng.range(1, 9) } else { 0 };
        k.put(&call(pre, &g, suf, buf, ind, rng.below(3) as u8, cfg, pad), &mk_config(cfg));
    }
    k.flush();
    k.o.notes.push(format!("missed (b): {} random gaps in {:?}", n_random, t0.elapsed()));

    // (c) real gaps of the fixtures
    k.desc = "fixture";
    let gaps = if parts & FIXTURES != 0 { fixture_gaps() } else { vec![] };
    k.o.count_n("missed:fixture-gaps-distinct", gaps.len() as u64);
    let take = if thorough { gaps.len() } else { gaps.len().min(2500) };
    // quick: a seeded window of the (sorted, deduplicated) list; thorough: all of it
    let start = if thorough || gaps.len() <= take || gaps.is_empty() { 0 } else { rng.below(gaps.len()) };
    let fx_cfgs = [BASE, Cfg { ed2024: true, ..BASE }, Cfg { hard_tabs: true, lower: 1, upper: 2, ..BASE }];
    let fx_configs: Vec<Config> = fx_cfgs.iter().map(|c| mk_config(*c)).collect();
    for j in 0..take {
        let (pre, gap) = &gaps[(start + j) % gaps.len().max(1)];
        k.consistent = true;
        let ci = j % fx_cfgs.len();
        // the buffer ends the way the text in front ends (its last line, re-indented by nothing)
        let buf = pre.rsplit('\n').next().unwrap_or("").to_string();
        let ind = [(0usize, 0usize), (4, 0), (8, 0)][(j / 3) % 3];
        let entry = if j % 5 == 0 { 0 } else { 1 };
        k.put(&call(pre, gap, "z", &buf, ind, entry, fx_cfgs[ci], 0), &fx_configs[ci]);
    }
    k.flush();
    k.o.notes.push(format!("missed (c): {} fixture gaps in {:?}", take, t0.elapsed()));
}

/// `close_block`: the text between the last statement of a block and its closing brace.  Every gap of
/// <= 3 (thorough 4) pieces x contexts x indentations x unindent_comment x configurations, plus random
/// longer gaps; the Lean oracle `ms.oracle.close` on what the real code wrote.
pub fn close_cases(o: &mut Outcome, rng: &mut Rng, thorough: bool) {
    struct P {
        text: String,
        buffer: String,
        indent: (usize, usize),
        lo: usize,
        hi: usize,
        unindent: bool,
        cfg: Cfg,
        desc: &'static str,
    }
    let contexts: &[(&str, &str)] = &[("fn a() {\n    x;", "fn a() {\n    x;"), ("{", "{"), ("    if c {\n        y", "    if c {\n        y"), ("x; ", "a\n"), ("\u{e9}", "")];
    let cfgs = [
        BASE,
        Cfg { ed2024: true, ..BASE },
        Cfg { hard_tabs: true, ..BASE },
        Cfg { max_width: 12, comment_width: 8, ..BASE },
        Cfg { hard_tabs: true, tab_spaces: 0, ..BASE },
        Cfg { tab_spaces: 2, ed2024: true, ..BASE },
    ];
    let mut pend: Vec<P> = vec![];
    let gaps = gaps_upto(if thorough { 4 } else { 3 }, PIECES);
    for (gi, g) in gaps.iter().enumerate() {
        for (xi, (pre, buf)) in contexts.iter().enumerate() {
            // short gaps under every configuration, longer ones under a rotating one
            let all = g.chars().count() <= 14 && gi < 160;
            for (ci, cfg) in cfgs.iter().enumerate() {
                if !all && ci != (gi + xi) % cfgs.len() {
                    continue;
                }
                for unindent in [false, true] {
                    let ind = [(4usize, 0usize), (8, 0), (0, 0), (4, 2)][(gi + ci + unindent as usize) % 4];
                    pend.push(P { text: format!("{}{}}}", pre, g), buffer: buf.to_string(), indent: ind, lo: pre.len(), hi: pre.len() + g.len(), unindent, cfg: *cfg, desc: "exhaustive" });
                }
            }
        }
    }
    let all_pieces: Vec<&str> = PIECES.iter().chain(MORE.iter()).copied().collect();
    for _ in 0..(if thorough { 40000 } else { 4000 }) {
        let len = rng.range(2, 10);
        let mut g = String::new();
        for _ in 0..len {
            let piece: &str = *rng.pick(&all_pieces);
            g.push_str(piece);
        }
        let (pre, buf) = *rng.pick(contexts);
        let cfg = Cfg { hard_tabs: rng.chance(1, 3), tab_spaces: *rng.pick(&[4usize, 4, 2, 8]), max_width: *rng.pick(&[100usize, 40, 12]), comment_width: *rng.pick(&[80usize, 20]), lower: 0, upper: 1, ed2024: rng.chance(1, 2) };
        let ind = (*rng.pick(&[0usize, 4, 8, 16]), *rng.pick(&[0usize, 0, 3]));
        pend.push(P { text: format!("{}{}}}", pre, g), buffer: buf.to_string(), indent: ind, lo: pre.len(), hi: pre.len() + g.len(), unindent: rng.chance(1, 2), cfg, desc: "random" });
    }
    // inverted and off-boundary spans
    for text in ["{ \u{e9} }", "{/* \u{2028} */}"] {
        for lo in 0..=text.len() + 1 {
            for hi in 0..=text.len() + 1 {
                pend.push(P { text: text.to_string(), buffer: "{".into(), indent: (4, 0), lo, hi, unindent: false, cfg: BASE, desc: "positions" });
            }
        }
    }
    let reals: Vec<Option<(String, usize, (usize, usize))>> = par_map(&pend, |p| guard(|| hm::close_block(&p.text, &p.buffer, p.indent, p.lo, p.hi, p.unindent, &mk_config(p.cfg))));
    for (p, real) in pend.iter().zip(reals.into_iter()) {
        let answer = match &real {
            None => "panic".to_string(),
            Some((b, ln, ind)) => format!("{}:{}:{}:{}", enc_str(b), ln, ind.0, ind.1),
        };
        if real.is_none() {
            o.count("missed:close-panic");
        }
        let c = p.cfg;
        let req = format!("ms.close {} {} {} {} {} {} {} {} {} {} {} {} {} {}", enc_str(&p.text), enc_str(&p.buffer), p.indent.0, p.indent.1, p.lo, p.hi, p.unindent as u8, c.hard_tabs as u8, c.tab_spaces, c.max_width, c.comment_width, c.lower, c.upper, c.ed2024 as u8);
        let valid = p.lo <= p.hi && p.hi <= p.text.len() && p.text.is_char_boundary(p.lo) && p.text.is_char_boundary(p.hi);
        let snippet = if valid { &p.text[p.lo..p.hi] } else { "" };
        o.push("corr", "ms.close", req, answer, p.desc.into(), !snippet.trim().is_empty());
        if let (true, Some((b, _, _))) = (valid, &real) {
            if b.starts_with(&p.buffer) {
                o.push("oracle", "ms.oracle.close", format!("ms.oracle.close {} {}", enc_str(snippet), enc_str(&b[p.buffer.len()..])), "ok".into(), p.desc.into(), !snippet.trim().is_empty());
            } else {
                o.direct_failures.push(serde_json::json!({"sig": "missed:close-buffer-not-extended", "detail": format!("{:?} {:?}", p.text, p.buffer)}));
            }
        }
    }
}

/// Every maximal run of white space and non-doc/doc comments between two tokens of a fixture that holds a
/// line break or a comment, with the (at most 60 bytes of) text in front of it; sorted, deduplicated.
/// Gaps whose comments are outside the rewriter model (non-ASCII text) are left out.
pub fn fixture_gaps() -> Vec<(String, String)> {
    use rustc_lexer::TokenKind as K;
    let mut set = std::collections::BTreeSet::new();
    for p in crate::corpus::programs(&["tests/source", "tests/target"]) {
        let src = &p.src;
        if src.contains('\r') {
            continue;
        }
        let mut pos = 0usize;
        let mut gap_start: Option<usize> = None;
        let flush = |from: usize, to: usize, set: &mut std::collections::BTreeSet<(String, String)>| {
            let gap = &src[from..to];
            if !(gap.contains('\n') || gap.contains('/')) || !gap.is_ascii() || gap.len() > 400 {
                return;
            }
            let mut lo = from.saturating_sub(60);
            while !src.is_char_boundary(lo) {
                lo += 1;
            }
            // the text in front must not end inside a comment or string as seen from `lo`: cut at a line start
            let pre = &src[lo..from];
            let pre = match pre.find('\n') {
                Some(i) if lo > 0 => &pre[i + 1..],
                _ => pre,
            };
            if pre.is_ascii() {
                set.insert((pre.to_string(), gap.to_string()));
            }
        };
        for t in rustc_lexer::tokenize(src) {
            let len = t.len as usize;
            match t.kind {
                K::Whitespace | K::LineComment { .. } | K::BlockComment { .. } => {
                    if gap_start.is_none() {
                        gap_start = Some(pos);
                    }
                }
                _ => {
                    if let Some(s) = gap_start.take() {
                        flush(s, pos, &mut set);
                    }
                }
            }
            pos += len;
        }
        if let Some(s) = gap_start.take() {
            flush(s, pos, &mut set);
        }
    }
    set.into_iter().collect()
}

/// Enumerated, seed-independent probes: the shapes on which the missed-span writer is known not to
/// reproduce its own output (`fails` expected, known findings), and the reproduction of the repaired
/// defect (`fails` must stay false).  Whole programs through the real formatter.
pub fn probes(o: &mut Outcome) {
    probes_idem(o);
    probes_fixed(o);
}

fn probe_fmt(src: &str, cfg: &[(&str, &str)]) -> crate::pool::FmtOut {
    crate::pool::format_here(&crate::pool::Job { src: src.to_string(), cfg: cfg.iter().map(|(k, v)| (k.to_string(), v.to_string())).collect(), file_lines: None })
}

/// The repaired defect: must stay clean.
pub fn probes_fixed(o: &mut Outcome) {
    use crate::pool::Status;
    use serde_json::json;
    let fmt = probe_fmt;
    {
        let src = "fn main() {\n    let x = 1; // c\n    /* d */\n    let y = 2;\n}\n";
        let r = fmt(src, &[("style_edition", "2024")]);
        let bad = r.status != Status::Ok || r.flags.iter().any(|b| *b) || r.out != src;
        o.probes.push(json!({"id": "MISSED-FIX-2024", "fails": bad, "what": "style_edition=2024: a line comment that trails a statement, followed on the next line by an indented block comment, came back with a line of blanks between the two ('left behind trailing whitespace', exit 1): repaired by a fix: commit, must stay clean", "detail": {"src": src, "out": r.out, "flags": format!("{:?}", r.flags)}}));
    }
}

/// The four shapes on which a second run changes the first one's output (known findings).
pub fn probes_idem(o: &mut Outcome) {
    use crate::pool::Status;
    use serde_json::json;
    let fmt = probe_fmt;
    let twice = |o: &mut Outcome, id: &str, src: &str, what: &str| {
        let r1 = fmt(src, &[]);
        let r2 = fmt(&r1.out, &[]);
        o.probes.push(json!({"id": id, "fails": r1.status == Status::Ok && r2.status == Status::Ok && r1.out != r2.out, "what": what, "detail": {"src": src, "first": r1.out, "second": r2.out}}));
    };
    twice(o, "MISSED-IDEM-SAMELINE", "fn a() {}\n/* a */ /* b */\nfn b() {}\n", "two comments on one line between items, the first a block comment: process_comment breaks the line behind the first and then writes the second as if it still followed code on that line (one blank in front, no indentation): `/* a */` newline ` /* b */`; a second run re-indents it");
    twice(o, "MISSED-IDEM-TRAIL", "fn a() {} /* c */// c\n/* d */\nfn b() {}\n", "a block comment that trails code, directly followed by a line comment and, at the start of the next line, by another comment (one comment slice): the later lines are aligned with the first comment; a second run sees them as comments of their own and re-indents them");
    {
        let src = "fn main() {\n    let x = 1; // c\n\n    // d\n    let y = 2;\n}\n";
        let r1 = fmt(src, &[("blank_lines_upper_bound", "0")]);
        let r2 = fmt(&r1.out, &[("blank_lines_upper_bound", "0")]);
        o.probes.push(json!({"id": "MISSED-IDEM-UPPER0", "fails": r1.status == Status::Ok && r2.status == Status::Ok && r1.out != r2.out, "what": "blank_lines_upper_bound = 0: a line comment that trails code, a blank line, a line comment: the blank line goes, and a second run takes the two comments for one group and aligns the second with the first", "detail": {"src": src, "first": r1.out, "second": r2.out}}));
    }
    twice(o, "MISSED-IDEM-UBLANK", "mod m {\u{2028}// c\n    fn a() {}\n}\n", "a Unicode blank other than space and tab (here U+2028; also a lone CR, U+00A0, U+3000) between `{` and a comment: process_comment looks for the last character that is not a space or a tab, finds the blank and takes the comment for one that trails code; the blank is dropped, and a second run moves the comment to its own line");
}

/// `rfverif missed-c03 | missed-c08 | missed-c16 | missed-c02`: what the property checks get, alone.
pub fn run_part(which: &str, tier: &str, seed: u64, out: &std::path::Path) -> i32 {
    let mut o = Outcome::new("MISSED", tier, seed);
    let mut rng = Rng::new(seed);
    let th = tier == "thorough";
    match which {
        "c03" => cases_c03(&mut o, &mut rng, th),
        "c08" => cases_c08(&mut o, &mut rng, th),
        "c16" => cases_c16(&mut o, &mut rng, th),
        _ => cases_c02(&mut o, &mut rng, th),
    }
    o.finish(out, jobs())
}

pub fn run(tier: &str, seed: u64, out: &std::path::Path) -> i32 {
    let mut o = Outcome::new("MISSED", tier, seed);
    let mut rng = Rng::new(seed);
    cases(&mut o, &mut rng, tier == "thorough");
    probes(&mut o);
    o.finish(out, jobs())
}

/// debug: `rfverif missed-width` prints unicode_str_width of single characters of interest
pub fn width_probe() -> i32 {
    for c in ['\t', '\r', '\u{b}', '\u{c}', '\u{85}', '\u{a0}', '\u{e9}', '\u{1680}', '\u{2000}', '\u{2003}', '\u{200a}', '\u{200b}', '\u{2028}', '\u{2029}', '\u{202f}', '\u{205f}', '\u{3000}', '\u{feff}', '\u{4e2d}', '\u{301}'] {
        println!("U+{:04X} {}", c as u32, hm::str_width(&c.to_string()));
    }
    0
}
