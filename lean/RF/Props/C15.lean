import RF.Lemmas.Session
import RF.Gen.State

/-!
# C15  Output is a function of source and configuration only

Theorems about `RF.Model.Session`: the `Session`, `ReportedErrors::add`, `override_config`,
`format_and_emit_report`, the `for file in files` loop of `format` (src/bin/main.rs) and the exit formulas.

The formatter proper is a parameter `F : Config κ → ι → ρ × Option Flags`: it is handed the effective
configuration and the input and nothing else.  Every theorem below is for **all** `F`, all
configurations, all command lines.  That the real `format_project` has no other input is the recorded
assumption; what the code side offers for it is the inventory `RF.Gen.State`, regenerated from the
source on every run, and `state_inventory_is_pinned` stops checking when that inventory grows.

Finding (shared with C05): a path whose local configuration fails to load makes `format` return at once
(`load_config(..)?`, main.rs:358-359); the paths after it are never formatted.  Therefore the multiset of
per-file results is **not** order-independent (`order_irrelevant_counterexample`); the exit status is.
-/
namespace RF.Props.C15
open RF.Session RF.Lemmas.Session

variable {κ ι ρ : Type}

/-- **Frame property, command line.**  Whatever was formatted before it on the same command line, what
the loop records for path number `i` (output, report, or "missing") is what a run on that path alone
records. -/
theorem session_frame (F : Config κ → ι → ρ × Option Flags) (g : Config κ) (usePath : Bool)
    (args : List (Arg κ ι)) (i : Nat) (e : Entry ρ)
    (h : (runCli F g usePath args).entries[i]? = some e) :
    ∃ a, args[i]? = some a ∧ (runCli F g usePath [a]).entries = [e] := by
  obtain ⟨h1, _, _⟩ := cliLoop_eq F usePath args (Session.new g)
  simp only [runCli] at h ⊢
  rw [h1] at h
  obtain ⟨a, ha, hao⟩ := pureLoop_getElem F _ usePath args i e h
  refine ⟨a, ha, ?_⟩
  obtain ⟨h1', _, _⟩ := cliLoop_eq F usePath [a] (Session.new g)
  rw [h1', pureLoop_single]
  simp only [Session.new] at hao ⊢
  rw [hao]

/-- … and every path is recorded, up to the first one whose configuration fails to load: either the loop
ran to the end and there is one entry per path, or it was aborted and the path at the position where
the entries stop is one that aborts a run on it alone. -/
theorem session_frame_coverage (F : Config κ → ι → ρ × Option Flags) (g : Config κ) (usePath : Bool)
    (args : List (Arg κ ι)) :
    let r := runCli F g usePath args
    (r.aborted = false ∧ r.entries.length = args.length) ∨
    (r.aborted = true ∧ ∃ a, args[r.entries.length]? = some a ∧ (runCli F g usePath [a]).aborted = true) := by
  obtain ⟨h1, h2, _⟩ := cliLoop_eq F usePath args (Session.new g)
  simp only [runCli]
  rw [h1, h2]
  rcases pureLoop_length F (Session.new g).config usePath args with h | ⟨h, a, ha, hao⟩
  · left; exact h
  · right
    refine ⟨h, a, ha, ?_⟩
    obtain ⟨_, h2', _⟩ := cliLoop_eq F usePath [a] (Session.new g)
    rw [h2', pureLoop_single, hao]

/-- **Frame property, API session.**  `Session::format` called on a sequence of inputs under one
configuration: output number `i` is the output of a fresh session on input `i`, whatever flags the session
had accumulated. -/
theorem session_frame_api (F : Config κ → ι → ρ × Option Flags) (s : Session κ) (inputs : List ι) :
    (formatAll F s inputs).2 = inputs.map fun i => (formatInput F (Session.new s.config) i).2 := by
  rw [(formatAll_eq F inputs s).1]
  apply List.map_congr_left
  intro i _
  rw [formatInput_snd]; rfl

/-- `override_config` puts the session's configuration back: after the loop body for any path (local
configuration loaded or not, formatter failing or not) the session has the configuration it had before. -/
theorem config_restored (F : Config κ → ι → ρ × Option Flags) (usePath : Bool) (s s' : Session κ)
    (a : Arg κ ι) (e : Entry ρ) (h : argStep F usePath s a = some (s', e)) : s'.config = s.config := by
  rw [argStep_eq] at h
  cases ho : argOut F s.config usePath a with
  | none => rw [ho] at h; cases h
  | some e0 => rw [ho] at h; simp at h; rw [← h.1]

/-- … and so after the whole loop. -/
theorem config_restored_loop (F : Config κ → ι → ρ × Option Flags) (usePath : Bool) (s : Session κ)
    (args : List (Arg κ ι)) : (cliLoop F usePath s args).sess.config = s.config := by
  rw [(cliLoop_eq F usePath args s).2.2]

/-- `override_config` itself: whatever the closure does to the session (including assigning
`config`), the configuration afterwards is the one saved by the first swap. -/
theorem override_config_restores {α : Type} (s : Session κ) (c : Config κ) (f : Session κ → Session κ × α) :
    (overrideConfig s c f).1.config = s.config := rfl

/-- **Exit status.**  The exit status of `rustfmt p₁ … pₙ` is the maximum of the exit statuses of
`rustfmt pᵢ` (0 for the empty command line), in check mode and in normal mode. The real formula is
`operational ∨ parsing ∨ ((diff ∨ check_errors) ∧ --check)`, a monotone function of flags that are only
OR-ed; an aborted run exits 1 and so does the run on the aborting path alone. -/
theorem exit_is_max (F : Config κ → ι → ρ × Option Flags) (g : Config κ) (usePath check : Bool)
    (args : List (Arg κ ι)) :
    (runCli F g usePath args).exit check =
      (args.map fun a => (runCli F g usePath [a]).exit check).foldr max 0 := by
  rw [exit_eq_pure, RF.Lemmas.Session.exit_is_max]
  congr 1
  apply List.map_congr_left
  intro a _
  rw [exit_eq_pure]

/-- Which flags decide: `has_operational_errors`, `has_parsing_errors` always; `has_diff` and
`has_check_errors` only under `--check`; `has_formatting_errors`, `has_macro_format_failure` and
`has_unformatted_code_errors` never (on their own — `track_errors` sets `operational` next to them for
line-overflow and trailing-whitespace). -/
theorem exit_formula (check : Bool) (f : Flags) :
    exitFormat check f = 1 ↔ (f.operational = true ∨ f.parsing = true ∨ (check = true ∧ (f.diff = true ∨ f.check = true))) := by
  cases f; cases check <;> simp [exitFormat] <;> grind

/-- the exit status is 0 or 1 -/
theorem exit_le_one (check : Bool) (f : Flags) : exitFormat check f ≤ 1 := exitFormat_le_one check f

/-- Standard input: `has_diff` is not consulted even under `--check` (F4). -/
theorem exit_stdin_ignores_diff (f : Flags) : exitStdin { f with diff := true, check := true } = exitStdin f := rfl

/-- **Order, exit status.**  Any permutation of the command line exits with the same status. -/
theorem order_irrelevant_exit (F : Config κ → ι → ρ × Option Flags) (g : Config κ) (usePath check : Bool)
    (args args' : List (Arg κ ι)) (h : args.Perm args') :
    (runCli F g usePath args).exit check = (runCli F g usePath args').exit check := by
  rw [exit_is_max, exit_is_max]
  exact foldr_max_perm (h.map _)

/-- **Order, results (partial).**  If no path fails to load its configuration (no run on a single path
is aborted), any permutation of the command line records the same multiset of per-file results. -/
theorem order_irrelevant_partial (F : Config κ → ι → ρ × Option Flags) (g : Config κ) (usePath : Bool)
    (args args' : List (Arg κ ι)) (h : args.Perm args')
    (hok : ∀ a ∈ args, (runCli F g usePath [a]).aborted = false) :
    (runCli F g usePath args).entries.Perm (runCli F g usePath args').entries := by
  have hn : noAbort F g usePath args := by
    intro a ha hnone
    have := hok a ha
    rw [runCli, (cliLoop_eq F usePath [a] (Session.new g)).2.1, pureLoop_single] at this
    simp only [Session.new] at this
    rw [hnone] at this
    cases this
  have hn' : noAbort F g usePath args' := fun a ha => hn a (h.mem_iff.2 ha)
  simp only [runCli]
  rw [(cliLoop_eq F usePath args (Session.new g)).1, (cliLoop_eq F usePath args' (Session.new g)).1]
  simp only [Session.new]
  rw [(pureLoop_noAbort F g usePath args hn).1, (pureLoop_noAbort F g usePath args' hn').1]
  exact h.filterMap _

/-- The unrestricted statement is false: with a path whose local configuration is malformed, the
order decides whether the *other* path is formatted at all. -/
theorem order_irrelevant_counterexample :
    ¬ (∀ (F : Config Unit → Nat → Nat × Option Flags) (g : Config Unit) (usePath : Bool)
        (args args' : List (Arg Unit Nat)), args.Perm args' →
        (runCli F g usePath args).entries.Perm (runCli F g usePath args').entries) := by
  intro h
  have := h (fun _ i => (i, some Flags.none)) ⟨true, false, ()⟩ false
    [.file none 0, .file (some ⟨true, false, ()⟩) 1] [.file (some ⟨true, false, ()⟩) 1, .file none 0]
    (List.Perm.swap _ _ _)
  have hl := this.length_eq
  revert hl
  decide

/-- **Flags only grow.**  `ReportedErrors::add` ORs; nothing clears a flag: one more input leaves every
flag that was set, set. -/
theorem flags_monotone (F : Config κ → ι → ρ × Option Flags) (s : Session κ) (i : ι) :
    s.errors.le (formatAndEmitReport F s i).1.errors = true := by
  rw [formatAndEmitReport_fst]; exact le_add _ _

/-- … over the whole loop too, and the final flags are exactly the OR of the initial ones with those of
the recorded entries. -/
theorem flags_monotone_loop (F : Config κ → ι → ρ × Option Flags) (usePath : Bool) (s : Session κ)
    (args : List (Arg κ ι)) :
    s.errors.le (cliLoop F usePath s args).sess.errors = true ∧
    (cliLoop F usePath s args).sess.errors =
      s.errors.add ((cliLoop F usePath s args).entries.foldr (fun e acc => e.flags.add acc) Flags.none) := by
  obtain ⟨h1, _, h3⟩ := cliLoop_eq F usePath args s
  rw [h3, h1]
  exact ⟨le_add _ _, rfl⟩

/-- `ReportedErrors::add` is the field-wise OR of the seven flags: commutative, associative,
idempotent, with `default()` as unit — the order and multiplicity in which reports are merged is immaterial. -/
theorem add_is_or (a b c : Flags) :
    a.add b = b.add a ∧ (a.add b).add c = a.add (b.add c) ∧ a.add a = a ∧ a.add Flags.none = a ∧
    (a.add b).toList = List.zipWith (· || ·) a.toList b.toList :=
  ⟨add_comm a b, add_assoc a b c, add_self a, add_none a, rfl⟩

/-! ## The state inventory

`RF.Gen.State` lists, from the current source, everything that outlives the formatting of one input.
-/

/-- The classes of process-wide statics that cannot carry information from one input to the next:

* a `static_regex!(<literal>)` site: a `OnceLock<Regex>` initialised on first use from a pattern that is a
  literal in the source.  Whether it is initialised depends on the history, its *value* does not: every
  `get_or_init` returns `Regex::new(<the same literal>)`, and a compiled `Regex` is used through `&self`
  methods only.
* the `RE` static *inside the definition* of the `static_regex!` macro in `src/lib.rs`: the same thing, seen
  once more by the scan because the macro body is source text (each expansion has its own `RE`).
* a `static NAME: &str = "…"`: an immutable string constant (no `mut`, no interior mutability). -/
def allowedStatic (e : String × String × String) : Bool :=
  (e.2.1 == "static_regex!" && e.2.2 == "OnceLock<Regex> cache of a literal pattern") ||
  (e.1 == "src/lib.rs" && e.2.1 == "RE" && e.2.2 == "::std::sync::OnceLock<::regex::Regex>") ||
  (e.2.2 == "&str")

/-- **The inventory is what the frame theorem assumes.**

* `Session` has exactly the fields `config` (modelled; restored by `override_config`), `out` (the
  caller's writer: written, never read), `errors` (modelled; only OR-ed, read by the accessors and the exit
  formula, not by `format_project`), `source_file` (pushed to in `handle_formatted_file`, read only under
  `#[cfg(test)]`), `emitter` (its accumulators decide separators between entries, not the entries).
* `ReportedErrors` has exactly the seven Boolean flags of `RF.Session.Flags`, in this order.
* every static in `src/` belongs to one of the three classes of `allowedStatic`; no `static mut`, no
  `thread_local!`, no `lazy_static!`.

A new `Session` field, a new flag, or a new static (a cache keyed by file name, say) changes the generated
lists and this theorem stops checking. -/
theorem state_inventory_is_pinned :
    RF.Gen.State.sessionFields.map (·.1) = ["config", "out", "errors", "source_file", "emitter"] ∧
    RF.Gen.State.reportedErrorsFields =
      ["has_operational_errors", "has_parsing_errors", "has_formatting_errors",
       "has_macro_format_failure", "has_check_errors", "has_diff", "has_unformatted_code_errors"] ∧
    RF.Gen.State.statics.all allowedStatic = true := by
  decide

/-- **The accumulating session state is write-only while formatting.**  Inside `impl Session` of
`src/formatting.rs` (format_input_inner, handle_formatted_file) the list of files emitted so far is only
`push`ed to and the error flags are only `add`ed (OR-ed) to; neither is read, so what input number `i`
produces cannot depend on the inputs before it.  In `src/lib.rs` the flags are read only by the public
getters (and set by `add_operational_error`).  A new access - `self.source_file.iter()`, a test of
`self.errors.has_diff` before emitting - changes the generated list and this stops checking. -/
theorem session_state_write_only :
    RF.Gen.State.sessionUses.filter (·.1 = "src/formatting.rs") =
      [("src/formatting.rs", "errors", "add"), ("src/formatting.rs", "source_file", "push")] ∧
    ∀ u ∈ RF.Gen.State.sessionUses.filter (·.1 = "src/lib.rs"),
      u.2.1 = "errors" ∧ u.2.2 ∈ RF.Gen.State.reportedErrorsFields := by
  decide

/-- **The command-line loop carries no state of its own.**  In `format` of `src/bin/main.rs` the only mutable
binding that is alive across the iterations of `for file in files` is the `Session` (whose accumulating fields are
write-only, see above); the configuration of a path is looked up afresh by `load_config` in every iteration.  A
cache of configurations keyed by directory, a "previous project" remembered between iterations or any other
`let mut` in front of the loop changes the generated list and this stops checking. -/
theorem cli_loop_state_is_pinned :
    (RF.Gen.State.cliLoopBindings.filter (·.2)).map (·.1) = ["session"] ∧
    "load_config" ∈ RF.Gen.State.cliLoopCalls := by
  decide

/-- the model's `Flags` has one field per generated `ReportedErrors` field -/
theorem flags_match_inventory (f : Flags) :
    f.toList.length = RF.Gen.State.reportedErrorsFields.length := by
  show 7 = _; decide

/-! ## Non-vacuity -/

/-- a formatter that reports a diff for odd inputs and fails (`Err`) on input 7 -/
def demoF : Config Unit → Nat → Nat × Option Flags :=
  fun _ i => (i * 10, if i = 7 then none else some { diff := i % 2 = 1 })

def demoCfg : Config Unit := ⟨true, false, ()⟩

/-- `session_frame` on a command line with a missing path, a failing input and a local configuration
whose `required_version` does not match: three entries, all different, each equal to its singleton run. -/
example : (runCli demoF demoCfg false [.missing, .file (some demoCfg) 7, .file (some ⟨false, false, ()⟩) 3]).entries =
    [.missing, .formatted ⟨some 70, none⟩, .formatted ⟨none, none⟩] := by decide

/-- `exit_is_max` in check mode: one clean file, one with a diff -/
example : (runCli demoF demoCfg true [.file none 2, .file none 3]).exit true = 1 ∧
    (runCli demoF demoCfg true [.file none 2]).exit true = 0 ∧
    (runCli demoF demoCfg true [.file none 3]).exit true = 1 ∧
    (runCli demoF demoCfg true [.file none 2, .file none 3]).exit false = 0 := by decide

/-- the hypothesis of `order_irrelevant_partial` holds of a command line with a failing input -/
example : ∀ a ∈ [Arg.file (some demoCfg) 7, .file (some demoCfg) 3, Arg.missing],
    (runCli demoF demoCfg false [a]).aborted = false := by decide

/-- the hypothesis of `config_restored` holds with a local configuration different from the session's,
and the session's configuration is back afterwards while the formatter saw the local one (`versionOk = false`
⇒ `Err` ⇒ operational flag) -/
example : argStep demoF false (Session.new demoCfg) (.file (some ⟨false, true, ()⟩) 3) =
    some (⟨demoCfg, { operational := true }⟩, .formatted ⟨none, none⟩) := rfl

/-- an aborted run: nothing is recorded for the second and third path -/
example : (runCli demoF demoCfg false [.file (some demoCfg) 2, .file none 3, .file (some demoCfg) 4]).entries.length = 1 ∧
    (runCli demoF demoCfg false [.file (some demoCfg) 2, .file none 3, .file (some demoCfg) 4]).exit false = 1 := by decide

end RF.Props.C15
