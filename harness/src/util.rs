//! Shared pieces of the harness: PRNG, line-protocol encodings, the model process, the result file.
use std::collections::BTreeMap;
use std::io::Write;
use std::path::{Path, PathBuf};
use std::process::{Command, Stdio};

use serde_json::{json, Value};

/// SplitMix64: the only source of randomness; every case records the state it was drawn from.
#[derive(Clone, Debug)]
pub struct Rng(pub u64);

impl Rng {
    pub fn new(seed: u64) -> Rng {
        Rng(seed.wrapping_mul(0x9E37_79B9_7F4A_7C15) ^ 0xD1B5_4A32_D192_ED03)
    }
    pub fn next(&mut self) -> u64 {
        self.0 = self.0.wrapping_add(0x9E37_79B9_7F4A_7C15);
        let mut z = self.0;
        z = (z ^ (z >> 30)).wrapping_mul(0xBF58_476D_1CE4_E5B9);
        z = (z ^ (z >> 27)).wrapping_mul(0x94D0_49BB_1331_11EB);
        z ^ (z >> 31)
    }
    pub fn below(&mut self, n: usize) -> usize {
        if n == 0 { 0 } else { (self.next() % n as u64) as usize }
    }
    pub fn range(&mut self, lo: usize, hi: usize) -> usize {
        lo + self.below(hi - lo + 1)
    }
    pub fn chance(&mut self, num: usize, den: usize) -> bool {
        self.below(den) < num
    }
    pub fn pick<'a, T>(&mut self, xs: &'a [T]) -> &'a T {
        &xs[self.below(xs.len())]
    }
    pub fn fork(&mut self) -> Rng {
        Rng(self.next())
    }
}

pub fn enc_bytes(b: &[u8]) -> String {
    if b.is_empty() {
        return "-".to_string();
    }
    let mut s = String::with_capacity(b.len() * 2);
    for x in b {
        s.push_str(&format!("{:02x}", x));
    }
    s
}
pub fn enc_str(s: &str) -> String {
    enc_bytes(s.as_bytes())
}
pub fn enc_list<S: AsRef<str>>(xs: &[S]) -> String {
    if xs.is_empty() {
        return "_".to_string();
    }
    xs.iter().map(|s| enc_str(s.as_ref())).collect::<Vec<_>>().join(",")
}
pub fn dec_bytes(s: &str) -> Option<Vec<u8>> {
    if s == "-" {
        return Some(vec![]);
    }
    if s.len() % 2 != 0 {
        return None;
    }
    (0..s.len() / 2).map(|i| u8::from_str_radix(&s[2 * i..2 * i + 2], 16).ok()).collect()
}
pub fn dec_str(s: &str) -> Option<String> {
    String::from_utf8(dec_bytes(s)?).ok()
}
pub fn dec_list(s: &str) -> Option<Vec<String>> {
    if s == "_" {
        return Some(vec![]);
    }
    s.split(',').map(dec_str).collect()
}

/// One comparison: `request` is sent to the model driver; its answer must equal `expect`.
/// kind "corr": `expect` is what the implementation returned (model vs code).
/// kind "oracle": the request evaluates a Lean oracle on the implementation's output; `expect`
/// is the passing answer (usually "ok"); a different answer is a property failure of the code.
/// kind "assume": an assumption about code outside /repo, checked per case.
#[derive(Clone, Debug)]
pub struct Case {
    pub kind: &'static str,
    pub op: String,
    pub request: String,
    pub expect: String,
    pub desc: String,
    pub nontrivial: bool,
}

pub fn rfmodel_path() -> PathBuf {
    std::env::var_os("RFMODEL")
        .map(PathBuf::from)
        .unwrap_or_else(|| PathBuf::from("/verif/lean/.lake/build/bin/rfmodel"))
}

/// Runs the model driver over a batch of request lines, in `jobs` parallel processes.
pub fn run_model(requests: &[String], jobs: usize) -> Vec<String> {
    let n = requests.len();
    if n == 0 {
        return vec![];
    }
    let jobs = jobs.max(1).min(n);
    let chunk = (n + jobs - 1) / jobs;
    let exe = rfmodel_path();
    let mut handles = vec![];
    for part in requests.chunks(chunk) {
        let input: String = part.iter().map(|r| format!("{}\n", r)).collect();
        let exe = exe.clone();
        let cnt = part.len();
        handles.push(std::thread::spawn(move || {
            let mut child = Command::new(&exe)
                .stdin(Stdio::piped())
                .stdout(Stdio::piped())
                .stderr(Stdio::inherit())
                .spawn()
                .unwrap_or_else(|e| panic!("cannot start model driver {:?}: {}", exe, e));
            let mut stdin = child.stdin.take().unwrap();
            let writer = std::thread::spawn(move || {
                let _ = stdin.write_all(input.as_bytes());
            });
            let out = child.wait_with_output().expect("model driver failed");
            let _ = writer.join();
            let text = String::from_utf8_lossy(&out.stdout).into_owned();
            let mut lines: Vec<String> = text.lines().map(|s| s.to_string()).collect();
            // a crashed driver leaves missing answers: mark them
            while lines.len() < cnt {
                lines.push("!driver-died".to_string());
            }
            lines
        }));
    }
    let mut res = Vec::with_capacity(n);
    for h in handles {
        res.extend(h.join().unwrap());
    }
    res
}

#[derive(Default)]
pub struct Outcome {
    pub property: String,
    pub tier: String,
    pub seed: u64,
    pub cases: Vec<Case>,
    /// implementation-side failures found without the model (crash, assumption, etc.)
    pub direct_failures: Vec<Value>,
    pub known_findings_seen: Vec<Value>,
    pub distribution: BTreeMap<String, u64>,
    pub samples: Vec<Value>,
    pub exhaustive: bool,
    pub notes: Vec<String>,
    /// comparisons made directly in the harness (no model request): counted into evaluations
    pub direct_evals: u64,
    pub direct_distinct: u64,
    /// enumerated probes of known-dirty inputs: {id, fails, what, detail}
    pub probes: Vec<Value>,
    /// cases already evaluated by `flush` (large runs hand their cases over in batches)
    pub flushed: Flushed,
}

#[derive(Default)]
pub struct Flushed {
    pub cases: u64,
    pub per_op: BTreeMap<String, (u64, u64)>,
    pub seen: std::collections::HashSet<u64>,
    pub disagreements: Vec<Value>,
    pub oracle_failures: Vec<Value>,
    pub assumption_failures: Vec<Value>,
    pub samples: Vec<Value>,
}

impl Outcome {
    pub fn new(property: &str, tier: &str, seed: u64) -> Outcome {
        Outcome { property: property.into(), tier: tier.into(), seed, ..Default::default() }
    }
    pub fn count(&mut self, key: &str) {
        *self.distribution.entry(key.to_string()).or_insert(0) += 1;
    }
    pub fn count_n(&mut self, key: &str, n: u64) {
        *self.distribution.entry(key.to_string()).or_insert(0) += n;
    }
    pub fn push(&mut self, kind: &'static str, op: &str, request: String, expect: String, desc: String, nontrivial: bool) {
        self.cases.push(Case { kind, op: op.to_string(), request, expect, desc, nontrivial });
    }
    pub fn sample(&mut self, v: Value) {
        if self.samples.len() < 6 {
            self.samples.push(v);
        }
    }

    /// Evaluates the cases pushed so far against the model and forgets them (keeps the counts,
    /// the failures and a few samples): bounds the memory of runs with millions of cases.
    pub fn flush(&mut self, jobs: usize) {
        let cases = std::mem::take(&mut self.cases);
        let requests: Vec<String> = cases.iter().map(|c| c.request.clone()).collect();
        let answers = run_model(&requests, jobs);
        drop(requests);
        let f = &mut self.flushed;
        for (i, (c, a)) in cases.iter().zip(answers.iter()).enumerate() {
            let e = f.per_op.entry(format!("{}:{}", c.kind, c.op)).or_insert((0, 0));
            e.0 += 1;
            if c.nontrivial {
                use std::hash::{Hash, Hasher};
                let mut h = std::collections::hash_map::DefaultHasher::new();
                c.request.hash(&mut h);
                if f.seen.insert(h.finish()) {
                    e.1 += 1;
                }
            }
            if a != &c.expect {
                let v = json!({"kind": c.kind, "op": c.op, "request": c.request, "impl": c.expect, "model": a, "desc": c.desc});
                match c.kind {
                    "corr" => f.disagreements.push(v),
                    "oracle" => f.oracle_failures.push(v),
                    _ => f.assumption_failures.push(v),
                }
            }
            if f.samples.len() < 6 && c.nontrivial && i % (cases.len() / 5 + 1) == 0 {
                f.samples.push(json!({"kind": c.kind, "op": c.op, "desc": c.desc, "request": c.request, "answer": a}));
            }
        }
        f.cases += cases.len() as u64;
    }

    /// Sends every case to the model, compares, and writes `<out>/result.json`.
    pub fn finish(mut self, out: &Path, jobs: usize) -> i32 {
        std::fs::create_dir_all(out).ok();
        self.flush(jobs);
        let Flushed { cases: ncases, per_op, seen, disagreements, oracle_failures, assumption_failures, samples } = std::mem::take(&mut self.flushed);
        let distinct = seen;
        for s in samples {
            if self.samples.len() < 6 {
                self.samples.push(s);
            }
        }
        // keep at most 3 examples per signature so that one noisy defect cannot hide another
        let trunc = |v: &Vec<Value>| -> Vec<Value> {
            let mut per: BTreeMap<String, usize> = BTreeMap::new();
            let mut res = vec![];
            for x in v {
                let sig = x.get("sig").and_then(|s| s.as_str()).or_else(|| x.get("op").and_then(|s| s.as_str())).unwrap_or("?").to_string();
                let c = per.entry(sig).or_insert(0);
                *c += 1;
                if (*c <= 3 && res.len() < 60) || std::env::var("VERIF_KEEP_ALL").is_ok() {
                    res.push(x.clone());
                }
            }
            res
        };
        let result = json!({
            "property": self.property,
            "tier": self.tier,
            "seed": self.seed,
            "evaluations": ncases + self.direct_evals,
            "distinct_nontrivial": distinct.len() as u64 + self.direct_distinct,
            "probes": self.probes,
            "per_op": per_op.iter().map(|(k, v)| (k.clone(), json!({"cases": v.0, "distinct_nontrivial": v.1}))).collect::<serde_json::Map<_, _>>(),
            "disagreements_total": disagreements.len(),
            "disagreements": trunc(&disagreements),
            "oracle_failures_total": oracle_failures.len(),
            "oracle_failures": trunc(&oracle_failures),
            "assumption_failures_total": assumption_failures.len(),
            "assumption_failures": trunc(&assumption_failures),
            "direct_failures_total": self.direct_failures.len(),
            "direct_failures": trunc(&self.direct_failures),
            "known_findings_seen": self.known_findings_seen,
            "distribution": self.distribution,
            "samples": self.samples,
            "exhaustive": self.exhaustive,
            "notes": self.notes,
        });
        std::fs::write(out.join("result.json"), serde_json::to_vec_pretty(&result).unwrap()).unwrap();
        if disagreements.is_empty() && oracle_failures.is_empty() && assumption_failures.is_empty() && self.direct_failures.is_empty() {
            0
        } else {
            3
        }
    }
}

/// `VERIF_JOBS` or the number of CPUs.
pub fn jobs() -> usize {
    std::env::var("VERIF_JOBS").ok().and_then(|s| s.parse().ok()).unwrap_or_else(|| {
        std::thread::available_parallelism().map(|n| n.get()).unwrap_or(4)
    })
}

pub fn repo_dir() -> PathBuf {
    PathBuf::from(std::env::var("VERIF_REPO").unwrap_or_else(|_| "/repo".to_string()))
}

/// Runs `f` over the items on `jobs()` threads, results in order.
pub fn par_map<T: Sync, R: Send, F: Fn(&T) -> R + Sync>(items: &[T], f: F) -> Vec<R> {
    let n = items.len();
    let next = std::sync::atomic::AtomicUsize::new(0);
    let results: std::sync::Mutex<Vec<Option<R>>> = std::sync::Mutex::new((0..n).map(|_| None).collect());
    std::thread::scope(|s| {
        for _ in 0..jobs().min(n.max(1)) {
            s.spawn(|| loop {
                let i = next.fetch_add(1, std::sync::atomic::Ordering::SeqCst);
                if i >= n {
                    break;
                }
                let r = f(&items[i]);
                results.lock().unwrap()[i] = Some(r);
            });
        }
    });
    results.into_inner().unwrap().into_iter().map(|o| o.unwrap()).collect()
}

pub struct CliOut {
    pub code: Option<i32>,
    pub stdout: Vec<u8>,
    pub stderr: String,
    pub timed_out: bool,
}

/// Runs a command with `stdin_data` on its standard input and a wall-clock limit.
pub fn run_cmd(cmd: &mut Command, stdin_data: &[u8], timeout: std::time::Duration) -> CliOut {
    let mut child = match cmd.stdin(Stdio::piped()).stdout(Stdio::piped()).stderr(Stdio::piped()).spawn() {
        Ok(c) => c,
        Err(e) => return CliOut { code: None, stdout: vec![], stderr: format!("spawn: {}", e), timed_out: false },
    };
    let mut stdin = child.stdin.take().unwrap();
    let data = stdin_data.to_vec();
    let w = std::thread::spawn(move || {
        let _ = stdin.write_all(&data);
    });
    let mut so = child.stdout.take().unwrap();
    let mut se = child.stderr.take().unwrap();
    let t1 = std::thread::spawn(move || {
        let mut b = vec![];
        let _ = std::io::Read::read_to_end(&mut so, &mut b);
        b
    });
    let t2 = std::thread::spawn(move || {
        let mut b = vec![];
        let _ = std::io::Read::read_to_end(&mut se, &mut b);
        b
    });
    let t0 = std::time::Instant::now();
    let mut timed_out = false;
    let status = loop {
        match child.try_wait() {
            Ok(Some(s)) => break Some(s),
            Ok(None) => {
                if t0.elapsed() > timeout {
                    let _ = child.kill();
                    timed_out = true;
                    break child.wait().ok();
                }
                std::thread::sleep(std::time::Duration::from_millis(2));
            }
            Err(_) => break None,
        }
    };
    let _ = w.join();
    let stdout = t1.join().unwrap_or_default();
    let stderr = String::from_utf8_lossy(&t2.join().unwrap_or_default()).into_owned();
    CliOut { code: status.and_then(|s| s.code()), stdout, stderr, timed_out }
}

pub fn toolchain_lib() -> String {
    std::env::var("LD_LIBRARY_PATH").unwrap_or_default()
}
