//! END TO END: the inputs of `optin_inproc` through the real formatter (`pool::run_jobs`) with the option on and
//! off; the Lean denotations judge input against output, and every output must format again without a parse error.
use std::time::Duration;

use serde_json::json;

use crate::optin_corr::*;
use crate::optin_inproc as g;
use crate::pool::{self, FmtOut, Job, Status};
use crate::util::*;

enum Judge {
    Field { name: String, wrappers: String, base: String, attr: bool },
    Try { opt: bool, path: String, args: String, pre: Vec<String>, post: Vec<String> },
    Tuple,
    Paren { levels: g::Levels, atom: &'static str },
    Vis { enc: String },
    Ext { enc: String, explicit: bool, block: bool },
    Attrs { model: String },
    Doc { value: String, inner: bool },
    Arms,
    Semis { kinds: Vec<&'static str>, ts: bool },
    Float { fz: &'static str, sym: String, suf: String, before: String },
}

struct Case {
    fam: &'static str,
    job: Job,
    judge: Judge,
}

fn push(v: &mut Vec<Case>, fam: &'static str, src: String, cfg: &[(&str, &str)], judge: Judge) {
    v.push(Case { fam, job: job(src, cfg), judge });
}

fn tf(x: bool) -> &'static str {
    if x { "true" } else { "false" }
}

/// the tokens between a known prefix and suffix of token lists
fn strip<'a>(toks: &'a [String], pre: &[String], post: &[String]) -> Option<&'a [String]> {
    if toks.len() < pre.len() + post.len() || toks[..pre.len()] != *pre || toks[toks.len() - post.len()..] != *post {
        return None;
    }
    Some(&toks[pre.len()..toks.len() - post.len()])
}

fn sv(xs: &[&str]) -> Vec<String> {
    xs.iter().map(|s| s.to_string()).collect()
}

/// `attrs ( pre inner post )` read back from tokens (comments kept)
fn parse_paren(toks: &[String], i: &mut usize, levels: &mut Vec<(String, String, String)>) -> Option<String> {
    let mut attrs = String::new();
    while toks.get(*i).map(|t| t == "#").unwrap_or(false) {
        // `# [ … ]`
        let mut j = *i + 1;
        let mut depth = 0;
        let mut text = String::from("#");
        while j < toks.len() {
            text.push_str(&toks[j]);
            if toks[j] == "[" {
                depth += 1;
            } else if toks[j] == "]" {
                depth -= 1;
                if depth == 0 {
                    break;
                }
            }
            j += 1;
        }
        attrs.push_str(&text);
        *i = j + 1;
    }
    if toks.get(*i).map(|t| t == "(").unwrap_or(false) {
        *i += 1;
        let mut pre = String::new();
        if toks.get(*i).map(|t| t.starts_with("/*")).unwrap_or(false) {
            pre = toks[*i].clone();
            *i += 1;
        }
        let idx = levels.len();
        levels.push((attrs, pre, String::new()));
        let atom = parse_paren(toks, i, levels)?;
        if toks.get(*i).map(|t| t.starts_with("/*")).unwrap_or(false) {
            levels[idx].2 = toks[*i].clone();
            *i += 1;
        }
        if toks.get(*i).map(|t| t == ")").unwrap_or(false) {
            *i += 1;
            Some(atom)
        } else {
            None
        }
    } else {
        if !attrs.is_empty() {
            return None;
        }
        let mut atom: Vec<String> = vec![];
        while *i < toks.len() && toks[*i] != ")" && !toks[*i].starts_with("/*") {
            atom.push(toks[*i].clone());
            *i += 1;
        }
        Some(atom.join(" "))
    }
}

fn build(rng: &mut Rng, thorough: bool) -> Vec<Case> {
    let mut v: Vec<Case> = vec![];
    // §1 fields
    for (name, bare) in g::FIELD_NAMES {
        for init in g::inits(bare) {
            for attr in [false, true] {
                for opt in [true, false] {
                    if !thorough && !opt && attr {
                        continue;
                    }
                    let src = format!("fn f() {{\n    let _ = S {{ {}{}: {} }};\n}}\n", if attr { "#[b] " } else { "" }, name, init.src);
                    push(&mut v, "field", src, &[("use_field_init_shorthand", tf(opt)), ("remove_nested_parens", "false")], Judge::Field { name: name.to_string(), wrappers: g::enc_wrappers(&init.wrappers), base: init.base.clone(), attr });
                }
            }
        }
    }
    // §2 try!
    let ops = g::operands();
    for path in g::TRY_PATHS {
        for (di, (open, close)) in g::DELIMS.iter().enumerate() {
            for (oi, op) in ops.iter().map(Some).chain(std::iter::once(None)).enumerate() {
                for (ti, (tail_src, tail)) in g::tails().iter().enumerate() {
                    if !(path == "try" && di == 0) && (oi + ti + di) % 3 != 0 && ti > 1 {
                        continue;
                    }
                    if op.is_none() && ti > 1 {
                        continue;
                    }
                    if op.map_or(false, |x| x.src == ".." || x.src == "break") && tail_src.starts_with(' ') {
                        continue;
                    }
                    let body = format!("{}{}", op.map(|x| x.src.as_str()).unwrap_or(""), tail_src);
                    let mac = format!("{}!{}{}{}", path, open, body, close);
                    for pos in 0..4 {
                        // a statement macro with braces is a different statement
                        if pos == 1 && *open == "{" {
                            continue;
                        }
                        if !thorough && pos >= 2 && (oi + ti) % 2 != 0 {
                            continue;
                        }
                        let (src, pre, post, _stmt) = match pos {
                            0 => (format!("fn f() {{\n    let v = {};\n}}\n", mac), sv(&["fn", "f", "(", ")", "{", "let", "v", "="]), sv(&[";", "}"]), false),
                            1 => (format!("fn f() {{\n    {};\n}}\n", mac), sv(&["fn", "f", "(", ")", "{"]), sv(&[";", "}"]), true),
                            2 => (format!("fn f() {{\n    g({});\n}}\n", mac), sv(&["fn", "f", "(", ")", "{", "g", "("]), sv(&[")", ";", "}"]), false),
                            _ => (format!("fn f() {{\n    let v = {}.h();\n}}\n", mac), sv(&["fn", "f", "(", ")", "{", "let", "v", "="]), sv(&[".", "h", "(", ")", ";", "}"]), false),
                        };
                        for opt in [true, false] {
                            if !opt && (oi + ti + pos) % 4 != 0 {
                                continue;
                            }
                            for ed in ["2015", "2021"] {
                                if ed == "2021" && (path == "try" || path == "a::try" || (oi + ti) % 3 != 0) {
                                    continue;
                                }
                                // `pprust::path_to_string`: `r#` only where the word is a keyword of the edition
                                let printed = match (path, ed) {
                                    ("r#try", "2015") => "try",
                                    ("r#tri", _) => "tri",
                                    (p, _) => p,
                                };
                                push(&mut v, "try", src.clone(), &[("use_try_shorthand", tf(opt)), ("edition", ed)], Judge::Try { opt, path: printed.to_string(), args: g::enc_args(op, tail), pre: pre.clone(), post: post.clone() });
                            }
                        }
                    }
                }
            }
        }
    }
    // §3 tuple patterns
    for list in g::tuple_lists(if thorough { 5 } else { 3 }) {
        if list.is_empty() {
            continue;
        }
        for head in ["", "S"] {
            let body = list.iter().map(|e| g::TUPLE_ELEMS[*e].0).collect::<Vec<_>>().join(", ");
            let body = if list.len() == 1 && head.is_empty() && g::TUPLE_ELEMS[list[0]].1 != ".." { format!("{},", body) } else { body };
            for opt in [true, false] {
                if !opt && list.len() > 2 {
                    continue;
                }
                push(&mut v, "tuple", format!("fn f() {{\n    match x {{\n        {}({}) => 1,\n    }}\n}}\n", head, body), &[("condense_wildcard_suffixes", tf(opt))], Judge::Tuple);
            }
        }
    }
    // §4 parentheses
    for levels in g::paren_universe(if thorough { 4 } else { 3 }) {
        for atom in ["a", "a + b"] {
            if atom == "a" && levels.len() > 2 {
                continue;
            }
            for opt in [true, false] {
                if !opt && levels.len() > 2 {
                    continue;
                }
                push(&mut v, "paren", format!("fn f() {{\n    let x = {};\n}}\n", g::paren_src(&levels, atom)), &[("remove_nested_parens", tf(opt))], Judge::Paren { levels: levels.clone(), atom });
            }
        }
    }
    // §5 visibility and ABI
    for (src_vis, enc) in g::vis_universe() {
        for item in ["fn f() {}", "struct S;", "const C: u8 = 1;"] {
            push(&mut v, "vis", format!("{} {}\n", src_vis, item), &[("edition", "2015")], Judge::Vis { enc: enc.clone() });
        }
    }
    for (sp, abi) in [("", "n"), ("extern", "i"), ("extern \"C\"", "C"), ("extern \"\\x43\"", "C"), ("extern r\"C\"", "C"), ("extern \"Rust\"", "Rust"), ("extern \"C-unwind\"", "C-unwind"), ("extern \"system\"", "system"), ("extern   \"C\"", "C")] {
        let enc = match abi {
            "n" => "n".to_string(),
            "i" => "i".to_string(),
            a => format!("e:{}", enc_str(a)),
        };
        for explicit in [true, false] {
            push(&mut v, "extern", format!("{} fn f() {{}}\n", sp), &[("force_explicit_abi", tf(explicit))], Judge::Ext { enc: enc.clone(), explicit, block: false });
            if abi != "n" {
                push(&mut v, "extern", format!("{} {{}}\n", sp), &[("force_explicit_abi", tf(explicit))], Judge::Ext { enc: enc.clone(), explicit, block: true });
            }
        }
    }
    // §6 attributes
    for (ci, c) in g::attr_lists(rng, thorough).into_iter().enumerate() {
        for (k, (merge, norm)) in [(true, false), (false, false), (true, true), (false, true)].iter().enumerate() {
            if k > 0 && (ci + k) % 3 != 0 {
                continue;
            }
            if !thorough && ci % 2 == 1 && k > 0 {
                continue;
            }
            push(&mut v, "attrs", c.src.clone(), &[("merge_derives", tf(*merge)), ("normalize_doc_attributes", tf(*norm))], Judge::Attrs { model: c.model.clone() });
        }
    }
    for value in ["", " x", "x", "a\nb", " a\n b", "a\n\nb", " a  b", "a\"b", "a\\b", "a\tb", "é", "a /* b */", "a // b"] {
        for inner in [false, true] {
            let lit: String = value.chars().flat_map(|c| c.escape_default()).collect();
            let src = if inner { format!("#![doc = \"{}\"]\nstruct S;\n", lit) } else { format!("#[doc = \"{}\"]\nstruct S;\n", lit) };
            push(&mut v, "doc", src, &[("normalize_doc_attributes", "true")], Judge::Doc { value: value.to_string(), inner });
        }
    }
    // §7 arms and semicolons
    for pipes in ["Never", "Always", "Preserve"] {
        for (b1, _) in g::ARM_BODIES {
            for (b2, _) in g::ARM_BODIES {
                for p1 in [false, true] {
                    for p2 in [false, true] {
                        let src = format!(
                            "fn f() {{\n    match x {{\n        {}A | B if g => {},\n        {}C => {}{}\n    }}\n}}\n",
                            if p1 { "| " } else { "" },
                            b1,
                            if p2 { "|" } else { "" },
                            b2,
                            if p2 { "," } else { "" }
                        );
                        push(&mut v, "arms", src, &[("match_arm_leading_pipes", pipes)], Judge::Arms);
                    }
                }
            }
        }
    }
    for ts in [true, false] {
        for list in g::block_lists() {
            let src = format!("fn f() {{\n{}\n}}\n", list.iter().map(|s| format!("    {}", g::STMTS[*s].0)).collect::<Vec<_>>().join("\n"));
            push(&mut v, "semis", src, &[("trailing_semicolon", tf(ts))], Judge::Semis { kinds: list.iter().map(|s| g::STMTS[*s].1).collect(), ts });
        }
    }
    // §8 float literals in front of a dot
    let grid = g::float_grid();
    for (gi, (sym, suf)) in grid.iter().enumerate() {
        for (fz, fzv) in [("N", "Never"), ("A", "Always"), ("I", "IfNoPostfix"), ("P", "Preserve")] {
            if !thorough && ((fz != "N" && gi % 4 != 0) || (fz == "N" && gi % 2 != 0 && !sym.ends_with(".0") && !sym.ends_with('.'))) {
                continue;
            }
            // a literal that ends in a dot needs a blank in front of the operator in the source as well
            let sep = if sym.ends_with('.') && suf.is_empty() { " " } else { "" };
            let lit = format!("{}{}", sym, suf);
            let mut forms: Vec<(String, String)> = vec![];
            for pre in ["", "&", "-", "&mut ", "*", "!", "&-"] {
                for rhs in ["..", "..2.0", "..=2.0"] {
                    forms.push((format!("fn f() {{\n    let a = {}{}{}{};\n}}\n", pre, lit, sep, rhs), format!("    let a = {}", pre)));
                }
            }
            for (pre, rhs) in [("", "..=2.0"), ("-", "..=2.0"), ("", ".."), ("", "...2.0")] {
                forms.push((format!("fn f() {{\n    match x {{\n        {}{}{}{} => 1,\n        _ => 2,\n    }}\n}}\n", pre, lit, sep, rhs), format!("        {}", pre)));
            }
            if !(sym.ends_with('.') && suf.is_empty()) {
                for rhs in [".min(2.0)", ".0", ".await"] {
                    forms.push((format!("fn f() {{\n    let a = {}{};\n}}\n", lit, rhs), "    let a = ".to_string()));
                }
            }
            for (fi, (src, before)) in forms.into_iter().enumerate() {
                if !thorough && (gi + fi) % 2 != 0 && fz != "N" {
                    continue;
                }
                push(&mut v, "float", src, &[("float_literal_trailing_zero", fzv)], Judge::Float { fz, sym: sym.clone(), suf: suf.clone(), before });
            }
        }
    }
    v
}

fn field_of(out: &str, attr: bool) -> Option<(String, Option<Vec<String>>)> {
    let toks = lex(out, false);
    let open = toks.iter().position(|t| t == "S")? + 2;
    let close = toks.iter().rposition(|t| t == "}")? - 2; // `} ; }`
    let mut f: Vec<String> = toks.get(open..=close)?.to_vec();
    // the closing brace of the literal
    while f.last().map(|t| t == "}").unwrap_or(false) {
        f.pop();
    }
    if f.last().map(|t| t == ",").unwrap_or(false) {
        f.pop();
    }
    if attr {
        if f.len() < 4 || f[0] != "#" {
            return None;
        }
        f.drain(..4);
    }
    if f.len() == 1 {
        return Some((f[0].clone(), None));
    }
    if f.len() >= 3 && f[1] == ":" {
        return Some((f[0].clone(), Some(f[2..].to_vec())));
    }
    None
}

fn judge(o: &mut Outcome, c: &Case, r: &FmtOut, printed_float: Option<&String>) {
    let fam = c.fam;
    let src = &c.job.src;
    let out = &r.out;
    let desc = format!("{:?} {:?}", src, c.job.cfg);
    let changed = lex(src, true) != lex(out, true);
    let mut fail = |o: &mut Outcome, what: &str| {
        o.direct_failures.push(json!({"sig": format!("e2e-{}-{}", fam, what), "src": src, "cfg": format!("{:?}", c.job.cfg), "out": out}));
    };
    match &c.judge {
        Judge::Field { name, wrappers, base, attr } => match field_of(out, *attr) {
            Some((oname, ovalue)) => {
                let ov = match &ovalue {
                    None => "~".to_string(),
                    Some(v) => enc_strs(v),
                };
                o.push("oracle", "opt.field.den", format!("opt.field.den {} 0 {} {} {} {}", enc_str(name), wrappers, base, enc_str(&oname), ov), "ok".into(), desc, ovalue.is_none());
            }
            None => fail(o, "unreadable"),
        },
        Judge::Try { opt, path, args, pre, post } => {
            let it = lex(src, false);
            let ot = lex(out, false);
            match (strip(&it, pre, post), strip(&ot, pre, post)) {
                (Some(i), Some(t)) => {
                    o.push("oracle", "opt.try.judge", format!("opt.try.judge {} {} {} {} {}", b(*opt), enc_str(path), args, enc_strs(i), enc_strs(t)), "ok".into(), desc, changed);
                }
                _ => fail(o, "unreadable"),
            }
        }
        Judge::Tuple => {
            let pat = |s: &str| s.lines().find(|l| l.contains("=>")).and_then(|l| l.split("=>").next()).and_then(g::tuple_elems_of);
            match (pat(src), pat(out)) {
                (Some(i), Some(t)) => {
                    let n = i.len();
                    for arity in [n.saturating_sub(1), n, n + 2] {
                        o.push("oracle", "opt.tuple.same", format!("opt.tuple.same {} {} {}", arity, enc_strs(&i), enc_strs(&t)), "ok".into(), desc.clone(), i != t);
                    }
                }
                _ => fail(o, "unreadable"),
            }
        }
        Judge::Paren { levels, atom } => {
            let ot = lex(out, true);
            let pre = sv(&["fn", "f", "(", ")", "{", "let", "x", "="]);
            let post = sv(&[";", "}"]);
            match strip(&ot, &pre, &post) {
                Some(t) => {
                    let mut i = 0;
                    let mut ol: Vec<(String, String, String)> = vec![];
                    match parse_paren(t, &mut i, &mut ol) {
                        Some(oatom) if i == t.len() => {
                            let olv: Vec<(&str, &str, &str)> = ol.iter().map(|(a, p, q)| (a.as_str(), p.as_str(), q.as_str())).collect();
                            o.push("oracle", "opt.paren.hard", format!("opt.paren.hard {} {} {} {}", g::enc_levels(levels), enc_str(atom), g::enc_levels(&olv), enc_str(&oatom)), "ok".into(), desc, ol.len() != levels.len());
                        }
                        _ => fail(o, "unreadable"),
                    }
                }
                None => fail(o, "unreadable"),
            }
        }
        Judge::Vis { enc } => {
            let cut = ["fn f", "struct S", "const C"].iter().filter_map(|k| out.find(k)).min();
            match cut {
                Some(p) => o.push("corr", "opt.vis", format!("opt.vis {}", enc), enc_str(&out[..p]), desc, changed),
                None => fail(o, "unreadable"),
            }
        }
        Judge::Ext { enc, explicit, block } => {
            let cut = if *block { out.find('{') } else { out.find("fn f") };
            match cut {
                Some(p) => {
                    o.push("corr", "opt.extern", format!("opt.extern {} {}", enc, b(*explicit)), enc_str(&out[..p]), desc.clone(), changed);
                    o.push("oracle", "opt.extern.read", format!("opt.extern.read {} {}", enc, enc_str(&out[..p])), "ok".into(), desc, changed);
                }
                None => fail(o, "unreadable"),
            }
        }
        Judge::Attrs { model } => {
            let config = pool::build_config(&c.job.cfg, &None).unwrap();
            match analyze(out, &config).as_deref().and_then(|rs| first(rs, "attrs").map(|x| g::flat_of_hook(x.get("list").unwrap_or("")))) {
                Some(units) => {
                    let outs = units.iter().map(|u| format!("{}/0/0/0", u)).collect::<Vec<_>>().join(",");
                    o.push("oracle", "opt.derive.same", format!("opt.derive.same {} {}", model, if outs.is_empty() { "_".into() } else { outs }), "ok".into(), desc, changed);
                }
                None => fail(o, "unreadable"),
            }
        }
        Judge::Doc { value, inner } => {
            let text: Vec<&str> = out.lines().take_while(|l| !l.starts_with("struct")).collect();
            let opener = if *inner { "//!" } else { "///" };
            if text.iter().all(|l| l.starts_with(opener)) && !text.is_empty() {
                o.push("oracle", "opt.docvalue", format!("opt.docvalue {} {}", enc_str(value), enc_str(&text.join("\n"))), "ok".into(), desc, true);
            } else {
                fail(o, "not-a-doc-comment");
            }
        }
        Judge::Arms => {
            let pats = |s: &str| -> Vec<Vec<String>> {
                s.lines().filter(|l| l.contains("=>")).map(|l| lex(l.split("=>").next().unwrap_or("").split(" if ").next().unwrap_or(""), false)).collect()
            };
            let (i, t) = (pats(src), pats(out));
            if i.len() == t.len() && !i.is_empty() {
                for (a, bb) in i.iter().zip(t.iter()) {
                    o.push("oracle", "opt.alts", format!("opt.alts {} {}", enc_strs(a), enc_strs(bb)), "ok".into(), desc.clone(), a != bb);
                }
            } else {
                fail(o, "unreadable");
            }
        }
        Judge::Semis { kinds, ts } => {
            let lines: Vec<&str> = out.lines().filter(|l| l.starts_with("    ") && !l.trim().is_empty()).collect();
            if lines.len() != kinds.len() {
                o.count("e2e:semis:not-one-line-each");
                return;
            }
            for (i, (k, l)) in kinds.iter().zip(lines.iter()).enumerate() {
                if k.starts_with('e') || k.starts_with('s') {
                    let real = l.trim_end().ends_with(';');
                    o.push("corr", "opt.outsemi", format!("opt.outsemi {} 0 {} {}", b(*ts), b(i + 1 == kinds.len()), k), b(real).to_string(), format!("{} stmt {}", desc, i), real != k.starts_with('s'));
                }
            }
        }
        Judge::Float { before, .. } => {
            let Some(printed) = printed_float else { return };
            match out.lines().find(|l| l.starts_with(before.as_str())) {
                Some(line) => {
                    let rest = &line[before.len()..];
                    // a receiver that ends in a dot is parenthesised
                    let rest = rest.strip_prefix('(').filter(|r| r.starts_with(printed.as_str()) && r[printed.len()..].starts_with(')')).unwrap_or(rest);
                    if !rest.starts_with(printed.as_str()) {
                        fail(o, "literal-not-as-modelled");
                        return;
                    }
                    let following = &rest[printed.len()..];
                    o.push("oracle", "lit.relex", format!("lit.relex {} {}", enc_str(printed), enc_str(following)), "ok".into(), desc, changed);
                }
                None => fail(o, "unreadable"),
            }
        }
    }
}

pub fn cases(o: &mut Outcome, rng: &mut Rng, thorough: bool) {
    let all = build(rng, thorough);
    let jobs: Vec<Job> = all.iter().map(|c| c.job.clone()).collect();
    let res = pool::run_jobs(&jobs, jobs_n(), Duration::from_secs(20));
    // the literal each float case is expected to print
    let float_reqs: Vec<(usize, String)> = all
        .iter()
        .enumerate()
        .filter_map(|(i, c)| match &c.judge {
            Judge::Float { fz, sym, suf, .. } => Some((i, format!("lit.float {} {} {}", fz, enc_str(sym), enc_str(suf)))),
            _ => None,
        })
        .collect();
    let float_ans = run_model(&float_reqs.iter().map(|x| x.1.clone()).collect::<Vec<_>>(), jobs_n());
    let mut printed: std::collections::HashMap<usize, String> = std::collections::HashMap::new();
    for ((i, _), a) in float_reqs.iter().zip(float_ans.iter()) {
        if let Some(s) = dec_str(a) {
            printed.insert(*i, s);
        }
    }
    let mut second: Vec<(usize, Job)> = vec![];
    for (i, (c, r)) in all.iter().zip(res.iter()).enumerate() {
        o.count(&format!("e2e:{}:inputs", c.fam));
        match &r.status {
            Status::Ok => {}
            Status::Panic(m) => {
                o.direct_failures.push(json!({"sig": format!("e2e-{}-panic", c.fam), "src": c.job.src, "cfg": format!("{:?}", c.job.cfg), "panic": m}));
                continue;
            }
            _ => {
                o.count(&format!("e2e:{}:inconclusive", c.fam));
                continue;
            }
        }
        if r.flags[0] || r.flags[1] || r.flags[2] || r.flags[6] {
            // inputs whose first pass reports an error are outside the property
            o.count(&format!("e2e:{}:first-pass-reports", c.fam));
            continue;
        }
        judge(o, c, r, printed.get(&i));
        second.push((i, Job { src: r.out.clone(), cfg: c.job.cfg.clone(), file_lines: None }));
    }
    // every output formats again without a parse error
    let jobs2: Vec<Job> = second.iter().map(|x| x.1.clone()).collect();
    let res2 = pool::run_jobs(&jobs2, jobs_n(), Duration::from_secs(20));
    for ((i, j), r) in second.iter().zip(res2.iter()) {
        o.direct_evals += 1;
        let c = &all[*i];
        if r.status == Status::Ok && r.flags[1] {
            o.direct_failures.push(json!({"sig": format!("e2e-{}-output-does-not-parse", c.fam), "src": c.job.src, "cfg": format!("{:?}", c.job.cfg), "out": j.src}));
        } else if r.status == Status::Ok && r.out != j.src {
            o.count(&format!("e2e:{}:second-pass-differs", c.fam));
        }
    }
}

fn jobs_n() -> usize {
    jobs().min(16)
}

/// Enumerated, seed-independent probes.  `OPTIN-FIX-*`: the reproductions of the defects repaired on the way (`fails`
/// must stay false); the others: inputs known dirty on this tree (`fails` expected, known findings).
pub fn probes(o: &mut Outcome) {
    let fmt = |src: &str, cfg: &[(&str, &str)]| pool::format_here(&job(src.to_string(), cfg));
    let parses_again = |r: &FmtOut, cfg: &[(&str, &str)]| -> bool {
        let mut quiet: Vec<(&str, &str)> = cfg.to_vec();
        quiet.push(("show_parse_errors", "false"));
        let again = pool::format_here(&job(r.out.clone(), &quiet));
        again.status == Status::Ok && !again.flags[1]
    };
    let toks_without = |s: &str, drop: &[&str]| -> Vec<String> { lex(s, true).into_iter().filter(|t| !drop.contains(&t.as_str())).collect() };
    // repaired: the token lists of input and output agree up to the tokens the rewrite may change
    let fixed: [(&str, &str, &[(&str, &str)], &[&str], &str); 9] = [
        ("OPTIN-FIX-PAREN-ATTR", "fn f() {\n    let x = (#[attr] (a + b));\n}\n", &[("remove_nested_parens", "true")], &["(", ")"], "remove_nested_parens dropped the attribute of an inner parenthesised expression"),
        ("OPTIN-FIX-WILDCARD-DOTDOT", "fn f() {\n    match x {\n        (a, .., _, _) => 1,\n    }\n}\n", &[("condense_wildcard_suffixes", "true")], &[], "condense_wildcard_suffixes wrote a second `..` into a tuple pattern"),
        ("OPTIN-FIX-TRY-ARGS", "fn f() {\n    let a = try!(x, y);\n}\n", &[("use_try_shorthand", "true"), ("edition", "2015")], &[], "use_try_shorthand dropped the second argument of try!"),
        ("OPTIN-FIX-TRY-JUXTAPOSED", "fn f() {\n    let a = try!(x y);\n}\n", &[("use_try_shorthand", "true"), ("edition", "2015")], &[], "use_try_shorthand dropped what followed the first expression of try!"),
        ("OPTIN-FIX-TRY-PREC", "fn f() {\n    let a = (b + c)?;\n}\n", &[("use_try_shorthand", "true"), ("edition", "2015")], &[], "(control) a parenthesised operand of `?` keeps its parentheses"),
        ("OPTIN-FIX-DOC-COMMENT-BEHIND", "#[doc = \" x\"] /* c */\nstruct S;\n", &[("normalize_doc_attributes", "true")], &[], "normalize_doc_attributes pulled a comment into the documentation text"),
        ("OPTIN-FIX-FLOAT-BORROW-RANGE", "fn f() {\n    let a = &1.0 ..2.0;\n}\n", &[("float_literal_trailing_zero", "Always")], &[], "(control) a borrowed float in front of a range"),
        ("OPTIN-FIX-VIS-IN", "pub(crate) fn f() {}\n", &[], &[], "(control) pub(crate) stays"),
        ("OPTIN-FIX-EXTERN", "extern \"Rust\" fn f() {}\n", &[("force_explicit_abi", "false")], &[], "(control) a non-C ABI stays"),
    ];
    for (id, src, cfg, drop, what) in fixed {
        let r = fmt(src, cfg);
        let same = toks_without(src, drop) == toks_without(&r.out, drop);
        let bad = r.status != Status::Ok || !same || !parses_again(&r, cfg);
        o.probes.push(json!({"id": id, "fails": bad, "what": what, "detail": {"src": src, "out": r.out}}));
    }
    // repaired: conversions whose operand must come out whole
    for (id, src, want) in [
        ("OPTIN-FIX-TRY-SUM", "fn f() {\n    let a = try!(b + c);\n}\n", "(b + c)?"),
        ("OPTIN-FIX-TRY-NEG", "fn f() {\n    let a = try!(-e);\n}\n", "(-e)?"),
        ("OPTIN-FIX-TRY-CAST", "fn f() {\n    let a = try!(g as u8);\n}\n", "(g as u8)?"),
        ("OPTIN-FIX-TRY-ATTR", "fn f() {\n    let a = try!(&n);\n}\n", "(&n)?"),
    ] {
        let cfg: &[(&str, &str)] = &[("use_try_shorthand", "true"), ("edition", "2015")];
        let r = fmt(src, cfg);
        let bad = r.status != Status::Ok || !r.out.contains(want) || !parses_again(&r, cfg);
        o.probes.push(json!({"id": id, "fails": bad, "what": "use_try_shorthand let `?` bind to a part of the operand of try!", "detail": {"src": src, "out": r.out, "want": want}}));
    }
    // repaired: a float literal that ends in a dot in front of a dot
    for (id, src, want) in [
        ("OPTIN-FIX-FLOAT-RANGE-EXPR", "fn f() {\n    let a = &1.0..2.0;\n}\n", "&1. ..2."),
        ("OPTIN-FIX-FLOAT-RANGE-PAT", "fn f() {\n    match x {\n        1.0..=2.0 => 1,\n        _ => 2,\n    }\n}\n", "1. ..=2."),
        ("OPTIN-FIX-FLOAT-FIELD", "fn f() {\n    let a = 1.0.0;\n}\n", "(1.).0"),
    ] {
        let cfg: &[(&str, &str)] = &[("float_literal_trailing_zero", "Never")];
        let r = fmt(src, cfg);
        let bad = r.status != Status::Ok || !r.out.contains(want) || !parses_again(&r, cfg);
        o.probes.push(json!({"id": id, "fails": bad, "what": "float_literal_trailing_zero=Never glued a dot onto a literal that ends in one", "detail": {"src": src, "out": r.out, "want": want}}));
    }
    // known dirty ------------------------------------------------------------------------------------------------
    {
        // OPTIN-ABI-ESCAPE: format_extern prints symbol_unescaped between quotes without escaping it
        let src = "extern \"a\\\"b\" fn f() {}\n";
        let cfg: &[(&str, &str)] = &[("force_explicit_abi", "true")];
        let r = fmt(src, cfg);
        let bad = r.status == Status::Ok && (lex(src, false) != lex(&r.out, false) || !parses_again(&r, cfg));
        o.probes.push(json!({"id": "OPTIN-ABI-ESCAPE", "fails": bad, "what": "format_extern prints the unescaped ABI text between quotes: `extern \"a\\\"b\" fn f() {}` comes out as `extern \"a\"b\" fn f() {}`, which does not lex back (no ABI of the language needs an escape; the parser accepts any string literal)", "detail": {"src": src, "out": r.out}}));
    }
    {
        // OPTIN-VIS-ROOT: the leading `::` of a restricted visibility's path is not printed
        let src = "pub(in ::a) fn f() {}\n";
        let cfg: &[(&str, &str)] = &[("edition", "2015")];
        let r = fmt(src, cfg);
        let bad = r.status == Status::Ok && toks_without(src, &["in"]) != toks_without(&r.out, &["in"]);
        o.probes.push(json!({"id": "OPTIN-VIS-ROOT", "fails": bad, "what": "format_visibility skips the path root: `pub(in ::a)` is printed `pub(in a)` (the same module in the 2015 edition, where alone it is accepted; still a `::` token that the closed list does not name)", "detail": {"src": src, "out": r.out}}));
    }
    {
        // OPTIN-DOC-TRAILING-LF / OPTIN-DOC-CR: str::lines() on the value of a doc attribute
        let cfg: &[(&str, &str)] = &[("normalize_doc_attributes", "true")];
        let src = "#[doc = \"a\\n\"]\nstruct S;\n";
        let r = fmt(src, cfg);
        let text: Vec<&str> = r.out.lines().take_while(|l| !l.starts_with("struct")).collect();
        let a = run_model(&[format!("opt.docvalue {} {}", enc_str("a\n"), enc_str(&text.join("\n")))], 1).pop().unwrap_or_default();
        o.probes.push(json!({"id": "OPTIN-DOC-TRAILING-LF", "fails": r.status == Status::Ok && a != "ok", "what": "normalize_doc_attributes: `#[doc = \"a\\n\"]` becomes `///a` — the last line feed of the documentation text is lost (`str::lines`); likewise `\\r\\n` inside the value becomes `\\n`", "detail": {"src": src, "out": r.out, "oracle": a}}));
        let src = "#[doc = \"a\\rb\"]\nstruct S;\n";
        let r = fmt(src, cfg);
        let bad = r.status == Status::Ok && r.out.contains('\r') && !parses_again(&r, cfg);
        o.probes.push(json!({"id": "OPTIN-DOC-CR", "fails": bad, "what": "normalize_doc_attributes: `#[doc = \"a\\rb\"]` becomes a `///` comment with a bare carriage return in it, which the lexer rejects", "detail": {"src": src, "out": r.out}}));
    }
    {
        // OPTIN-TRY-STRUCT-COND: the macro's delimiters made a struct literal legal in a condition
        let src = "fn f() {\n    if try!(S { a: 1 }) {}\n}\n";
        let cfg: &[(&str, &str)] = &[("use_try_shorthand", "true"), ("edition", "2015")];
        let r = fmt(src, cfg);
        let bad = r.status == Status::Ok && r.out.contains("S { a: 1 }?") && !parses_again(&r, cfg);
        o.probes.push(json!({"id": "OPTIN-TRY-STRUCT-COND", "fails": bad, "what": "use_try_shorthand: `if try!(S { a: 1 }) {}` becomes `if S { a: 1 }? {}`, where the struct literal is not allowed (the parentheses of the macro call made it legal); the operand's position is not known to convert_try_mac", "detail": {"src": src, "out": r.out}}));
    }
    {
        // OPTIN-FIELD-MACRO-TT: `$x: $x` in a macro body with a tt fragment
        let src = "macro_rules! m {\n    ($x:tt) => {\n        S { $x: $x }\n    };\n}\n";
        let cfg: &[(&str, &str)] = &[("use_field_init_shorthand", "true")];
        let r = fmt(src, cfg);
        let bad = r.status == Status::Ok && r.out.contains("S { $x }");
        o.probes.push(json!({"id": "OPTIN-FIELD-MACRO-TT", "fails": bad, "what": "use_field_init_shorthand inside a macro_rules body: `S { $x: $x }` becomes `S { $x }`, which no longer accepts a tuple index for a `tt` fragment (`m!(0)` expanded to `S { 0: 0 }`, now `S { 0 }`); the body is formatted with `$x` read as an identifier", "detail": {"src": src, "out": r.out}}));
    }
}
