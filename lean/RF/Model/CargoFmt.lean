/-!
Model of `src/cargo-fmt/main.rs` (C18): target selection, the `BTreeSet<Target>` keyed by path,
grouping by edition, the argument vectors handed to rustfmt and the folding of their statuses.

Outside the model (parameters, see `Env`): `cargo metadata --no-deps` (one answer per manifest
path, `none` = "search upwards from the working directory"), `fs::canonicalize`, `Path::exists`,
the working directory, and the status every spawned rustfmt ends with.

Paths.  `PathBuf`'s `Eq`/`Ord`/`Hash` are defined on `Path::components()`, not on the bytes
(`/a/b/ == /a/b`, and `/a/b < /a-b` although `-` < `/` as bytes).  A model `Path` therefore *is*
the component list; `parsePath` is `components()` for Unix paths and `Path.render` prints the
normal form.  The only place where this loses information: when `canonicalize` fails on a
non-normalised `src_path`, Rust hands the raw spelling to rustfmt and the model the normal form.
Strings are `List Char` (code-point order = UTF-8 byte order); non-UTF-8 paths are not modelled.
Import-free (the order classes used are in `Init`).
-/
namespace RF.CargoFmt

abbrev Str := List Char

/-! ## Literal strings of `main.rs` (named so that proofs need not unfold them) -/
def sCheck : Str := "--check".toList
def sEmit : Str := "--emit".toList
def sJson : Str := "json".toList
def sShort : Str := "short".toList
def sHuman : Str := "human".toList
def sL : Str := "-l".toList
def sFilesWithDiff : Str := "--files-with-diff".toList
def sEdition : Str := "--edition".toList
def sVersion : Str := "--version".toList

/-! ## Paths -/

/-- `std::path::Component` on Unix (no `Prefix`); the derived `Ord` is the declaration order,
`Normal` compared by bytes. -/
inductive Comp where
  | root
  | cur
  | parent
  | normal (s : Str)
  deriving DecidableEq, Repr

/-- Injective order key: constructor rank, then the code points. -/
def Comp.key : Comp → List Nat
  | .root => [0]
  | .cur => [1]
  | .parent => [2]
  | .normal s => 3 :: s.map Char.toNat

/-- A path is what `Path::components()` yields. -/
abbrev Path := List Comp

/-- `impl Ord for Path` (`compare_components` = lexicographic `Iterator::cmp`). -/
def cmpPath (a b : Path) : Ordering := compare (a.map Comp.key) (b.map Comp.key)

/-- Split at `/` (keeps empty pieces). -/
def splitSlash : Str → List Str
  | [] => [[]]
  | c :: r =>
    if c = '/' then [] :: splitSlash r
    else match splitSlash r with
      | [] => [[c]]
      | p :: ps => (c :: p) :: ps

/-- Pieces after the first one: empty pieces and `.` vanish, `..` is `ParentDir`. -/
def compsOf : List Str → Path
  | [] => []
  | p :: ps =>
    if p = [] ∨ p = ['.'] then compsOf ps
    else if p = ['.', '.'] then .parent :: compsOf ps
    else .normal p :: compsOf ps

/-- `Path::components()` on Unix: a leading `/` is `RootDir`; a leading `.` of a relative path is
`CurDir`; repeated and trailing separators and inner `.` are dropped. -/
def parsePath (s : Str) : Path :=
  match s with
  | '/' :: _ => .root :: compsOf (splitSlash s)
  | _ =>
    match splitSlash s with
    | ['.'] :: ps => .cur :: compsOf ps
    | ps => compsOf ps

def Comp.render : Comp → Str
  | .root => []
  | .cur => ['.']
  | .parent => ['.', '.']
  | .normal s => s

def joinSlash : List Str → Str
  | [] => []
  | [s] => s
  | s :: r => s ++ '/' :: joinSlash r

/-- Normal-form spelling (`/a/b`, `./a`, `a/../b`, `/`). -/
def Path.render (p : Path) : Str :=
  match p with
  | [.root] => ['/']
  | _ => joinSlash (p.map Comp.render)

def cargoToml : Str := "Cargo.toml".toList

/-- `path.join("Cargo.toml")`. -/
def Path.joinCargoToml (p : Path) : Path := p ++ [.normal cargoToml]

/-! ## `cargo_metadata` data, as far as `main.rs` reads it -/

/-- `cargo_metadata::Edition` (0.18): six variants, `Ord` derived in this order. -/
inductive Edition where
  | e2015 | e2018 | e2021 | e2024 | e2027 | e2030
  deriving DecidableEq, Repr

def Edition.year : Edition → Nat
  | .e2015 => 2015 | .e2018 => 2018 | .e2021 => 2021
  | .e2024 => 2024 | .e2027 => 2027 | .e2030 => 2030

/-- `Edition::as_str`. -/
def Edition.str : Edition → Str
  | .e2015 => "2015".toList | .e2018 => "2018".toList | .e2021 => "2021".toList
  | .e2024 => "2024".toList | .e2027 => "2027".toList | .e2030 => "2030".toList

/-- `cargo_metadata::Target`: `src_path`, `kind` (a vector; `main.rs` reads `kind[0]`), `edition`. -/
structure MTarget where
  srcPath : Str
  kind : List Str
  edition : Edition
  deriving DecidableEq, Repr

/-- `cargo_metadata::Dependency`: `name` (the *package* name, not the rename) and `path`. -/
structure Dep where
  name : Str
  path : Option Str
  deriving DecidableEq, Repr

structure Package where
  name : Str
  manifestPath : Str
  targets : List MTarget
  deps : List Dep
  deriving DecidableEq, Repr

/-- `cargo_metadata::Metadata`.  `workspace_members` is never read by `main.rs` (with `--no-deps`
`packages` *is* the member list), so it is not a field. -/
structure Metadata where
  workspaceRoot : Str
  packages : List Package
  deriving DecidableEq, Repr

/-- What makes `format_crate` fail. `kindPanic` is the index panic of `target.kind[0]`. -/
inductive Err where
  | metadata (msg : Str)      -- `get_cargo_metadata` failed twice (offline, then online)
  | io                        -- a `canonicalize()?` failed
  | noTargets                 -- "Failed to find targets"
  | notMember (name : Str)    -- "package `…` is not a member of the workspace"
  | kindPanic                 -- `target.kind[0]` on an empty vector
  | spawn                     -- `Command::spawn` / `wait` failed
  deriving DecidableEq, Repr

/-- The world outside `main.rs`. -/
structure Env where
  /-- `get_cargo_metadata(manifest_path)` (main.rs 530-548): the `--offline` attempt and the retry
  are one oracle; the error text is kept. -/
  metadata : Option Path → Except Str Metadata
  /-- `fs::canonicalize`. -/
  canon : Path → Option Path
  /-- `Path::exists`. -/
  pathExists : Path → Bool
  /-- `env::current_dir()` (assumed to succeed). -/
  cwd : Path

/-! ## `Target` and the `BTreeSet<Target>` -/

/-- main.rs 265-274. -/
structure Target where
  path : Path
  kind : Str
  edition : Edition
  deriving DecidableEq, Repr

/-- The path `Target::from_target` stores: `fs::canonicalize(&path).unwrap_or(path)`. -/
def srcCanon (env : Env) (t : MTarget) : Path :=
  (env.canon (parsePath t.srcPath)).getD (parsePath t.srcPath)

/-- `Target::from_target` (main.rs 277-286). -/
def Target.fromTarget (env : Env) (t : MTarget) : Except Err Target :=
  match t.kind with
  | [] => .error .kindPanic
  | k :: _ => .ok { path := srcCanon env t, kind := k, edition := t.edition }

/-- `impl Ord for Target` (main.rs 289-313): the path alone. -/
def Target.cmp (a b : Target) : Ordering := cmpPath a.path b.path

/-- `BTreeSet::insert` on the ascending list of elements: an element that compares equal to an
existing one is **not** stored (the old one stays). -/
def sinsert {α} (cmp : α → α → Ordering) (x : α) : List α → List α
  | [] => [x]
  | y :: ys =>
    match cmp x y with
    | .lt => x :: y :: ys
    | .eq => y :: ys
    | .gt => y :: sinsert cmp x ys

/-- `BTreeSet::contains`. -/
def scontains {α} (cmp : α → α → Ordering) (x : α) (s : List α) : Bool :=
  s.any (fun y => cmp x y == .eq)

/-- `BTreeSet::remove` (the set after removal; whether something was removed is `scontains`). -/
def sremove {α} (cmp : α → α → Ordering) (x : α) (s : List α) : List α :=
  s.filter (fun y => cmp x y != .eq)

/-- `BTreeSet<Target>`: ascending by path, no two elements with equal paths. -/
abbrev TSet := List Target

def TSet.insert (t : Target) (s : TSet) : TSet := sinsert Target.cmp t s

/-- `for target in … { targets.insert(Target::from_target(&target)) }` (main.rs 397-399, 450-452,
`add_targets` 467-471). -/
def insertTargets (env : Env) : List MTarget → TSet → Except Err TSet
  | [], s => .ok s
  | t :: ts, s =>
    match Target.fromTarget env t with
    | .error e => .error e
    | .ok tg => insertTargets env ts (TSet.insert tg s)

/-! ## The three strategies -/

/-- main.rs 315-323. -/
inductive Strategy where
  | all
  | some (hitlist : List Str)
  | root
  deriving DecidableEq, Repr

/-- The `match metadata.packages.len()` of main.rs 381-395: a single package is taken as is;
otherwise the packages of the workspace root, or the one whose canonical manifest is the current
one (`unwrap_or_default()` = the empty path when `canonicalize` fails). -/
def rootPackageTargets (env : Env) (md : Metadata) (inWorkspaceRoot : Bool)
    (currentDirManifest : Path) : List MTarget :=
  match md.packages with
  | [p] => p.targets
  | ps =>
    (ps.filter fun p =>
      inWorkspaceRoot ||
        ((env.canon (parsePath p.manifestPath)).getD [] == currentDirManifest)).flatMap (·.targets)

/-- `get_targets_root_only` (main.rs 362-402). -/
def getTargetsRootOnly (env : Env) (manifestPath : Option Path) (targets : TSet) : Except Err TSet :=
  match env.metadata manifestPath with
  | .error m => .error (.metadata m)
  | .ok md =>
    match env.canon (parsePath md.workspaceRoot) with
    | none => .error .io
    | some wsRoot =>
      match manifestPath with
      | some tm =>
        -- `workspace_root_path == target_manifest`: the *uncanonicalised* manifest path
        match env.canon tm with
        | none => .error .io
        | some c => insertTargets env (rootPackageTargets env md (wsRoot == tm) c) targets
      | none =>
        match env.canon env.cwd with
        | none => .error .io
        | some cd =>
          insertTargets env (rootPackageTargets env md (wsRoot == cd) cd.joinCargoToml) targets

/-- State threaded through `get_targets_recursive`: `targets` and `visited`.
`visited : BTreeSet<String>` is only asked `contains` and only grows, so a plain list serves. -/
structure RecState where
  targets : TSet
  visited : List Str
  deriving DecidableEq, Repr

/-- The inner `if` of the dependency loop (main.rs 424-430): the manifest of a path dependency is
followed when it exists and is not the manifest of a package of the *same* metadata answer. -/
def followable (env : Env) (md : Metadata) (m : Path) : Bool :=
  env.pathExists m && !md.packages.any (fun p => parsePath p.manifestPath == m)

/-- `PathBuf::from(dependency.path).join("Cargo.toml")`. -/
def depManifest (p : Str) : Path := (parsePath p).joinCargoToml

/-- `for dependency in &package.dependencies { … }` (main.rs 419-434).  `call` is the recursive
call; `none` = out of fuel. -/
def depsLoop (env : Env) (call : Path → RecState → Option (Except Err RecState)) (md : Metadata) :
    List Dep → RecState → Option (Except Err RecState)
  | [], st => some (.ok st)
  | d :: ds, st =>
    match d.path with
    | none => depsLoop env call md ds st
    | some p =>
      if st.visited.contains d.name then depsLoop env call md ds st
      else if followable env md (depManifest p) then
        match call (depManifest p) { st with visited := d.name :: st.visited } with
        | some (.ok st') => depsLoop env call md ds st'
        | r => r
      else depsLoop env call md ds st

/-- `for package in &metadata.packages { add_targets(…); for dependency … }` (main.rs 410-435). -/
def pkgsLoop (env : Env) (call : Path → RecState → Option (Except Err RecState)) (md : Metadata) :
    List Package → RecState → Option (Except Err RecState)
  | [], st => some (.ok st)
  | p :: ps, st =>
    match insertTargets env p.targets st.targets with
    | .error e => some (.error e)
    | .ok ts =>
      match depsLoop env call md p.deps { st with targets := ts } with
      | some (.ok st') => pkgsLoop env call md ps st'
      | r => r

/-- `get_targets_recursive` (main.rs 404-438) with fuel for the recursion depth (`none` = fuel
exhausted; `RF.Lemmas.CargoFmt.recursive_fuel_suffices` bounds the need by the number of
dependency names). -/
def getTargetsRecursive (env : Env) : Nat → Option Path → RecState → Option (Except Err RecState)
  | 0, _, _ => none
  | fuel + 1, manifestPath, st =>
    match env.metadata manifestPath with
    | .error m => some (.error (.metadata m))
    | .ok md =>
      pkgsLoop env (fun m st => getTargetsRecursive env fuel (some m) st) md md.packages st

/-- `String`'s `Ord` (bytes = code points). -/
def cmpStr (a b : Str) : Ordering := compare a b

/-- `BTreeSet::from_iter(hitlist)`. -/
def hitSet (hitlist : List Str) : List Str := hitlist.foldl (fun s n => sinsert cmpStr n s) []

/-- `for package in metadata.packages { if workspace_hitlist.remove(&package.name) { … } }`
(main.rs 448-454). -/
def hitlistLoop (env : Env) : List Package → List Str → TSet → Except Err (List Str × TSet)
  | [], hit, s => .ok (hit, s)
  | p :: ps, hit, s =>
    if scontains cmpStr p.name hit then
      match insertTargets env p.targets s with
      | .error e => .error e
      | .ok s' => hitlistLoop env ps (sremove cmpStr p.name hit) s'
    else hitlistLoop env ps hit s

/-- `get_targets_with_hitlist` (main.rs 440-465): the error names the least remaining name. -/
def getTargetsWithHitlist (env : Env) (manifestPath : Option Path) (hitlist : List Str)
    (targets : TSet) : Except Err TSet :=
  match env.metadata manifestPath with
  | .error m => .error (.metadata m)
  | .ok md =>
    match hitlistLoop env md.packages (hitSet hitlist) targets with
    | .error e => .error e
    | .ok ([], s) => .ok s
    | .ok (n :: _, _) => .error (.notMember n)

/-- `get_targets` (main.rs 336-360); `none` = the recursion ran out of fuel. -/
def getTargets (env : Env) (fuel : Nat) (strategy : Strategy) (manifestPath : Option Path) :
    Option (Except Err TSet) :=
  let r : Option (Except Err TSet) :=
    match strategy with
    | .root => some (getTargetsRootOnly env manifestPath [])
    | .all =>
      match getTargetsRecursive env fuel manifestPath ⟨[], []⟩ with
      | none => none
      | some (.error e) => some (.error e)
      | some (.ok st) => some (.ok st.targets)
    | .some hitlist => some (getTargetsWithHitlist env manifestPath hitlist [])
  match r with
  | some (.ok []) => some (.error .noTargets)
  | r => r

/-! ## `run_rustfmt` -/

/-- `h.entry(&t.edition).or_insert_with(Vec::new).push(&t.path)` on the ascending entry list of the
`BTreeMap<&Edition, Vec<&PathBuf>>`. -/
def mapPush (e : Edition) (p : Path) : List (Edition × List Path) → List (Edition × List Path)
  | [] => [(e, [p])]
  | (e', ps) :: r =>
    if e.year < e'.year then (e, [p]) :: (e', ps) :: r
    else if e = e' then (e', ps ++ [p]) :: r
    else (e', ps) :: mapPush e p r

/-- The `fold` of main.rs 478-488. -/
def byEdition (ts : TSet) : List (Edition × List Path) :=
  ts.foldl (fun h t => mapPush t.edition t.path h) []

/-- One `rustfmt` process of the loop main.rs 491-521. -/
structure Invocation where
  edition : Edition
  files : List Path
  args : List Str
  deriving DecidableEq, Repr

/-- `.args(files).args(["--edition", edition.as_str()]).args(fmt_args)`. -/
def Invocation.argv (i : Invocation) : List Str :=
  i.files.map Path.render ++ [sEdition, i.edition.str] ++ i.args

/-- The invocations `run_rustfmt` makes if none fails to spawn, in spawning order. -/
def planInvocations (ts : TSet) (fmtArgs : List Str) : List Invocation :=
  (byEdition ts).map fun (e, files) => { edition := e, files := files, args := fmtArgs }

/-- How one spawned process ended: `ExitStatus` with a code, killed by a signal
(`code() == None`), or `spawn()`/`wait()` returned an error. -/
inductive Status where
  | code (n : Nat)
  | signal
  | spawnErr
  deriving DecidableEq, Repr

/-- `ExitStatus::success`. -/
def Status.success : Status → Bool
  | .code 0 => true
  | _ => false

/-- `ExitStatus::code`. -/
def Status.code? : Status → Option Nat
  | .code n => some n
  | _ => none

/-- The final expression of `run_rustfmt` (main.rs 523-527):
`status.iter().filter_map(|s| if s.success() { None } else { s.code() }).next().unwrap_or(SUCCESS)`. -/
def foldStatus : List Status → Nat
  | [] => 0
  | s :: r =>
    match (if s.success then none else s.code?) with
    | some c => c
    | none => foldStatus r

/-- The spawning loop: argument vectors tried, each with its status; a spawn error ends the loop
with `Err` (`?`), later invocations are never started. -/
def spawnLoop (run : List Str → Status) :
    List (List Str) → List (List Str × Status) × Bool
  | [] => ([], true)
  | a :: r =>
    match run a with
    | .spawnErr => ([(a, .spawnErr)], false)
    | s => let (tr, ok) := spawnLoop run r; ((a, s) :: tr, ok)

/-- `run_rustfmt` (main.rs 473-528): the trace and `Result<i32, io::Error>`. -/
def runRustfmt (run : List Str → Status) (ts : TSet) (fmtArgs : List Str) :
    List (List Str × Status) × Except Err Nat :=
  let (tr, ok) := spawnLoop run ((planInvocations ts fmtArgs).map Invocation.argv)
  (tr, if ok then .ok (foldStatus (tr.map (·.2))) else .error .spawn)

/-! ## Command line -/

/-- `convert_message_format_to_rustfmt_args` errors (main.rs 187-205). -/
inductive MsgErr where
  | emitWithJson
  | checkWithJson
  | invalid
  deriving DecidableEq, Repr

/-- `convert_message_format_to_rustfmt_args` (main.rs 162-207). -/
def convertMessageFormat (fmt : Str) (args : List Str) : Except MsgErr (List Str) :=
  let containsEmit := args.any (fun a => sEmit.isPrefixOf a)
  let containsCheck := args.any (fun a => a == sCheck)
  let containsList := args.any (fun a => a == sL || a == sFilesWithDiff)
  if fmt = sShort then
    .ok (if containsList then args else args ++ [sL])
  else if fmt = sJson then
    if containsEmit then .error .emitWithJson
    else if containsCheck then .error .checkWithJson
    else .ok (args ++ [sEmit, sJson])
  else if fmt = sHuman then .ok args
  else .error .invalid

/-- `Opts` (main.rs 32-74). -/
structure Opts where
  quiet : Bool := false
  verbose : Bool := false
  version : Bool := false
  packages : List Str := []
  manifestPath : Option Str := none
  messageFormat : Option Str := none
  rustfmtOptions : List Str := []
  formatAll : Bool := false
  check : Bool := false
  deriving DecidableEq, Repr

/-- `CargoFmtStrategy::from_opts` (main.rs 325-333). -/
def Strategy.fromOpts (o : Opts) : Strategy :=
  match o.formatAll, o.packages.isEmpty with
  | false, true => .root
  | true, _ => .all
  | false, false => .some o.packages

/-- The test of main.rs 112-116: an option that makes `cargo fmt` just forward to rustfmt. -/
def isInfoFlag (s : Str) : Bool :=
  ["--print-config".toList, "-h".toList, "--help".toList, "-V".toList, sVersion].contains s
    || "--help=".toList.isPrefixOf s || "--print-config=".toList.isPrefixOf s

/-- main.rs 121-134: the arguments after `--`, `--check` pushed unless present, then the
message-format translation. -/
def rustfmtArgs (o : Opts) : Except MsgErr (List Str) :=
  let args := o.rustfmtOptions
  let args := if o.check && !args.any (fun a => a == sCheck) then args ++ [sCheck] else args
  match o.messageFormat with
  | none => .ok args
  | some f => convertMessageFormat f args

/-- `get_rustfmt_info` (main.rs 233-251) followed by `handle_command_status`. -/
def rustfmtInfo (run : List Str → Status) (args : List Str) : List (List Str × Status) × Nat :=
  let s := run args
  ([(args, s)],
    match s with
    | .spawnErr => 1
    | s => if s.success then 0 else s.code?.getD 0)

/-- What `cargo fmt` did: the process exit code and the rustfmt processes it tried to start. -/
structure Outcome where
  exit : Nat
  trace : List (List Str × Status)
  deriving DecidableEq, Repr

/-- `handle_command_status` (main.rs 223-231) after `format_crate`; an `Err` prints usage and gives
`FAILURE`; the `kind[0]` panic unwinds out of `main` (status 101). -/
def errExit : Err → Nat
  | .kindPanic => 101
  | _ => 1

/-- `format_crate` (main.rs 253-263) + `handle_command_status`; `none` = out of fuel. -/
def formatCrate (env : Env) (fuel : Nat) (run : List Str → Status) (strategy : Strategy)
    (fmtArgs : List Str) (manifestPath : Option Path) : Option Outcome :=
  match getTargets env fuel strategy manifestPath with
  | none => none
  | some (.error e) => some ⟨errExit e, []⟩
  | some (.ok ts) =>
    match runRustfmt run ts fmtArgs with
    | (tr, .ok c) => some ⟨c, tr⟩
    | (tr, .error e) => some ⟨errExit e, tr⟩

/-- `execute` (main.rs 85-151) after clap has produced `Opts`. -/
def execute (env : Env) (fuel : Nat) (run : List Str → Status) (o : Opts) : Option Outcome :=
  if o.verbose && o.quiet then some ⟨1, []⟩
  else if o.version then
    let (tr, c) := rustfmtInfo run [sVersion]; some ⟨c, tr⟩
  else if o.rustfmtOptions.any isInfoFlag then
    let (tr, c) := rustfmtInfo run o.rustfmtOptions; some ⟨c, tr⟩
  else
    match rustfmtArgs o with
    | .error _ => some ⟨1, []⟩
    | .ok args =>
      match o.manifestPath with
      | some mp =>
        if !(cargoToml.isSuffixOf mp) then some ⟨1, []⟩
        else formatCrate env fuel run (Strategy.fromOpts o) args (some (parsePath mp))
      | none => formatCrate env fuel run (Strategy.fromOpts o) args none

/-! ## Finite worlds (what the driver and the concrete examples feed the model with) -/

/-- A finite description of `Env`: one metadata answer per manifest (`none` = the answer for
"no `--manifest-path`, search from the working directory"), a canonicalisation table (a listed
path maps to its entry, `none` = `canonicalize` fails; an unlisted path is its own canonical
form), and the working directory.  A manifest exists iff it has an answer. -/
structure World where
  answers : List (Option Path × Except Str Metadata)
  links : List (Path × Option Path)
  cwd : Path

def World.env (w : World) : Env where
  metadata := fun mp =>
    match w.answers.find? (fun a => a.1 == mp) with
    | some (_, r) => r
    | none => .error "no manifest".toList
  canon := fun p =>
    match w.links.find? (fun a => a.1 == p) with
    | some (_, r) => r
    | none => some p
  pathExists := fun p => w.answers.any (fun a => a.1 == some p)
  cwd := w.cwd

/-- Names of all path dependencies mentioned anywhere in the world. -/
def World.depNames (w : World) : List Str :=
  w.answers.flatMap fun a =>
    match a.2 with
    | .ok md => md.packages.flatMap fun p => (p.deps.filter (·.path.isSome)).map (·.name)
    | .error _ => []

/-- Enough fuel for `getTargetsRecursive` in this world (`world_fuel_suffices`). -/
def World.fuel (w : World) : Nat := w.depNames.length + 1

/-- All `(name, path)` pairs of path dependencies mentioned anywhere in the world. -/
def World.allDeps (w : World) : List (Str × Str) :=
  w.answers.flatMap fun a =>
    match a.2 with
    | .ok md => md.packages.flatMap fun p => p.deps.filterMap fun d => d.path.map fun q => (d.name, q)
    | .error _ => []

/-- Decidable sufficient condition for `NameFun` (C18 `all_is_transitive_closure_partial`): path
dependencies with equal names have equal manifests. -/
def World.namesFunctional (w : World) : Bool :=
  w.allDeps.all fun x => w.allDeps.all fun y => x.1 != y.1 || depManifest x.2 == depManifest y.2

end RF.CargoFmt
