import RF.Model.Proto
import RF.Model.FormatDiff
/-!
Line-protocol operations for `rustfmt-format-diff` (C19).

Encodings
  lazy      `0` = the pinned tree's greedy hunk pattern `^@@.*\+(\d+)(,(\d+))?`, `1` = the lazy repair
  skip      decimal (`-p`)
  filter    `*` (accept every file) or a list of hex strings: the literal file names accepted
            (`_` = accept none).  This stands for `Regex::new("^{filter}$").is_match`, which the
            harness evaluates with the real engine.
  text      hex of the bytes of the diff; lines are cut as `BufRead::lines` does.  Bytes that are
            not UTF-8 give `panic` (`line.unwrap()`), as does any panic of `scan_diff`.
  ranges    `_` when empty, else groups joined by `;`, each `hexfile:lo-hi,lo-hi,…`.  The groups
            follow the ORDER OF THE `Vec<Range>` (= the JSON array given to `--file-lines`):
            consecutive ranges of the same file share a group; a file that comes back later
            starts a new group; duplicates are kept.  (`scan_diff` neither sorts nor dedups the
            ranges.  The file arguments are a `HashSet` in unspecified order: compare as a set
            with the files of the groups.)

Model functions
  fd.scan <lazy> <skip> <filter> <text>          -> ranges | panic    `scan_diff`, dev profile (overflow checks)
  fd.scan_release <lazy> <skip> <filter> <text>  -> ranges | panic    `scan_diff`, release profile (wrapping)
  fd.header <skip> <hex line>                    -> hex | none        group 1 of `diff_pattern.captures(line)`
  fd.hunk <lazy> <hex line>                      -> hex:hex | hex:none | none
                                                    groups 1 and 3 of `lines_pattern.captures(line)`
  fd.lines <text>                                -> list of hex | panic   `BufReader::lines`
  fd.run <lazy> <skip> <filter|bad> <ok|fail|spawnerr> <text>
                                                 -> exit:ranges | exit:nospawn
                                                    `main`: exit status, and the rustfmt invocation if one
                                                    was made; `bad` = the filter does not compile;
                                                    2nd word = what the spawned rustfmt does
  fd.header_ref <skip> <hex line>                -> hex | none        the same through the reference backtracking
  fd.hunk_ref <lazy> <hex line>                  -> hex:hex | hex:none | none   matcher run on the pattern's syntax tree
                                                    (`headerRe`, `hunkRe`; proved equal to the two ops above)
Specification and oracles
  fd.spec <skip> <filter> <text>                 -> ranges | none | panic   the unified-diff reader (`spec`);
                                                    `none` = not a well-formed unified diff for this skip
        (also accepted with a leading <lazy> argument, which is ignored)
  fd.hyp <lazy> <skip> <text>                    -> 1 | 0 | panic   hypotheses of `scan_eq_spec_partial` (`specHyp`)
  fd.spec_header <skip> <hex line>               -> hex | none      declarative reading of a `+++ ` line
  fd.strict_hunk <hex line>                      -> b:c:d | none    strict `@@ -a[,b] +c[,d] @@` reading
-/
namespace RF.Driver.FormatDiff
open RF.Proto RF.FormatDiff

def decBool (s : String) : Option Bool :=
  if s == "1" then some true else if s == "0" then some false else none

def decFilter (s : String) : Option (List Char → Bool) :=
  if s == "*" then some (fun _ => true)
  else do
    let names ← decList s
    let names := names.map String.toList
    pure fun f => names.contains f

/-- `none` = the bytes are not UTF-8. -/
def decText (s : String) : Option (Option (List (List Char))) := do
  let bs ← decBytes s
  let ba := ByteArray.mk bs.toArray
  if h : ba.IsValidUTF8 then pure (some (bufLines (String.fromUTF8 ba h).toList)) else pure none

def groupRanges : List FileRange → List (List Char × List (Nat × Nat))
  | [] => []
  | r :: rs =>
    match groupRanges rs with
    | (f, l) :: gs => if f = r.file then (f, (r.lo, r.hi) :: l) :: gs else (r.file, [(r.lo, r.hi)]) :: (f, l) :: gs
    | [] => [(r.file, [(r.lo, r.hi)])]

def encRanges (rs : List FileRange) : String :=
  if rs.isEmpty then "_" else
  String.intercalate ";" ((groupRanges rs).map fun (f, l) =>
    encChars f ++ ":" ++ String.intercalate "," (l.map fun (a, b) => s!"{a}-{b}"))

def scanOp (checked : Bool) (lz sk fl tx : String) : Option String := do
  let lz ← decBool lz
  let sk ← sk.toNat?
  let fl ← decFilter fl
  match ← decText tx with
  | none => pure "panic"
  | some lines =>
    match scanDiff ⟨lz, checked, sk, fl⟩ lines with
    | .ok rs => pure (encRanges rs)
    | .error _ => pure "panic"

def specOp (sk fl tx : String) : Option String := do
  let sk ← sk.toNat?
  let fl ← decFilter fl
  match ← decText tx with
  | none => pure "panic"
  | some lines =>
    match spec sk fl lines with
    | some rs => pure (encRanges rs)
    | none => pure "none"

def handle (op : String) (args : List String) : Option String :=
  match op, args with
  | "fd.scan", [lz, sk, fl, tx] => scanOp true lz sk fl tx
  | "fd.scan_release", [lz, sk, fl, tx] => scanOp false lz sk fl tx
  | "fd.spec", [sk, fl, tx] => specOp sk fl tx
  | "fd.spec", [_, sk, fl, tx] => specOp sk fl tx
  | "fd.hyp", [lz, sk, tx] => do
    let lz ← decBool lz
    let sk ← sk.toNat?
    match ← decText tx with
    | none => pure "panic"
    | some lines => pure (if specHyp lz sk lines then "1" else "0")
  | "fd.header", [sk, l] => do
    let sk ← sk.toNat?
    let l ← decChars l
    match headerMatch sk l with
    | some f => pure (encChars f)
    | none => pure "none"
  | "fd.spec_header", [sk, l] => do
    let sk ← sk.toNat?
    let l ← decChars l
    match specHeader sk l with
    | some f => pure (encChars f)
    | none => pure "none"
  | "fd.hunk", [lz, l] => do
    let lz ← decBool lz
    let l ← decChars l
    match hunkMatch lz l with
    | some (g1, some g3) => pure (encChars g1 ++ ":" ++ encChars g3)
    | some (g1, none) => pure (encChars g1 ++ ":none")
    | none => pure "none"
  | "fd.header_ref", [sk, l] => do
    let sk ← sk.toNat?
    let l ← decChars l
    match (headerRe sk).captures l with
    | some c => pure (match c.lookup 1 with | some f => encChars f | none => "none")
    | none => pure "none"
  | "fd.hunk_ref", [lz, l] => do
    let lz ← decBool lz
    let l ← decChars l
    match (hunkRe lz).captures l with
    | some c =>
      match c.lookup 1, c.lookup 3 with
      | some g1, some g3 => pure (encChars g1 ++ ":" ++ encChars g3)
      | some g1, none => pure (encChars g1 ++ ":none")
      | none, _ => pure "none"
    | none => pure "none"
  | "fd.strict_hunk", [l] => do
    let l ← decChars l
    match strictHunk l with
    | some (b, c, d, _) => pure s!"{b}:{c}:{d}"
    | none => pure "none"
  | "fd.lines", [tx] => do
    match ← decText tx with
    | none => pure "panic"
    | some lines => pure (encList (lines.map String.ofList))
  | "fd.run", [lz, sk, fl, st, tx] => do
    let lz ← decBool lz
    let sk ← sk.toNat?
    let fl ← if fl == "bad" then pure none else (decFilter fl).map some
    let st ← if st == "ok" then pure (Status.exited true)
      else if st == "fail" then pure (Status.exited false)
      else if st == "spawnerr" then pure Status.spawnError else none
    match ← decText tx with
    | none => pure (if fl.isNone then "1:nospawn" else "101:nospawn")
    | some lines =>
      let out := run lz true sk fl lines (fun _ _ => st)
      match out.spawned with
      | some (_, rs) => pure s!"{out.exitCode}:{encRanges rs}"
      | none => pure s!"{out.exitCode}:nospawn"
  | _, _ => none

end RF.Driver.FormatDiff
