import RF.Model.Proto
import RF.Model.Braces
/-!
Line-protocol operations for the brace decisions of `src/matches.rs` / `src/closures.rs` (model `RF/Model/Braces.lean`).

Encoding of an expression (prefix notation, fields joined by `,`; the same text `verif_hooks::braces::enc` writes):
  `L,<kind>,<attrs>`   `U,<kind>,<attrs>,<e>`   `C,<ret 0|1>,<attrs>,<body>`
  `BE,<hdr>,<rest>,<e>`   `BS,<hdr>,<rest>,<e>`   `BO,<hdr>,<stmts>`
  hdr = `<unsafe>:<label length | ->:<comment>:<outer>:<inner>`; statements = letters `l i m 0 o`, `-` for none
  bits = a string of `0` / `1`

Operations
  br.flat <forceMultiline> <insideMacro> <condMulti> <e>     -> `<extend>;<e>`          `flatten_arm_body`
  br.canflat <e>                                              -> 0|1                     `can_flatten_block_around_this`
  br.canbe <insideMacro> <e>                                  -> 0|1                     `block_can_be_flattened`
  br.ovh <forceMultiline> <insideMacro> <e> | br.ovh.pinned <e> -> number                the width kept behind the pattern
  br.arm[.pinned] <cfg: 8 bits> <ctx: 3 bits> <shapeOk> <condMulti> <orig e|o###> <next> <prefer> <e>
        -> err | `<s|n|b> <comma> <e>`     `rewrite_match_body`: branch, comma, the printed body (empty statements dropped)
        cfg = matchArmBlocks forceMultilineBlocks style2024 trailingSemicolon isMacroDef insideMacro
              trailingCommaNever matchBlockTrailingComma;  ctx = guardMl arrowComment isLast
  br.inner[.pinned] <prefixMl> <e>                            -> e                       `get_inner_expr`
  br.veto <e>                                                 -> `<veto_block><requires_semi(left_most)>`
  br.forced <insideMacro> <style2024> <e>                     -> 0|1                     `is_block_closure_forced`
  br.cloexpr <forceMultiline> <insideMacro> <rw e|1|m> <e>    -> 0|1                     `rewrite_closure_expr` succeeds
  br.clo[.pinned] <cfg: 3 bits> <ret> <prefixMl> <rw> <wrapOuterOk> <wrapBodyOk> <blockOk> <e>
        -> err | `<0|e|w|k> <e>`           `rewrite_closure`: branch, the printed body (empty statements dropped)
        cfg = forceMultilineBlocks style2024 insideMacro
  br.arm.check[.pinned] <the arguments of br.arm> <real comma 0|1|-> <real body | ->      -> ok | model=<br.arm's answer>
  br.clo.check[.pinned] <the arguments of br.clo> <real body | ->                        -> ok | model=<br.clo's answer>
        the model's answer compared with what the real code printed (read back by the parser; `-` = an error), up to
        empty statements and the braces inside nested closures
ORACLE (judges the output of the real formatter)
  br.oracle.strip <e in> <e out>                              -> ok | bad                `stripDeep in = stripDeep out`
-/
namespace RF.Driver.Braces
open RF.Proto RF.Braces RF.Opt

def encB (b : Bool) : String := if b then "1" else "0"
def decB : String → Option Bool
  | "0" => some false
  | "1" => some true
  | _ => none

def decBits (n : Nat) (s : String) : Option (List Bool) :=
  let cs := s.toList
  if cs.length == n then cs.mapM (fun c => if c == '0' then some false else if c == '1' then some true else none)
  else none

def leafNames : List (String × Leaf) :=
  [("if", .if_), ("wh", .while_), ("fo", .forLoop), ("lo", .loop_), ("ma", .match_), ("ar", .array), ("mc", .methodCall),
   ("mac", .macCall), ("st", .struct_), ("tu", .tup), ("ge", .gen), ("tb", .tryBlock), ("cb", .constBlock), ("re", .ret),
   ("br", .break_), ("co", .continue_), ("ro", .rangeOpen), ("ot", .other)]

def ukindNames : List (String × UKind) :=
  [("ad", .addrOf), ("tr", .try_), ("un", .unary), ("ix", .index), ("ca", .cast), ("cl", .call), ("bi", .binary),
   ("ty", .type_), ("as", .assign), ("ao", .assignOp), ("fi", .field), ("ra", .range)]

def decLeaf (s : String) : Option Leaf := (leafNames.find? (·.1 == s)).map (·.2)
def encLeaf (k : Leaf) : String := ((leafNames.find? (·.2 == k)).map (·.1)).getD "?"
def decUKind (s : String) : Option UKind := (ukindNames.find? (·.1 == s)).map (·.2)
def encUKind (k : UKind) : String := ((ukindNames.find? (·.2 == k)).map (·.1)).getD "?"

def decHdr (s : String) : Option Hdr :=
  match s.splitOn ":" with
  | [u, l, c, o, i] => do
    let u ← decB u
    let l ← (if l == "-" then some none else l.toNat?.map some)
    let c ← decB c
    let o ← o.toNat?
    let i ← i.toNat?
    pure ⟨u, l, c, o, i⟩
  | _ => none

def encHdr (h : Hdr) : String :=
  let l := match h.label with | some n => toString n | none => "-"
  s!"{encB h.unsafe_}:{l}:{encB h.comment}:{h.outer}:{h.inner}"

def decStmts (s : String) : Option (List NStmt) :=
  if s == "-" then some [] else
  s.toList.mapM fun c =>
    if c == 'l' then some NStmt.let_ else if c == 'i' then some .item else if c == 'm' then some .mac
    else if c == '0' then some .empty else if c == 'o' then some .opaque else none

def encStmts (l : List NStmt) : String :=
  if l.isEmpty then "-" else
  String.ofList (l.map fun | .let_ => 'l' | .item => 'i' | .mac => 'm' | .empty => '0' | .opaque => 'o')

def decExprAux : Nat → List String → Option (Expr × List String)
  | 0, _ => none
  | fuel + 1, toks =>
    match toks with
    | "L" :: k :: a :: r => do
      let k ← decLeaf k
      let a ← a.toNat?
      pure (.leaf k a, r)
    | "U" :: k :: a :: r => do
      let k ← decUKind k
      let a ← a.toNat?
      let (e, r) ← decExprAux fuel r
      pure (.un k a e, r)
    | "C" :: ret :: a :: r => do
      let ret ← decB ret
      let a ← a.toNat?
      let (e, r) ← decExprAux fuel r
      pure (.closure ret a e, r)
    | "BE" :: h :: rest :: r => do
      let h ← decHdr h
      let rest ← decStmts rest
      let (e, r) ← decExprAux fuel r
      pure (.blockE h e rest, r)
    | "BS" :: h :: rest :: r => do
      let h ← decHdr h
      let rest ← decStmts rest
      let (e, r) ← decExprAux fuel r
      pure (.blockS h e rest, r)
    | "BO" :: h :: stmts :: r => do
      let h ← decHdr h
      let stmts ← decStmts stmts
      pure (.blockO h stmts, r)
    | _ => none

def decExpr (s : String) : Option Expr :=
  let toks := s.splitOn ","
  match decExprAux (toks.length + 1) toks with
  | some (e, []) => some e
  | _ => none

def encExpr : Expr → String
  | .leaf k a => s!"L,{encLeaf k},{a}"
  | .un k a e => s!"U,{encUKind k},{a},{encExpr e}"
  | .closure r a b => s!"C,{encB r},{a},{encExpr b}"
  | .blockE h e rest => s!"BE,{encHdr h},{encStmts rest},{encExpr e}"
  | .blockS h e rest => s!"BS,{encHdr h},{encStmts rest},{encExpr e}"
  | .blockO h stmts => s!"BO,{encHdr h},{encStmts stmts}"

def decRw (s : String) : Option Rw :=
  match s.toList with
  | ['e'] => some .err
  | ['-'] => some .err
  | ['o', a, b, c] => do
    let a ← decB (String.singleton a)
    let b ← decB (String.singleton b)
    let c ← decB (String.singleton c)
    pure (.ok a b c)
  | _ => none

def decRw1 : String → Option Rw1
  | "e" => some .err
  | "1" => some .oneLine
  | "m" => some .multi
  | _ => none

def decArmCfg (s : String) : Option ArmCfg :=
  match decBits 8 s with
  | some [a, b, c, d, e, f, g, h] => some ⟨a, b, c, d, e, f, g, h⟩
  | _ => none

def decArmCtx (s : String) : Option ArmCtx :=
  match decBits 3 s with
  | some [a, b, c] => some ⟨a, b, c⟩
  | _ => none

def decCloCfg (s : String) : Option CloCfg :=
  match decBits 3 s with
  | some [a, b, c] => some ⟨a, b, c⟩
  | _ => none

def encArmOut : Option ArmOut → String
  | none => "err"
  | some o =>
    let br := match o.branch with | .sameLine => "s" | .nextLine => "n" | .nextLineBlock => "b"
    s!"{br} {encB o.comma} {encExpr (dropEmpty o.tree)}"

def encCloOut : Option CloOut → String
  | none => "err"
  | some o =>
    let br := match o.branch with | .emptyBlock => "0" | .expr => "e" | .withBlock => "w" | .keepBlock => "k"
    s!"{br} {encExpr (dropEmpty o.tree)}"

def armOp (wc : ArmCfg → Bool → Bool) (args : List String) : Option String :=
  match args with
  | [cfg, ctx, shapeOk, cond, orig, next, prefer, e] => do
    let c ← decArmCfg cfg
    let x ← decArmCtx ctx
    let shapeOk ← decB shapeOk
    let cond ← decB cond
    let orig ← decRw orig
    let next ← decB next
    let prefer ← (if prefer == "-" then some false else decB prefer)
    let e ← decExpr e
    let o : ArmOrc := ⟨fun _ => cond, shapeOk, fun _ => orig, fun _ => next, fun _ => prefer⟩
    pure (encArmOut (rewriteMatchBodyWith wc c x o e))
  | _ => none

def cloOp (inner : Bool → Expr → Expr) (args : List String) : Option String :=
  match args with
  | [cfg, ret, pml, rw, wo, wb, bo, e] => do
    let c ← decCloCfg cfg
    let ret ← decB ret
    let pml ← decB pml
    let rw ← decRw1 rw
    let wo ← decB wo
    let wb ← decB wb
    let bo ← decB bo
    let e ← decExpr e
    let o : CloOrc := ⟨pml, fun _ => rw, fun _ => wo, fun _ => wb, fun _ => bo⟩
    pure (encCloOut (rewriteClosureWith inner c o ret e))
  | _ => none

/-- the printed body read back, compared with the model's up to the braces inside nested closures -/
def sameTree (a b : Expr) : Bool := deep (dropEmpty a) == deep (dropEmpty b)

def armCheck (wc : ArmCfg → Bool → Bool) (args : List String) : Option String :=
  match args with
  | [cfg, ctx, shapeOk, cond, orig, next, prefer, e, rc, rt] => do
    let c ← decArmCfg cfg
    let x ← decArmCtx ctx
    let shapeOk ← decB shapeOk
    let cond ← decB cond
    let orig ← decRw orig
    let next ← decB next
    let prefer ← (if prefer == "-" then some false else decB prefer)
    let e ← decExpr e
    let o : ArmOrc := ⟨fun _ => cond, shapeOk, fun _ => orig, fun _ => next, fun _ => prefer⟩
    let m := rewriteMatchBodyWith wc c x o e
    let good ← (match m with
      | none => some (rc == "-")
      | some out => (do
          if rc == "-" then pure false else
          let rc ← decB rc
          let rt ← decExpr rt
          pure (rc == out.comma && sameTree out.tree rt)))
    pure (if good then "ok" else s!"model={encArmOut m}")
  | _ => none

def cloCheck (inner : Bool → Expr → Expr) (args : List String) : Option String :=
  match args with
  | [cfg, ret, pml, rw, wo, wb, bo, e, rt] => do
    let c ← decCloCfg cfg
    let ret ← decB ret
    let pml ← decB pml
    let rw ← decRw1 rw
    let wo ← decB wo
    let wb ← decB wb
    let bo ← decB bo
    let e ← decExpr e
    let o : CloOrc := ⟨pml, fun _ => rw, fun _ => wo, fun _ => wb, fun _ => bo⟩
    let m := rewriteClosureWith inner c o ret e
    let good ← (match m with
      | none => some (rt == "-")
      | some out => (do
          if rt == "-" then pure false else
          let rt ← decExpr rt
          pure (sameTree out.tree rt)))
    pure (if good then "ok" else s!"model={encCloOut m}")
  | _ => none

def handle (op : String) (args : List String) : Option String :=
  match op, args with
  | "br.arm.check", args => some <| (armCheck wrapComma args).getD "?"
  | "br.arm.check.pinned", args => some <| (armCheck wrapCommaPinned args).getD "?"
  | "br.clo.check", args => some <| (cloCheck getInnerExpr args).getD "?"
  | "br.clo.check.pinned", args => some <| (cloCheck getInnerExprPinned args).getD "?"
  | "br.flat", [fmb, im, cond, e] => some <| (do
      let fmb ← decB fmb
      let im ← decB im
      let cond ← decB cond
      let e ← decExpr e
      let r := flattenArmBody fmb im cond e
      pure s!"{encB r.1};{encExpr r.2}").getD "?"
  | "br.canflat", [e] => some <| (do
      let e ← decExpr e
      pure (encB (canFlattenAround e))).getD "?"
  | "br.canbe", [im, e] => some <| (do
      let im ← decB im
      let e ← decExpr e
      pure (encB (canBeFlattened im e))).getD "?"
  | "br.ovh", [fmb, im, e] => some <| (do
      let fmb ← decB fmb
      let im ← decB im
      let e ← decExpr e
      pure (toString (patOverhead fmb im e))).getD "?"
  | "br.ovh.pinned", [e] => some <| (do
      let e ← decExpr e
      pure (toString (patShapeOverhead e))).getD "?"
  | "br.arm", args => some <| (armOp wrapComma args).getD "?"
  | "br.arm.pinned", args => some <| (armOp wrapCommaPinned args).getD "?"
  | "br.inner", [pml, e] => some <| (do
      let pml ← decB pml
      let e ← decExpr e
      pure (encExpr (getInnerExpr pml e))).getD "?"
  | "br.inner.pinned", [pml, e] => some <| (do
      let pml ← decB pml
      let e ← decExpr e
      pure (encExpr (getInnerExprPinned pml e))).getD "?"
  | "br.veto", [e] => some <| (do
      let e ← decExpr e
      pure s!"{encB (vetoBlock e)}{encB (requiresSemi (leftMost e))}").getD "?"
  | "br.forced", [im, s24, e] => some <| (do
      let im ← decB im
      let s24 ← decB s24
      let e ← decExpr e
      pure (encB (isBlockClosureForced im s24 e))).getD "?"
  | "br.cloexpr", [fmb, im, rw, e] => some <| (do
      let fmb ← decB fmb
      let im ← decB im
      let rw ← decRw1 rw
      let e ← decExpr e
      let o : CloOrc := ⟨false, fun _ => rw, fun _ => true, fun _ => true, fun _ => true⟩
      pure (encB (closureExprOk ⟨fmb, false, im⟩ o e))).getD "?"
  | "br.clo", args => some <| (cloOp getInnerExpr args).getD "?"
  | "br.clo.pinned", args => some <| (cloOp getInnerExprPinned args).getD "?"
  | "br.oracle.strip", [a, b] => some <| (do
      let a ← decExpr a
      let b ← decExpr b
      pure (if stripDeep a = stripDeep b then "ok" else "bad")).getD "?"
  | _, _ => none

end RF.Driver.Braces
