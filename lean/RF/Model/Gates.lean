/-
Style-edition gates (C09).  `StyleEdition` and its order are modelled from
`src/config/options.rs` (`enum StyleEdition`, `impl PartialOrd for StyleEdition`): the five editions are
linearly ordered 2015 < 2018 < 2021 < 2024 < 2027 (the translator refuses if that impl changes).
A gate is one occurrence in the formatting code of `<style edition> op StyleEdition::EditionNNNN`.
Import-free.
-/
namespace RF.Gates

inductive StyleEdition where
  | e2015 | e2018 | e2021 | e2024 | e2027
  deriving DecidableEq, Repr

def StyleEdition.rank : StyleEdition → Nat
  | .e2015 => 0 | .e2018 => 1 | .e2021 => 2 | .e2024 => 3 | .e2027 => 4

def StyleEdition.all : List StyleEdition := [.e2015, .e2018, .e2021, .e2024, .e2027]
/-- the editions that have been released: their output is frozen -/
def StyleEdition.released : List StyleEdition := [.e2015, .e2018, .e2021, .e2024]

inductive Op where
  | le | lt | ge | gt | eq | ne
  deriving DecidableEq, Repr

structure Gate where
  file  : Nat          -- index into the generated list of file names
  op    : Op
  bound : StyleEdition
  deriving DecidableEq, Repr

def Gate.eval (g : Gate) (e : StyleEdition) : Bool :=
  match g.op with
  | .le => e.rank ≤ g.bound.rank
  | .lt => e.rank < g.bound.rank
  | .ge => e.rank ≥ g.bound.rank
  | .gt => e.rank > g.bound.rank
  | .eq => e.rank = g.bound.rank
  | .ne => e.rank ≠ g.bound.rank

/-- the gate as seen by released editions: its truth value at 2015, 2018, 2021, 2024 -/
def Gate.bits (g : Gate) : List Bool := StyleEdition.released.map g.eval

def Gate.constOnReleased (g : Gate) : Bool :=
  g.bits.all (· = g.eval .e2015)

/-- number of gates of `gs` in file `f` whose restriction to released editions is `bits` -/
def countGates (gs : List Gate) (f : Nat) (bits : List Bool) : Nat :=
  (gs.filter fun g => g.file = f ∧ g.bits = bits).length

/-- Every gate of `cur` that distinguishes released editions occurs in `pinned` in the same file with
the same restriction and the same multiplicity, and vice versa. -/
def frozenOK (cur pinned : List Gate) : Bool :=
  (cur.all fun g => g.constOnReleased || countGates cur g.file g.bits = countGates pinned g.file g.bits) &&
  (pinned.all fun g => g.constOnReleased || countGates cur g.file g.bits = countGates pinned g.file g.bits)

/-- A default table row: (option type struct, default on the `_` arm, default on the `Edition2024` arm),
strings as lists of character codes. -/
abbrev DefaultRow := List Nat × List Nat × Option (List Nat)

/-- the default an edition gets from a row, given which arm the macro sends the edition to -/
def defaultOf (armOf : StyleEdition → Nat) (r : DefaultRow) (e : StyleEdition) : List Nat :=
  match r.2.2 with
  | none => r.2.1
  | some d24 => if armOf e = 1 then d24 else r.2.1

end RF.Gates
