#!/usr/bin/env python3
"""translator:c06_emitters — `create_emitter` (src/lib.rs) and the file-system calls of every emitter
(src/emitter/*.rs) -> RF/Gen/Emitters.lean.  Used by C06 (only the Files emitters write) and C20 (the
backup protocol's operation list)."""
import os, re, sys
sys.path.insert(0, os.path.dirname(os.path.abspath(__file__)))
from common import *

NAME = "c06_emitters"
EMITTERS = {  # file -> (struct, Lean constructor)
    "files_with_backup.rs": ("FilesWithBackupEmitter", "filesWithBackup"),
    "files.rs": ("FilesEmitter", "files"),
    "stdout.rs": ("StdoutEmitter", "stdout"),
    "json.rs": ("JsonEmitter", "json"),
    "modified_lines.rs": ("ModifiedLinesEmitter", "modifiedLines"),
    "checkstyle.rs": ("CheckstyleEmitter", "checkstyle"),
    "diff.rs": ("DiffEmitter", "diff"),
}
MODES = {"Files": "files", "Stdout": "stdout", "Coverage": "coverage", "Json": "json",
         "ModifiedLines": "modifiedLines", "Checkstyle": "checkstyle", "Diff": "diff"}
FS_CALL = re.compile(r"\b(fs::\w+|File::\w+|OpenOptions::\w+|std::fs::\w+|remove_file|remove_dir\w*|set_permissions|hard_link|symlink\w*)\s*\(")


def path_role(expr, names, fname):
    expr = expr.strip().lstrip("&").strip()
    if expr in names:
        return names[expr]
    refuse(NAME, f"{fname}: cannot tell which path `{expr}` is")


def split_args(s):
    parts, d, cur = [], 0, ""
    for c in s:
        if c in "([{":
            d += 1
        if c in ")]}":
            d -= 1
        if c == "," and d == 0:
            parts.append(cur); cur = ""
        else:
            cur += c
    if cur.strip():
        parts.append(cur)
    return parts


def emitter_ops(repo, fname):
    src = cut_tests(strip_rust_comments(read(repo, f"src/emitter/{fname}", NAME)))
    calls = list(FS_CALL.finditer(src))
    if not calls:
        return False, []
    # accepted shape: all calls inside `fn emit_formatted_file`, inside ONE `if original_text != formatted_text { … }`
    m = re.search(r"fn\s+emit_formatted_file\b", src)
    if not m:
        refuse(NAME, f"{fname}: file-system calls but no emit_formatted_file")
    body, end = block_after(src, src.index(")", m.end()))
    # the real body is after the parameter list: find the block that follows `-> Result<…>`
    arrow = src.index("->", m.end())
    body, end = block_after(src, arrow)
    body_start = src.index("{", arrow)
    for c in calls:
        if not (body_start < c.start() < end):
            refuse(NAME, f"{fname}: file-system call `{c.group(1)}` outside emit_formatted_file")
    g = re.search(r"if\s+original_text\s*!=\s*formatted_text\s*\{", body)
    if not g:
        refuse(NAME, f"{fname}: file-system calls are not guarded by `if original_text != formatted_text`")
    guarded, gend = block_after(body, g.start())
    gstart = body.index("{", g.start())
    for c in FS_CALL.finditer(body):
        if not (gstart < c.start() < gend):
            refuse(NAME, f"{fname}: file-system call `{c.group(1)}` outside the `original_text != formatted_text` guard")
    # path names
    names = {"filename": "file"}
    for mm in re.finditer(r"let\s+(\w+)\s*=\s*filename\.with_extension\(\"(\w+)\"\)\s*;", guarded):
        ext = mm.group(2)
        if ext not in ("tmp", "bk"):
            refuse(NAME, f"{fname}: unknown sibling extension .{ext}")
        names[mm.group(1)] = ext
    # straight-line: no loops / branches / closures / early exits other than `?` around the calls
    nostr = re.sub(r'"(?:[^"\\]|\\.)*"', '""', guarded)
    stripped = re.sub(r"if\s+self\.print_misformatted_file_names\s*\{[^{}]*\}", "", nostr)
    if re.search(r"\b(if|match|while|for|loop|return|break|continue)\b|\|\w*\|", stripped):
        refuse(NAME, f"{fname}: the guarded block is not straight-line code")
    ops = []
    for c in FS_CALL.finditer(guarded):
        fn = c.group(1)
        # argument text
        i = c.end()
        d, j = 1, i
        while d > 0:
            if guarded[j] == "(":
                d += 1
            elif guarded[j] == ")":
                d -= 1
            j += 1
        argv = split_args(guarded[i:j - 1])
        rest = guarded[j:j + 3].strip()
        if not rest.startswith("?"):
            refuse(NAME, f"{fname}: result of `{fn}` is not propagated with `?`")
        if fn == "fs::write":
            ops.append(f".write .{path_role(argv[0], names, fname)}")
        elif fn == "fs::rename":
            ops.append(f".rename .{path_role(argv[0], names, fname)} .{path_role(argv[1], names, fname)}")
        elif fn in ("fs::remove_file", "remove_file"):
            ops.append(f".remove .{path_role(argv[0], names, fname)}")
        elif fn == "fs::copy":
            ops.append(f".copy .{path_role(argv[0], names, fname)} .{path_role(argv[1], names, fname)}")
        else:
            refuse(NAME, f"{fname}: file-system call `{fn}` is not one the model knows (write, rename, remove_file, copy)")
    return True, ops


def create_emitter_arms(repo):
    src = strip_rust_comments(read(repo, "src/lib.rs", NAME))
    m = re.search(r"fn\s+create_emitter\b", src)
    if not m:
        refuse(NAME, "src/lib.rs: create_emitter not found")
    body, _ = block_after(src, src.index("->", m.end()))
    mm = re.search(r"match\s+config\.emit_mode\(\)\s*\{", body)
    if not mm:
        refuse(NAME, "create_emitter is not a match on config.emit_mode()")
    arms_txt, _ = block_after(body, mm.start())
    arms = []
    # split arms at top-level "=>"
    for am in re.finditer(r"((?:EmitMode::\w+\s*\|?\s*)+)(if\s+[^=]+?)?=>\s*(\{[^{}]*(?:\{[^{}]*\}[^{}]*)*\}|[^,]+),?", arms_txt):
        pats = re.findall(r"EmitMode::(\w+)", am.group(1))
        guard = (am.group(2) or "").strip()
        rhs = am.group(3)
        em = re.search(r"emitter::(\w+)", rhs)
        if not em:
            refuse(NAME, f"create_emitter arm `{am.group(0)[:60]}` does not construct an emitter::X")
        kind = None
        for f, (struct, ctor) in EMITTERS.items():
            if struct == em.group(1):
                kind = ctor
        if kind is None:
            refuse(NAME, f"unknown emitter struct {em.group(1)}")
        if guard and guard != "if config.make_backup()":
            refuse(NAME, f"create_emitter: unknown guard `{guard}`")
        for p in pats:
            if p not in MODES:
                refuse(NAME, f"unknown EmitMode::{p}")
            arms.append((MODES[p], guard != "", kind))
    seen = {m_ for (m_, _, _) in arms}
    if seen != set(MODES.values()):
        refuse(NAME, f"create_emitter arms cover {sorted(seen)} not all of {sorted(MODES.values())}")
    return arms


def main():
    a = args()
    present = sorted(f for f in os.listdir(os.path.join(a.repo, "src/emitter")) if f.endswith(".rs"))
    if set(present) != set(EMITTERS):
        refuse(NAME, f"src/emitter/ holds {present}, expected {sorted(EMITTERS)}")
    table = {}
    for f, (struct, ctor) in EMITTERS.items():
        table[ctor] = emitter_ops(a.repo, f)
    # other places that touch the file system on behalf of an emitter
    sf = cut_tests(strip_rust_comments(read(a.repo, "src/source_file.rs", NAME)))
    for c in FS_CALL.finditer(sf):
        if c.group(1) != "fs::read_to_string":
            refuse(NAME, f"src/source_file.rs: unexpected file-system call {c.group(1)}")
    arms = create_emitter_arms(a.repo)
    L = []
    L.append("/- GENERATED by translate/c06_emitters.py from src/lib.rs (create_emitter) and src/emitter/*.rs.\n   Do not edit: every check run overwrites this file from /repo's current source. -/")
    L.append("namespace RF.Gen.Emitters\n")
    L.append("/-- the paths an emitter can touch: the file itself and its `.tmp` / `.bk` siblings -/\ninductive P where | file | tmp | bk\n  deriving DecidableEq, Repr\n")
    L.append("inductive FsOp where\n  | write (dst : P)            -- fs::write(dst, formatted_text)\n  | rename (src dst : P)       -- fs::rename\n  | remove (p : P)             -- fs::remove_file\n  | copy (src dst : P)         -- fs::copy\n  deriving DecidableEq, Repr\n")
    L.append("inductive EmitterKind where\n  | filesWithBackup | files | stdout | json | modifiedLines | checkstyle | diff\n  deriving DecidableEq, Repr\n")
    L.append("inductive EmitMode where\n  | files | stdout | coverage | json | modifiedLines | checkstyle | diff\n  deriving DecidableEq, Repr\n")
    L.append("/-- The file-system operations of `emit_formatted_file`, in program order; all of them sit under\n`if original_text != formatted_text` and each is followed by `?` (an error returns at once). -/")
    L.append("def fsOps : EmitterKind → List FsOp")
    for ctor in ["filesWithBackup", "files", "stdout", "json", "modifiedLines", "checkstyle", "diff"]:
        has, ops = table[ctor]
        L.append(f"  | .{ctor} => [{', '.join(ops)}]")
    L.append("")
    L.append("/-- `create_emitter(config)` as a function of (emit_mode, make_backup); arms in source order. -/")
    L.append("def createEmitter (mode : EmitMode) (makeBackup : Bool) : EmitterKind :=")
    L.append("  match mode, makeBackup with")
    for (mode, guarded, kind) in arms:
        L.append(f"  | .{mode}, {'true' if guarded else '_'} => .{kind}")
    L.append("\nend RF.Gen.Emitters\n")
    changed = write_if_changed(os.path.join(a.out, "Emitters.lean"), "\n".join(L))
    print(f"c06_emitters: ok ({'rewritten' if changed else 'unchanged'}); backup ops = {table['filesWithBackup'][1]}; files ops = {table['files'][1]}")


if __name__ == "__main__":
    main()
