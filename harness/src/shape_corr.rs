//! Correspondence of every `Indent` / `Shape` method of `src/shape.rs` with the Lean model
//! `RF/Model/Shape.lean` (driver `RF/Driver/Shape.lean`), through `verif_hooks::shape`.
//! Shared by C08 (`Indent::to_string*`: the indentation alphabet) and C16 (the arithmetic: which
//! operations panic, and exactly when).
//!
//! Domain: every field and every delta in 0..=N exhaustively (N = 12 in thorough; in quick N = 12 for
//! the operations with at most four numeric arguments and N = 8 for those with five), tab_spaces 0..=8,
//! hard_tabs on/off, plus a band around the 80-column static buffer for the `to_string` family, plus
//! random large values up to 2^40 (the string-building operations are kept below 5000 columns).
//! A panic of the real code is the answer `panic`.
use rustfmt_nightly::verif_hooks::shape as hs;
use rustfmt_nightly::Config;

use crate::util::*;

fn guard<T>(f: impl FnOnce() -> T) -> Option<T> {
    std::panic::catch_unwind(std::panic::AssertUnwindSafe(f)).ok()
}

fn ei(x: hs::I) -> String {
    format!("{}:{}", x.0, x.1)
}
fn es(x: hs::S) -> String {
    format!("{}:{}:{}:{}", x.0, x.1, x.2, x.3)
}
fn p_i(x: Option<hs::I>) -> String {
    x.map(ei).unwrap_or_else(|| "panic".into())
}
fn p_str(x: Option<String>) -> String {
    x.map(|s| enc_str(&s)).unwrap_or_else(|| "panic".into())
}
fn r_s(x: Result<hs::S, usize>) -> String {
    match x {
        Ok(s) => es(s),
        Err(w) => format!("err:{}", w),
    }
}
fn o_s(x: Option<hs::S>) -> String {
    x.map(es).unwrap_or_else(|| "none".into())
}

/// One configuration per (hard_tabs, tab_spaces, max_width, comment_width) actually needed.
fn cfg(hard_tabs: bool, tab_spaces: usize, max_width: usize, comment_width: usize) -> Config {
    let mut c = Config::default();
    c.set().hard_tabs(hard_tabs);
    c.set().tab_spaces(tab_spaces);
    c.set().max_width(max_width);
    c.set().comment_width(comment_width);
    c
}

struct Sink<'a> {
    o: &'a mut Outcome,
    desc: &'static str,
}

impl<'a> Sink<'a> {
    fn put(&mut self, op: &'static str, args: &[usize], answer: String, nontrivial: bool) {
        let mut req = String::with_capacity(op.len() + args.len() * 4);
        req.push_str(op);
        for a in args {
            req.push(' ');
            req.push_str(&a.to_string());
        }
        if answer == "panic" {
            self.o.count(&format!("shape:panic:{}", op));
        } else if answer == "none" || answer.starts_with("err:") {
            self.o.count(&format!("shape:refused:{}", op));
        }
        self.o.push("corr", op, req, answer, self.desc.into(), nontrivial);
    }
}

/// the `Indent` string family on one (block, align, hard_tabs, tab_spaces)
fn string_ops(k: &mut Sink<'_>, b: usize, al: usize, ht: bool, ts: usize, c: &Config) {
    let nt = b + al > 0;
    k.put("shape.indent.to_string", &[b, al, ht as usize, ts], p_str(guard(|| hs::indent_to_string((b, al), c))), nt);
    k.put("shape.indent.to_string_with_newline", &[b, al, ht as usize, ts], p_str(guard(|| hs::indent_to_string_with_newline((b, al), c))), nt);
}

/// The `to_string` family only (what C08's `indent_shape` / `indent_alphabet` theorems are about).
pub fn indent_string_cases(o: &mut Outcome, rng: &mut Rng, thorough: bool) {
    let mut k = Sink { o, desc: "exhaustive" };
    let mut vals: Vec<usize> = (0..=12).collect();
    vals.extend(36..=44);
    vals.extend(76..=84);
    if thorough {
        vals.extend([13, 16, 24, 32, 64, 72, 85, 96, 120, 160, 161, 200, 240, 400, 640, 648]);
    }
    for ht in [false, true] {
        for ts in 0..=8usize {
            let c = cfg(ht, ts, 100, 80);
            for &b in &vals {
                for &al in &vals {
                    string_ops(&mut k, b, al, ht, ts, &c);
                }
            }
            // to_string_inner with every offset (the code only ever passes 0 and 1; 2.. shows the slice panic)
            for b in 0..=12usize {
                for al in 0..=12usize {
                    for off in 0..=12usize {
                        k.put("shape.indent_to_string", &[b, al, off, ht as usize, ts], p_str(guard(|| hs::indent_to_string_inner((b, al), off, &c))), true);
                    }
                }
            }
            for &w in &[66usize, 67, 68, 69, 70, 77, 78, 79, 80, 81, 82, 83, 160] {
                for off in 0..=3usize {
                    k.put("shape.indent_to_string", &[w, 0, off, ht as usize, ts], p_str(guard(|| hs::indent_to_string_inner((w, 0), off, &c))), true);
                    k.put("shape.indent_to_string", &[w - 60, 60, off, ht as usize, ts], p_str(guard(|| hs::indent_to_string_inner((w - 60, 60), off, &c))), true);
                }
            }
            // Shape::to_string_with_newline reads (block_indent, offset) only; width and alignment ride along
            for &b in &vals {
                for &off in &vals {
                    let s = (b % 7, b, off % 5, off);
                    k.put("shape.to_string_with_newline", &[s.0, s.1, s.2, s.3, ht as usize, ts], p_str(guard(|| hs::to_string_with_newline(s, &c))), b + off > 0);
                }
            }
        }
    }
    k.desc = "random";
    for _ in 0..(if thorough { 20000 } else { 2000 }) {
        let ht = rng.chance(1, 2);
        let ts = rng.range(0, 8);
        let c = cfg(ht, ts, 100, 80);
        let big = |rng: &mut Rng| if rng.chance(1, 3) { rng.below(5000) } else { rng.below(200) };
        let (b, al) = (big(rng), big(rng));
        string_ops(&mut k, b, al, ht, ts, &c);
        let s = (rng.below(1 << 20), b, rng.below(300), al);
        k.put("shape.to_string_with_newline", &[s.0, s.1, s.2, s.3, ht as usize, ts], p_str(guard(|| hs::to_string_with_newline(s, &c))), true);
        let off = rng.below(4);
        k.put("shape.indent_to_string", &[b, al, off, ht as usize, ts], p_str(guard(|| hs::indent_to_string_inner((b, al), off, &c))), true);
    }
}

/// the arithmetic of one Shape x delta
fn shape_delta_ops(k: &mut Sink<'_>, s: hs::S, d: usize) {
    let a = [s.0, s.1, s.2, s.3, d];
    let nt = d > 0;
    k.put("shape.visual_indent", &a, es(hs::visual_indent(s, d)), nt);
    k.put("shape.block_indent", &a, es(hs::block_indent(s, d)), nt);
    k.put("shape.block_left", &a, r_s(hs::block_left(s, d)), nt);
    k.put("shape.add_offset", &a, es(hs::add_offset(s, d)), nt);
    k.put("shape.saturating_sub_width", &a, es(hs::saturating_sub_width(s, d)), nt);
    k.put("shape.sub_width", &a, r_s(hs::sub_width(s, d)), nt);
    k.put("shape.sub_width_opt", &a, o_s(hs::sub_width_opt(s, d)), nt);
    k.put("shape.shrink_left", &a, r_s(hs::shrink_left(s, d)), nt);
    k.put("shape.shrink_left_opt", &a, o_s(hs::shrink_left_opt(s, d)), nt);
    k.put("shape.offset_left", &a, r_s(hs::offset_left(s, d)), nt);
    k.put("shape.offset_left_opt", &a, o_s(hs::offset_left_opt(s, d)), nt);
}

/// the operations that read one configuration value next to a Shape
fn shape_cfg_ops(k: &mut Sink<'_>, s: hs::S, v: usize, c_mw: &Config, c_cw: &Config) {
    let a = [s.0, s.1, s.2, s.3, v];
    k.put("shape.with_max_width", &a, es(hs::with_max_width(s, c_mw)), true);
    k.put("shape.rhs_overhead", &a, hs::rhs_overhead(s, c_mw).to_string(), true);
    k.put("shape.comment", &a, es(hs::comment(s, c_cw)), true);
}

fn shape_unary_ops(k: &mut Sink<'_>, s: hs::S) {
    let a = [s.0, s.1, s.2, s.3];
    k.put("shape.block", &a, es(hs::block(s)), s.2 > 0);
    k.put("shape.used_width", &a, hs::used_width(s).to_string(), true);
    k.put("shape.infinite_width", &a, es(hs::infinite_width(s)), true);
    k.put("shape.exceeds_max_width_error", &a, hs::exceeds_max_width_error(s).to_string(), true);
}

fn indent_pair_ops(k: &mut Sink<'_>, a: hs::I, b: hs::I) {
    let args = [a.0, a.1, b.0, b.1];
    k.put("shape.indent.add", &args, ei(hs::indent_add(a, b)), true);
    k.put("shape.indent.sub", &args, p_i(guard(|| hs::indent_sub(a, b))), true);
}

fn indent_ops(k: &mut Sink<'_>, a: hs::I) {
    k.put("shape.indent.new", &[a.0, a.1], ei(hs::indent_new(a.0, a.1)), true);
    k.put("shape.indent.block_only", &[a.0, a.1], ei(hs::indent_block_only(a)), a.1 > 0);
    k.put("shape.indent.width", &[a.0, a.1], hs::indent_width(a).to_string(), true);
}

fn indent_n_ops(k: &mut Sink<'_>, a: hs::I, n: usize, c_ts: Option<&Config>, c_mw: &Config) {
    k.put("shape.indent.add_usize", &[a.0, a.1, n], ei(hs::indent_add_usize(a, n)), n > 0);
    k.put("shape.indent.sub_usize", &[a.0, a.1, n], p_i(guard(|| hs::indent_sub_usize(a, n))), n > 0);
    k.put("shape.legacy", &[n, a.0, a.1], es(hs::legacy(n, a)), true);
    k.put("shape.indented", &[a.0, a.1, n], es(hs::indented(a, c_mw)), true);
    if let Some(c) = c_ts {
        k.put("shape.indent.block_indent", &[a.0, a.1, n], ei(hs::indent_block_indent(a, c)), true);
        k.put("shape.indent.block_unindent", &[a.0, a.1, n], p_i(guard(|| hs::indent_block_unindent(a, c))), true);
    }
}

/// Every method of shape.rs against the model.
pub fn shape_cases(o: &mut Outcome, rng: &mut Rng, thorough: bool) {
    indent_string_cases(o, rng, thorough);
    let mut k = Sink { o, desc: "exhaustive" };
    let n4 = 12usize; // operations with at most four numeric arguments
    let n5 = if thorough { 12usize } else { 8 }; // five arguments
    k.put("shape.indent.empty", &[], ei(hs::indent_empty()), true);
    // one configuration per value of the one option an operation reads
    let c_mw: Vec<Config> = (0..=n4).map(|v| cfg(false, 4, v, 80)).collect();
    let c_cw: Vec<Config> = (0..=n4).map(|v| cfg(false, 4, 100, v)).collect();
    let c_ts: Vec<Config> = (0..=8).map(|v| cfg(false, v, 100, 80)).collect();
    for b in 0..=n4 {
        for al in 0..=n4 {
            indent_ops(&mut k, (b, al));
            for n in 0..=n4 {
                indent_n_ops(&mut k, (b, al), n, c_ts.get(n), &c_mw[n]);
            }
            for b2 in 0..=n4 {
                for al2 in 0..=n4 {
                    indent_pair_ops(&mut k, (b, al), (b2, al2));
                }
            }
        }
    }
    for ht in [false, true] {
        for ts in 0..=8usize {
            let c = cfg(ht, ts, 100, 80);
            for w in 0..=40usize {
                k.put("shape.indent.from_width", &[ht as usize, ts, w], p_i(guard(|| hs::indent_from_width(&c, w))), true);
            }
        }
    }
    for w in 0..=n4 {
        for b in 0..=n4 {
            for al in 0..=n4 {
                for off in 0..=n4 {
                    shape_unary_ops(&mut k, (w, b, al, off));
                }
            }
        }
    }
    for w in 0..=n5 {
        for b in 0..=n5 {
            for al in 0..=n5 {
                for off in 0..=n5 {
                    for d in 0..=n5 {
                        shape_delta_ops(&mut k, (w, b, al, off), d);
                        shape_cfg_ops(&mut k, (w, b, al, off), d, &c_mw[d], &c_cw[d]);
                    }
                }
            }
        }
    }
    // random large values: usize arithmetic far from the small domain (no overflow below 2^63)
    k.desc = "random";
    let big = |rng: &mut Rng| -> usize {
        match rng.below(4) {
            0 => rng.below(16),
            1 => rng.below(1000),
            2 => rng.below(1 << 20),
            _ => (rng.next() % (1u64 << 40)) as usize,
        }
    };
    for _ in 0..(if thorough { 60000 } else { 6000 }) {
        let s = (big(rng), big(rng), big(rng), big(rng));
        // deltas near the width exercise both sides of every checked subtraction
        let d = match rng.below(4) { 0 => s.0, 1 => s.0 + 1, 2 => s.0.saturating_sub(1), _ => big(rng) };
        shape_delta_ops(&mut k, s, d);
        shape_unary_ops(&mut k, s);
        let v = match rng.below(3) { 0 => s.1 + s.2, 1 => s.1 + s.3 + s.0, _ => big(rng) };
        let (cm, cc) = (cfg(false, 4, v, 80), cfg(false, 4, 100, v));
        shape_cfg_ops(&mut k, s, v, &cm, &cc);
        let (a, b) = ((s.1, s.2), (big(rng), big(rng)));
        indent_ops(&mut k, a);
        indent_pair_ops(&mut k, a, b);
        indent_pair_ops(&mut k, (a.0.max(b.0), a.1.max(b.1)), (a.0.min(b.0), a.1.min(b.1)));
        let n = match rng.below(3) { 0 => a.1, 1 => a.1 + 1, _ => big(rng) };
        let ts = rng.range(0, 8);
        let ct = cfg(rng.chance(1, 2), ts, 100, 80);
        indent_n_ops(&mut k, a, n, None, &cfg(false, 4, n, 80));
        k.put("shape.indent.block_indent", &[a.0, a.1, ts], ei(hs::indent_block_indent(a, &ct)), true);
        k.put("shape.indent.block_unindent", &[a.0, a.1, ts], p_i(guard(|| hs::indent_block_unindent(a, &ct))), true);
        let ht = rng.chance(1, 2);
        let cf = cfg(ht, ts, 100, 80);
        let w = big(rng);
        k.put("shape.indent.from_width", &[ht as usize, ts, w], p_i(guard(|| hs::indent_from_width(&cf, w))), true);
    }
}
