//! `src/string.rs` (`rewrite_string`, `break_string`, `detect_url`, …) and the comment wrapping that
//! uses it against the Lean model `RF/Model/StringFmt.lean` (driver `RF/Driver/StringFmt.lean`),
//! through `verif_hooks::strings`.  Carries the string-literal part of C01 ("literals keep their value",
//! "re-indentation after string line-continuations"), the word-preservation part of C03 and the
//! re-breaking part of C02.
//!
//! Three kinds of comparison:
//!  * `corr`   model vs code: `str.class`, `str.break`, `str.url`, `str.valid`, `str.trimlf`, `str.rewrite`, and
//!             `str.strip` (the hand-written matcher vs the `regex` crate run on the literal read out of string.rs);
//!  * `oracle` the Lean specifications judge what the real code returned: `str.valeq` (the body of the rewritten
//!             literal denotes the same string), `cmt.payloadeq` / `cmt.refines` (nothing but white space and
//!             decoration differs; words are only ever cut after a punctuation character);
//!  * `assume` `strValue` against `rustc_lexer::unescape` (the specification describes Rust, not rustfmt).
//!
//! Domain of the correspondence: texts in which every grapheme cluster is one `char` on which the model's
//! character classes agree with the code's (checked per run; all of U+0000..U+00FF is an obligation).  Texts
//! outside (wide characters, combining marks, CR LF) are run too and only counted (`outside-domain:*`).
//!
//! Universe: exhaustive over short strings on {a b ␠ ⏎ \ " , . : / h t p} × widths 1..12 × formats × indents,
//! the same behind prefixes that reach `MIN_STRING`, sequences of tokens (URLs, continuations, escapes, runs of
//! blanks), seeded random long texts, and the string literals and comments of the repo's fixtures.
//! END-TO-END: `fn main() { let s = "<text>"; }` and `// <text>` through the real formatter with
//! format_strings / wrap_comments / normalize_comments at widths 20..100, judged by the same Lean oracles.
use std::collections::HashMap;
use std::path::Path;

use rustfmt_nightly::verif_hooks::strings as hs;
use rustfmt_nightly::Config;
use serde_json::json;

use crate::util::*;

const ALPHA: [char; 13] = ['a', 'b', ' ', '\n', '\\', '"', ',', '.', ':', '/', 'h', 't', 'p'];

fn guard<T>(f: impl FnOnce() -> T) -> Option<T> {
    std::panic::catch_unwind(std::panic::AssertUnwindSafe(f)).ok()
}

fn b(x: bool) -> &'static str {
    if x { "1" } else { "0" }
}

/// A `StringFormat` and the call's other arguments as plain data.
#[derive(Clone, Debug)]
pub struct F {
    pub opener: String,
    pub closer: String,
    pub ls: String,
    pub le: String,
    /// width, block_indent, alignment, offset
    pub shape: (usize, usize, usize, usize),
    pub trim: bool,
    pub mw: usize,
    pub ht: bool,
    pub ts: usize,
    pub nm: usize,
}

impl F {
    /// `StringFormat::new(shape, config)` with `newline_max_chars = shape.width - 2` (expr.rs:1342-1346)
    pub fn lit(w: usize, block: usize, align: usize, mw: usize) -> F {
        F { opener: "\"".into(), closer: "\"".into(), ls: " ".into(), le: "\\".into(), shape: (w, block, align, align), trim: false, mw, ht: false, ts: 4, nm: w.saturating_sub(2) }
    }
    /// the format `CommentRewrite::new` builds (comment.rs:628-636) with `newline_max_chars = max_width`
    pub fn cmt(ls: &str, w: usize, block: usize, align: usize, mw: usize) -> F {
        F { opener: "".into(), closer: "".into(), ls: ls.into(), le: "".into(), shape: (w, block, align, align), trim: true, mw, ht: false, ts: 4, nm: w }
    }
    fn plain(&self) -> hs::PlainFormat {
        hs::PlainFormat { opener: self.opener.clone(), closer: self.closer.clone(), line_start: self.ls.clone(), line_end: self.le.clone(), shape: self.shape, trim_end: self.trim }
    }
    fn request(&self, orig: &str) -> String {
        format!(
            "str.rewrite {} {} {} {} {} {} {} {} {} {} {} {} {} {}",
            enc_str(&self.opener), enc_str(&self.closer), enc_str(&self.ls), enc_str(&self.le), self.shape.0, self.shape.1, self.shape.2, self.shape.3,
            b(self.trim), self.mw, b(self.ht), self.ts, self.nm, enc_str(orig)
        )
    }
}

fn mk_cfg(mw: usize, ht: bool, ts: usize) -> Config {
    let mut c = Config::default();
    c.set().max_width(mw);
    c.set().hard_tabs(ht);
    c.set().tab_spaces(ts);
    c
}

/// What the real `rewrite_string` returns, in the model's answer encoding.
fn rewrite_real(f: &F, orig: &str, c: &Config) -> (String, Option<String>) {
    match guard(|| hs::rewrite_string(orig, &f.plain(), c, f.nm)) {
        None => ("panic".into(), None),
        Some(None) => ("none".into(), None),
        Some(Some(s)) => (format!("S:{}", enc_str(&s)), Some(s)),
    }
}

fn break_real(mw: usize, trim: bool, le: &str, input: &str) -> String {
    match guard(|| hs::break_string(mw, trim, le, input)) {
        None => "panic".into(),
        Some((k, line, len)) => format!("{}:{}:{}", k, enc_str(&line), len),
    }
}

/// Which characters the model classifies like the code (`str.class`), asked once per run.
pub struct Domain {
    ok: HashMap<char, bool>,
}

impl Domain {
    pub fn contains(&self, text: &str) -> bool {
        hs::graphemes(text).iter().all(|g| {
            let mut it = g.chars();
            match (it.next(), it.next()) {
                (Some(c), None) => *self.ok.get(&c).unwrap_or(&false),
                _ => false,
            }
        })
    }
}

fn class_real(c: char) -> String {
    let s = c.to_string();
    let (ws, nl, p, x, w) = hs::grapheme_class(&s);
    format!("{}{}{}{}:{}", b(ws), b(nl), b(p), b(x), w)
}

/// Characters used by the generators beyond Latin-1 (narrow letters inside the domain, and wide / combining /
/// punctuation characters that fall outside it).
const EXOTIC: &[char] = &['λ', 'ж', 'ß', 'é', 'ı', 'ñ', '\u{2003}', '\u{3000}', '中', '文', '\u{0301}', '…', '—', '‘', '\u{200B}', '😀', '\u{FE0F}', 'ａ', '。', '、'];

fn domain(o: &mut Outcome) -> Domain {
    let mut chars: Vec<char> = (0u32..0x250).filter_map(char::from_u32).collect();
    chars.extend_from_slice(EXOTIC);
    let reqs: Vec<String> = chars.iter().map(|c| format!("str.class {}", enc_str(&c.to_string()))).collect();
    let answers = run_model(&reqs, 1);
    let mut ok = HashMap::new();
    for ((c, req), a) in chars.iter().zip(reqs.iter()).zip(answers.iter()) {
        let real = class_real(*c);
        let agree = &real == a;
        ok.insert(*c, agree);
        if (*c as u32) < 0x100 {
            // obligation: the model's classes are exact on Latin-1
            o.push("corr", "str.class", req.clone(), real, "latin-1".into(), true);
        } else {
            o.count(if agree { "class:beyond-latin1:agree" } else { "class:beyond-latin1:differ" });
        }
    }
    Domain { ok }
}

/// all strings over `alpha` of length 0..=n
fn all_strings(alpha: &[&str], n: usize) -> Vec<String> {
    let mut res = vec![String::new()];
    let mut layer = vec![String::new()];
    for _ in 0..n {
        let mut next = Vec::with_capacity(layer.len() * alpha.len());
        for s in &layer {
            for a in alpha {
                let mut t = s.clone();
                t.push_str(a);
                next.push(t);
            }
        }
        res.extend(next.iter().cloned());
        layer = next;
    }
    res
}

fn alpha_strs() -> Vec<String> {
    ALPHA.iter().map(|c| c.to_string()).collect()
}

const TOKENS: &[&str] = &[
    "a", "bb", " ", "   ", "\n", "\\", "\\\\", "\\\"", "\\n", ",", ". ", "::", ":", "/", "http://x", "ftp://", "https://a.b/c", "file://", "aaaaaaaaaa", "\\\n   ", "\\\n", "\t", "b,b.b",
];

/// One work item of the rewrite families.
#[derive(Clone)]
struct Item {
    f: F,
    text: String,
    desc: &'static str,
}

/// The formats of the exhaustive families at one width.
fn formats_at(w: usize, thorough: bool) -> Vec<F> {
    let mut v = vec![];
    let indents: &[(usize, usize)] = if thorough { &[(0, 0), (4, 0), (4, 3)] } else { &[(0, 0), (4, 3)] };
    for &(blk, al) in indents {
        // a literal in a page exactly as wide as its shape, and in a wide page
        v.push(F::lit(w, blk, al, blk + al + w));
        v.push(F::lit(w, blk, al, 100));
        v.push(F::cmt("// ", w, blk, al, 100));
        v.push(F::cmt(" * ", w, blk, al, blk + al + w + 3));
        if thorough {
            // the unit tests' format with a visible line end, and a bare-line format (ItemizedBlock's)
            let mut t = F::cmt("// ", w, blk, al, 100);
            t.le = "@".into();
            v.push(t);
            v.push(F::cmt("", w, blk, al, 100));
            let mut u = F::cmt(" * ", w, blk, al, 100);
            u.opener = "/* ".into();
            u.closer = " */".into();
            v.push(u);
        }
    }
    v
}

fn random_text(rng: &mut Rng, exotic: bool) -> String {
    let n = rng.range(1, 14);
    let mut s = String::new();
    for _ in 0..n {
        match rng.below(if exotic { 16 } else { 14 }) {
            0 | 1 | 2 => {
                for _ in 0..rng.range(1, 12) {
                    s.push(*rng.pick(&['a', 'b', 'c', 'x', 'Z', '0', '_', '-', '(', ')', 'é', 'λ']));
                }
            }
            3 | 4 => s.push(' '),
            5 => {
                for _ in 0..rng.range(2, 9) {
                    s.push(' ');
                }
            }
            6 => s.push_str(*rng.pick(&["\\\\", "\\\"", "\\n", "\\t", "\\x41", "\\u{e9}", "\\'", "\\0"])),
            7 => {
                s.push_str("\\\n");
                for _ in 0..rng.below(10) {
                    s.push(' ');
                }
            }
            8 => {
                s.push_str(*rng.pick(&["http://", "https://", "ftp://", "file://"]));
                for _ in 0..rng.range(0, 20) {
                    s.push(*rng.pick(&['a', 'b', '.', '/', '?', '=', '-', '_']));
                }
            }
            9 => s.push_str(*rng.pick(&[",", ".", ", ", ". ", ":", "::", ";", "!", "?", "a::b::c", "/"])),
            10 => s.push('\n'),
            11 => s.push_str(*rng.pick(&["\t", "\r", "\u{a0}", " \n", "\n ", "\n\n"])),
            12 => s.push_str(*rng.pick(&["\"", "'", "#", "%", "&", "*", "@", "¿", "·"])),
            13 => s.push_str(*rng.pick(&["aaaaaaaaaa", "bbbbbbbbbbb ", "cccccccccccc,", "dddddddddd\\"])),
            14 => s.push_str(*rng.pick(&["中文", "e\u{0301}", "\r\n", "😀", "…", "—", "ａ", "\u{3000}", "\u{2003}"])),
            _ => s.push_str(*rng.pick(&["λόγος", "жук", "ñandú"])),
        }
    }
    s
}

fn random_format(rng: &mut Rng) -> F {
    let w = match rng.below(4) {
        0 => rng.range(1, 12),
        1 => rng.range(10, 30),
        _ => rng.range(12, 60),
    };
    let (blk, al) = *rng.pick(&[(0usize, 0usize), (4, 0), (8, 0), (4, 3), (0, 7), (12, 1)]);
    let mw = match rng.below(3) {
        0 => blk + al + w,
        1 => blk + al + w + rng.below(6),
        _ => 100,
    };
    let mut f = match rng.below(6) {
        0 | 1 | 2 => F::lit(w, blk, al, mw),
        3 => F::cmt("// ", w, blk, al, mw),
        4 => F::cmt(*rng.pick(&[" * ", "/// ", "//! ", "", "   ", "> "]), w, blk, al, mw),
        _ => {
            let mut t = F::cmt("// ", w, blk, al, mw);
            t.le = rng.pick(&["@", "\\", ""]).to_string();
            t.trim = rng.chance(1, 2);
            t
        }
    };
    if rng.chance(1, 8) {
        f.ht = true;
        f.ts = *rng.pick(&[1usize, 2, 4, 8]);
    }
    if rng.chance(1, 5) {
        f.nm = rng.range(0, w + 4);
    }
    if rng.chance(1, 10) {
        f.shape.3 = rng.below(6);
    }
    f
}

/// String literals (the text between the quotes) and comments of a source text, by `rustc_lexer`.
pub fn literals_and_comments(src: &str) -> (Vec<String>, Vec<String>) {
    use rustc_lexer::{LiteralKind as LK, TokenKind as K};
    let (mut lits, mut cmts) = (vec![], vec![]);
    let mut pos = 0usize;
    for t in rustc_lexer::tokenize(src) {
        let len = t.len as usize;
        let text = &src[pos..pos + len];
        pos += len;
        match t.kind {
            K::Literal { kind: LK::Str { terminated: true }, suffix_start } => {
                let lit = &text[..suffix_start as usize];
                if lit.len() >= 2 && suffix_start as usize == text.len() {
                    lits.push(lit[1..lit.len() - 1].to_string());
                }
            }
            K::LineComment { .. } | K::BlockComment { terminated: true, .. } => cmts.push(text.to_string()),
            _ => {}
        }
    }
    (lits, cmts)
}

/// The value `rustc` gives a string body (`None` when it has an invalid escape).
fn rustc_value(body: &str) -> Option<String> {
    use rustc_lexer::unescape::{unescape_unicode, Mode};
    let mut out = String::new();
    let mut bad = false;
    unescape_unicode(body, Mode::Str, &mut |_, r| match r {
        Ok(c) => out.push(c),
        Err(e) => {
            if e.is_fatal() {
                bad = true
            }
        }
    });
    if bad { None } else { Some(out) }
}

/// The Lean specifications on what the real `rewrite_string` returned.
fn judge_rewrite(o: &mut Outcome, f: &F, orig: &str, s: &str, desc: &'static str) {
    if f.opener == "\"" && f.closer == "\"" && f.le == "\\" && !f.trim {
        if let Some(body) = s.strip_prefix('"').and_then(|x| x.strip_suffix('"')) {
            o.push("oracle", "str.valeq", format!("str.valeq {} {}", enc_str(orig), enc_str(body)), "ok".into(), desc.into(), s.contains('\n'));
        } else {
            o.direct_failures.push(json!({"sig": "strings:literal-lost-its-quotes", "orig": orig, "out": s}));
        }
    } else if f.trim && f.opener.is_empty() && f.closer.is_empty() && f.le.is_empty() {
        o.push("oracle", "cmt.payloadeq", format!("cmt.payloadeq {} {} {}", enc_str(&f.ls), enc_str(orig), enc_str(s)), "ok".into(), desc.into(), s.contains('\n'));
        o.push("oracle", "cmt.refines", format!("cmt.refines {} {} {}", enc_str(&f.ls), enc_str(orig), enc_str(s)), "ok".into(), desc.into(), s.contains('\n'));
    }
}

/// Reads the regex literal of `rewrite_string` out of string.rs (as the `regex` crate sees it).
fn regex_literal() -> Option<String> {
    let src = std::fs::read_to_string(repo_dir().join("src/string.rs")).ok()?;
    let at = src.find("let strip_line_breaks_re = Regex::new(r\"")?;
    let rest = &src[at + "let strip_line_breaks_re = Regex::new(r\"".len()..];
    let end = rest.find("\").unwrap();")?;
    Some(rest[..end].to_string())
}

pub fn cases(o: &mut Outcome, rng: &mut Rng, thorough: bool) {
    let dom = domain(o);
    let alpha = alpha_strs();
    let alpha_refs: Vec<&str> = alpha.iter().map(|s| s.as_str()).collect();

    // ---- break_string / detect_url / is_valid_linebreak: exhaustive short strings
    let short = all_strings(&alpha_refs, if thorough { 4 } else { 3 });
    let prefixes = ["aaaaaaaaa", "aaaaaaaaaa", "aaaa aaaaaa", "aaaaaaaaaa ", "aaaaaaaaaa,", "aa http://a"];
    let suffixes = ["", "bb b"];
    let mid = all_strings(&alpha_refs, if thorough { 3 } else { 2 });
    let mut padded: Vec<String> = vec![];
    for p in prefixes {
        for m in &mid {
            for s in suffixes {
                padded.push(format!("{}{}{}", p, m, s));
            }
        }
    }
    let toks = all_strings(TOKENS, if thorough { 3 } else { 2 });
    let mut break_inputs: Vec<(&str, &'static str, std::ops::RangeInclusive<usize>)> = vec![];
    for s in &short {
        break_inputs.push((s, "exhaustive-short", 1..=(if thorough { 6 } else { 5 })));
    }
    for s in &padded {
        break_inputs.push((s, "exhaustive-padded", 9..=16));
    }
    for s in &toks {
        break_inputs.push((s, "token-sequences", 1..=1));
    }
    for (s, desc, widths) in break_inputs {
        let n = hs::graphemes(s).len();
        let ws: Vec<usize> = if desc == "token-sequences" { vec![1, 4, 9, 11, 12, 15, 22] } else { widths.collect() };
        for w in ws {
            for trim in [false, true] {
                for le in ["", "\\"] {
                    let ans = break_real(w, trim, le, s);
                    o.count(&format!("break:{}", &ans[..1]));
                    o.push("corr", "str.break", format!("str.break {} {} {} {}", w, b(trim), enc_str(le), enc_str(s)), ans, desc.into(), n > w);
                }
            }
        }
        if desc != "exhaustive-short" || n <= 3 {
            for idx in 0..n.min(24) {
                let u = match guard(|| hs::detect_url(s, idx)) {
                    None => "panic".to_string(),
                    Some(None) => "none".to_string(),
                    Some(Some(k)) => k.to_string(),
                };
                o.count(&format!("url:{}", if u == "none" || u == "panic" { u.as_str() } else { "some" }));
                o.push("corr", "str.url", format!("str.url {} {}", enc_str(s), idx), u, desc.into(), true);
                o.push("corr", "str.valid", format!("str.valid {} {}", enc_str(s), idx), b(hs::is_valid_linebreak(s, idx)).into(), desc.into(), true);
            }
        }
        for trim in [false, true] {
            o.push("corr", "str.trimlf", format!("str.trimlf {} {}", b(trim), enc_str(s)), enc_str(&hs::trim_end_but_line_feed(trim, s)), desc.into(), trim);
        }
    }

    // ---- the regex: the `regex` crate on the literal of string.rs vs the hand-written matcher
    match regex_literal().and_then(|l| regex::Regex::new(&l).ok()) {
        None => o.direct_failures.push(json!({"sig": "strings:regex-literal-not-found", "what": "src/string.rs no longer has `let strip_line_breaks_re = Regex::new(r\"…\").unwrap();`"})),
        Some(re) => {
            let strip_alpha = ["a", " ", "\n", "\r", "\\", "\t", "\u{b}", "\u{c}", "\""];
            for s in all_strings(&strip_alpha, if thorough { 6 } else { 5 }) {
                o.push("corr", "str.strip", format!("str.strip {}", enc_str(&s)), enc_str(&re.replace_all(&s, "$1")), "exhaustive".into(), s.contains('\\'));
            }
            for s in toks.iter().chain(padded.iter()) {
                o.push("corr", "str.strip", format!("str.strip {}", enc_str(s)), enc_str(&re.replace_all(s, "$1")), "tokens".into(), s.contains('\\'));
            }
        }
    }

    // ---- rewrite_string
    let mut items: Vec<Item> = vec![];
    for w in 1..=12usize {
        for f in formats_at(w, thorough) {
            for s in &short {
                if thorough || s.chars().count() <= 3 {
                    items.push(Item { f: f.clone(), text: s.clone(), desc: "exhaustive-short" });
                }
            }
        }
    }
    for w in [9usize, 11, 12, 13, 14, 16] {
        for f in formats_at(w, false) {
            for s in &padded {
                if thorough || s.len() % 3 == w % 3 {
                    items.push(Item { f: f.clone(), text: s.clone(), desc: "exhaustive-padded" });
                }
            }
        }
    }
    for w in [3usize, 9, 12, 15, 24] {
        for f in formats_at(w, false) {
            for s in &toks {
                if thorough || s.len() % 2 == w % 2 {
                    items.push(Item { f: f.clone(), text: s.clone(), desc: "token-sequences" });
                }
            }
        }
    }
    for _ in 0..(if thorough { 60000 } else { 6000 }) {
        let f = random_format(rng);
        let text = random_text(rng, false);
        items.push(Item { f, text, desc: "random" });
    }
    for _ in 0..(if thorough { 6000 } else { 800 }) {
        let f = random_format(rng);
        let text = random_text(rng, true);
        items.push(Item { f, text, desc: "random-exotic" });
    }
    // fixtures: string literals and the text of comments
    let progs = crate::corpus::programs(&["tests/source", "tests/target", "src"]);
    let mut lits: Vec<String> = vec![];
    let mut cmts: Vec<String> = vec![];
    for p in &progs {
        let (l, c) = literals_and_comments(&p.src);
        lits.extend(l);
        cmts.extend(c);
    }
    lits.sort();
    lits.dedup();
    cmts.sort();
    cmts.dedup();
    o.count_n("fixtures:string-literals", lits.len() as u64);
    o.count_n("fixtures:comments", cmts.len() as u64);
    let lit_widths: &[usize] = if thorough { &[8, 12, 16, 20, 27, 40, 60, 80] } else { &[12, 27, 60] };
    for (i, l) in lits.iter().enumerate() {
        if l.len() < 6 || (!thorough && i % 3 != (rng.0 % 3) as usize) {
            continue;
        }
        for &w in lit_widths {
            items.push(Item { f: F::lit(w, 4, 9, 4 + 9 + w), text: l.clone(), desc: "fixture-literal" });
        }
    }
    for (i, c) in cmts.iter().enumerate() {
        if !thorough && i % 6 != (rng.0 % 6) as usize {
            continue;
        }
        // the text of a line comment / each line of a block comment as `rewrite_comment_inner` hands it over
        for line in c.lines() {
            let t = line.trim_start().trim_start_matches('/').trim_start_matches('*').trim_start_matches('!').trim();
            if t.len() < 10 {
                continue;
            }
            for &w in lit_widths {
                items.push(Item { f: F::cmt("// ", w, 4, 0, 100), text: t.to_string(), desc: "fixture-comment-line" });
            }
        }
    }
    o.count_n("rewrite:items", items.len() as u64);
    // the real code, in parallel (every call compiles the regex); results in order
    let reals: Vec<(String, Option<String>)> = par_map(&items, |it| {
        let c = mk_cfg(it.f.mw, it.f.ht, it.f.ts);
        rewrite_real(&it.f, &it.text, &c)
    });
    let mut outside: Vec<(String, String)> = vec![];
    for (it, (answer, real)) in items.iter().zip(reals.into_iter()) {
        let req = it.f.request(&it.text);
        match answer.as_str() {
            "none" => o.count("rewrite:none"),
            "panic" => o.count("rewrite:panic"),
            _ => o.count(if real.as_ref().map(|s| s.contains('\n')).unwrap_or(false) { "rewrite:some:broken" } else { "rewrite:some:one-line" }),
        }
        if dom.contains(&it.text) {
            o.push("corr", "str.rewrite", req, answer, it.desc.into(), true);
        } else {
            outside.push((req, answer));
        }
        if let Some(s) = real {
            if dom.contains(&it.text) {
                judge_rewrite(o, &it.f, &it.text, &s, it.desc);
            }
        }
    }
    // outside the domain of the model: measured, not an obligation
    let reqs: Vec<String> = outside.iter().map(|x| x.0.clone()).collect();
    let answers = run_model(&reqs, jobs());
    for ((_, real), model) in outside.iter().zip(answers.iter()) {
        o.count(if real == model { "outside-domain:rewrite:agree" } else { "outside-domain:rewrite:differ" });
    }

    // ---- the specification `strValue` against rustc's own unescaping
    let bodies: Vec<&String> = toks.iter().chain(lits.iter()).filter(|s| rustc_value(s).is_some()).collect();
    let reqs: Vec<String> = bodies.iter().map(|s| format!("str.value {}", enc_str(s))).collect();
    let answers = run_model(&reqs, jobs());
    for (body, a) in bodies.iter().zip(answers.iter()) {
        o.direct_evals += 1;
        let v1 = rustc_value(body);
        let v2 = dec_str(a).and_then(|t| rustc_value(&t));
        if v1 != v2 {
            o.direct_failures.push(json!({"sig": "strings:strValue-disagrees-with-rustc", "body": body, "strValue": a, "rustc": v1, "rustc-of-strValue": v2}));
        }
        if body.contains("\\\n") {
            o.direct_distinct += 1;
        }
    }
}

/// `rfverif strings`: the standalone run of this module.
pub fn run(tier: &str, seed: u64, out: &Path) -> i32 {
    let thorough = tier == "thorough";
    let mut o = Outcome::new("STRINGS", tier, seed);
    let mut rng = Rng::new(seed);
    std::panic::set_hook(Box::new(|_| {}));
    cases(&mut o, &mut rng, thorough);
    // debugging aid: STRINGS_DUMP=<file> writes every failing comparison (the result file keeps three per op)
    if let Ok(path) = std::env::var("STRINGS_DUMP") {
        let reqs: Vec<String> = o.cases.iter().map(|c| c.request.clone()).collect();
        let answers = run_model(&reqs, jobs());
        let mut text = String::new();
        for (c, a) in o.cases.iter().zip(answers.iter()) {
            if a != &c.expect {
                text.push_str(&format!("{}\t{}\t{}\t{}\t{}\n", c.kind, c.desc, c.request, c.expect, a));
            }
        }
        let _ = std::fs::write(path, text);
    }
    o.finish(out, jobs())
}
