import RF.Model.Session
/-! Lemmas about `RF.Session` (C15; reused by C05 for the multi-root statements). -/
namespace RF.Lemmas.Session
open RF.Session

variable {κ ι ρ : Type}

/-! ### flags -/

theorem add_none (a : Flags) : a.add Flags.none = a := by
  cases a; simp [Flags.add, Flags.none]

theorem none_add (a : Flags) : Flags.none.add a = a := by
  cases a; simp [Flags.add, Flags.none]

theorem add_assoc (a b c : Flags) : (a.add b).add c = a.add (b.add c) := by
  cases a; cases b; cases c; simp [Flags.add, Bool.or_assoc]

theorem add_comm (a b : Flags) : a.add b = b.add a := by
  cases a; cases b; simp [Flags.add, Bool.or_comm]

theorem add_self (a : Flags) : a.add a = a := by
  cases a; simp [Flags.add]

theorem le_add (a b : Flags) : a.le (a.add b) = true := by
  have h : ∀ x y : Bool, (!x || (x || y)) = true := by decide
  cases a; cases b; simp [Flags.le, Flags.add, h]

theorem le_refl (a : Flags) : a.le a = true := by
  cases a; simp [Flags.le]

theorem le_trans {a b c : Flags} (h1 : a.le b = true) (h2 : b.le c = true) : a.le c = true := by
  cases a; cases b; cases c
  simp only [Flags.le, Bool.and_eq_true, Bool.or_eq_true, Bool.not_eq_true'] at *
  grind

theorem addOperational_eq (s : Session κ) :
    s.addOperational = { s with errors := s.errors.add { operational := true } } := by
  cases s with | mk c e => cases e; simp [Session.addOperational, Flags.add]

theorem exitFormat_add (check : Bool) (a b : Flags) :
    exitFormat check (a.add b) = max (exitFormat check a) (exitFormat check b) := by
  cases a; cases b; cases check <;> simp only [exitFormat, Flags.add] <;> grind

theorem exitFormat_le_one (check : Bool) (a : Flags) : exitFormat check a ≤ 1 := by
  unfold exitFormat; split <;> omega

theorem exitFormat_none (check : Bool) : exitFormat check Flags.none = 0 := by
  cases check <;> rfl

/-! ### one input: the output is a function of (config, input) only -/

/-- What `Session::format` returns for input `i` under configuration `c`: no session in sight. -/
def outOf (F : Config κ → ι → ρ × Option Flags) (c : Config κ) (i : ι) : Out ρ :=
  if !c.versionOk then ⟨none, none⟩
  else if c.disableAll then ⟨none, some Flags.none⟩
  else ⟨some (F c i).1, (F c i).2⟩

/-- the flags `format_and_emit_report` ORs into the session for an output -/
def outFlags (o : Out ρ) : Flags :=
  match o.report with
  | some fl => fl
  | none => { operational := true }

theorem formatInput_snd (F : Config κ → ι → ρ × Option Flags) (s : Session κ) (i : ι) :
    (formatInput F s i).2 = outOf F s.config i := by
  unfold formatInput outOf
  split
  · rfl
  · split
    · rfl
    · split <;> simp_all

theorem formatInput_fst (F : Config κ → ι → ρ × Option Flags) (s : Session κ) (i : ι) :
    (formatInput F s i).1 =
      { s with errors := s.errors.add (((outOf F s.config i).report).getD Flags.none) } := by
  unfold formatInput outOf
  split
  · simp [add_none]
  · split
    · simp [add_none]
    · split <;> simp_all [add_none]

theorem formatAndEmitReport_snd (F : Config κ → ι → ρ × Option Flags) (s : Session κ) (i : ι) :
    (formatAndEmitReport F s i).2 = outOf F s.config i := by
  have h := formatInput_snd F s i
  unfold formatAndEmitReport
  split
  rename_i s' o heq
  rw [heq] at h
  simp only at h
  subst h
  split <;> rfl

theorem formatAndEmitReport_fst (F : Config κ → ι → ρ × Option Flags) (s : Session κ) (i : ι) :
    (formatAndEmitReport F s i).1 =
      { s with errors := s.errors.add (outFlags (outOf F s.config i)) } := by
  have h1 := formatInput_fst F s i
  have h2 := formatInput_snd F s i
  unfold formatAndEmitReport
  split
  rename_i s' o heq
  rw [heq] at h1 h2
  simp only at h1 h2
  subst h2
  subst h1
  unfold outFlags
  cases hr : (outOf F s.config i).report with
  | none => simp [addOperational_eq, add_none]
  | some fl => simp

/-! ### the command-line loop -/

/-- What the loop body records for one path: a function of the global configuration and the path. -/
def argOut (F : Config κ → ι → ρ × Option Flags) (g : Config κ) (usePath : Bool) :
    Arg κ ι → Option (Entry ρ)
  | .missing => some .missing
  | .file lc i =>
    if usePath then some (.formatted (outOf F g i))
    else match lc with
      | none => none
      | some c => some (.formatted (outOf F c i))

theorem entry_flags_formatted (o : Out ρ) : (Entry.formatted o).flags = outFlags o := rfl

theorem argStep_eq (F : Config κ → ι → ρ × Option Flags) (usePath : Bool) (s : Session κ) (a : Arg κ ι) :
    argStep F usePath s a =
      (argOut F s.config usePath a).map fun e => ({ s with errors := s.errors.add e.flags }, e) := by
  cases a with
  | missing => simp [argStep, argOut, addOperational_eq, Entry.flags]
  | file lc i =>
    cases usePath with
    | true =>
      simp [argStep, argOut, formatAndEmitReport_fst, formatAndEmitReport_snd, entry_flags_formatted]
    | false =>
      cases lc with
      | none => simp [argStep, argOut]
      | some c =>
        simp [argStep, argOut, overrideConfig, formatAndEmitReport_fst, formatAndEmitReport_snd,
          entry_flags_formatted]

/-- The loop without a session: entries up to the first failing `load_config`, and whether one failed. -/
def pureLoop (F : Config κ → ι → ρ × Option Flags) (g : Config κ) (usePath : Bool) :
    List (Arg κ ι) → List (Entry ρ) × Bool
  | [] => ([], false)
  | a :: rest =>
    match argOut F g usePath a with
    | none => ([], true)
    | some e => (e :: (pureLoop F g usePath rest).1, (pureLoop F g usePath rest).2)

def sumFlags (es : List (Entry ρ)) : Flags := es.foldr (fun e acc => e.flags.add acc) Flags.none

theorem cliLoop_eq (F : Config κ → ι → ρ × Option Flags) (usePath : Bool) (args : List (Arg κ ι)) :
    ∀ s : Session κ,
      (cliLoop F usePath s args).entries = (pureLoop F s.config usePath args).1 ∧
      (cliLoop F usePath s args).aborted = (pureLoop F s.config usePath args).2 ∧
      (cliLoop F usePath s args).sess =
        { s with errors := s.errors.add (sumFlags (pureLoop F s.config usePath args).1) } := by
  induction args with
  | nil => intro s; simp [cliLoop, pureLoop, sumFlags, add_none]
  | cons a rest ih =>
    intro s
    unfold cliLoop pureLoop
    rw [argStep_eq]
    cases h : argOut F s.config usePath a with
    | none => simp [sumFlags, add_none]
    | some e =>
      simp only [Option.map_some]
      have := ih { s with errors := s.errors.add e.flags }
      simp only at this
      obtain ⟨h1, h2, h3⟩ := this
      refine ⟨by simp [h1], by simp [h2], ?_⟩
      simp [h3, sumFlags, add_assoc]

theorem pureLoop_single (F : Config κ → ι → ρ × Option Flags) (g : Config κ) (usePath : Bool) (a : Arg κ ι) :
    pureLoop F g usePath [a] =
      match argOut F g usePath a with
      | none => ([], true)
      | some e => ([e], false) := by
  simp only [pureLoop]

/-- entry `i` of the loop is what the loop records for `args[i]` alone -/
theorem pureLoop_getElem (F : Config κ → ι → ρ × Option Flags) (g : Config κ) (usePath : Bool) :
    ∀ (args : List (Arg κ ι)) (i : Nat) (e : Entry ρ),
      (pureLoop F g usePath args).1[i]? = some e →
      ∃ a, args[i]? = some a ∧ argOut F g usePath a = some e := by
  intro args
  induction args with
  | nil => intro i e h; simp [pureLoop] at h
  | cons a rest ih =>
    intro i e h
    simp only [pureLoop] at h
    cases ha : argOut F g usePath a with
    | none => simp [ha] at h
    | some e0 =>
      simp only [ha] at h
      cases i with
      | zero => simp at h; exact ⟨a, by simp, by rw [ha, h]⟩
      | succ n =>
        simp only [List.getElem?_cons_succ] at h
        obtain ⟨a', h1, h2⟩ := ih n e h
        exact ⟨a', by simpa using h1, h2⟩

theorem pureLoop_length (F : Config κ → ι → ρ × Option Flags) (g : Config κ) (usePath : Bool) :
    ∀ (args : List (Arg κ ι)),
      ((pureLoop F g usePath args).2 = false ∧ (pureLoop F g usePath args).1.length = args.length) ∨
      ((pureLoop F g usePath args).2 = true ∧
        ∃ a, args[(pureLoop F g usePath args).1.length]? = some a ∧ argOut F g usePath a = none) := by
  intro args
  induction args with
  | nil => simp [pureLoop]
  | cons a rest ih =>
    simp only [pureLoop]
    cases ha : argOut F g usePath a with
    | none => simp [ha]
    | some e0 =>
      simp only [List.length_cons, List.getElem?_cons_succ]
      rcases ih with ⟨h1, h2⟩ | ⟨h1, h2⟩
      · left; simp [h1, h2]
      · right; exact ⟨h1, h2⟩

/-- no path fails to load its configuration -/
def noAbort (F : Config κ → ι → ρ × Option Flags) (g : Config κ) (usePath : Bool) (args : List (Arg κ ι)) : Prop :=
  ∀ a ∈ args, argOut F g usePath a ≠ none

theorem pureLoop_noAbort (F : Config κ → ι → ρ × Option Flags) (g : Config κ) (usePath : Bool) :
    ∀ (args : List (Arg κ ι)), noAbort F g usePath args →
      (pureLoop F g usePath args).1 = args.filterMap (argOut F g usePath) ∧
      (pureLoop F g usePath args).2 = false := by
  intro args
  induction args with
  | nil => intro _; simp [pureLoop]
  | cons a rest ih =>
    intro h
    have ha : argOut F g usePath a ≠ none := h a (by simp)
    have hr : noAbort F g usePath rest := fun x hx => h x (by simp [hx])
    obtain ⟨h1, h2⟩ := ih hr
    simp only [pureLoop]
    cases hao : argOut F g usePath a with
    | none => exact absurd hao ha
    | some e => simp [hao, h1, h2]

/-- exit status of a finished or aborted loop from its pure description -/
def pureExit (check : Bool) (r : List (Entry ρ) × Bool) : Nat :=
  if r.2 then 1 else exitFormat check (sumFlags r.1)

theorem exit_eq_pure (F : Config κ → ι → ρ × Option Flags) (g : Config κ) (usePath check : Bool)
    (args : List (Arg κ ι)) :
    (runCli F g usePath args).exit check = pureExit check (pureLoop F g usePath args) := by
  obtain ⟨_, h2, h3⟩ := cliLoop_eq F usePath args (Session.new g)
  simp only [Session.new] at h2 h3
  simp only [Run.exit, runCli, pureExit, Session.new, h2, h3, none_add]

theorem pureExit_le_one (check : Bool) (r : List (Entry ρ) × Bool) : pureExit check r ≤ 1 := by
  unfold pureExit; split
  · omega
  · exact exitFormat_le_one _ _

theorem pureExit_cons (F : Config κ → ι → ρ × Option Flags) (g : Config κ) (usePath check : Bool)
    (a : Arg κ ι) (rest : List (Arg κ ι)) :
    pureExit check (pureLoop F g usePath (a :: rest)) =
      max (pureExit check (pureLoop F g usePath [a])) (pureExit check (pureLoop F g usePath rest)) := by
  have hle := pureExit_le_one check (pureLoop F g usePath rest)
  simp only [pureExit] at hle
  rw [pureLoop_single]
  simp only [pureLoop]
  cases ha : argOut F g usePath a with
  | none => simp only [pureExit]; simp; omega
  | some e =>
    simp only [pureExit]
    by_cases hb : (pureLoop F g usePath rest).2 = true
    · simp only [hb, if_true]
      have := exitFormat_le_one check (sumFlags [e])
      simp; omega
    · simp only [hb]
      simp only [sumFlags, List.foldr_cons, List.foldr_nil, add_none, exitFormat_add]
      simp

theorem exit_is_max (F : Config κ → ι → ρ × Option Flags) (g : Config κ) (usePath check : Bool) :
    ∀ (args : List (Arg κ ι)),
      pureExit check (pureLoop F g usePath args) =
        (args.map fun a => pureExit check (pureLoop F g usePath [a])).foldr max 0 := by
  intro args
  induction args with
  | nil => simp [pureLoop, pureExit, sumFlags, exitFormat_none]
  | cons a rest ih =>
    rw [pureExit_cons, ih]
    simp

theorem foldr_max_perm {l l' : List Nat} (h : l.Perm l') : l.foldr max 0 = l'.foldr max 0 := by
  induction h with
  | nil => rfl
  | cons x _ ih => simp [ih]
  | swap x y l => simp only [List.foldr_cons]; omega
  | trans _ _ ih1 ih2 => exact ih1.trans ih2

/-! ### an API session -/

theorem formatAll_eq (F : Config κ → ι → ρ × Option Flags) (inputs : List ι) :
    ∀ s : Session κ,
      (formatAll F s inputs).2 = inputs.map (outOf F s.config) ∧
      (formatAll F s inputs).1.config = s.config ∧
      s.errors.le (formatAll F s inputs).1.errors = true := by
  induction inputs with
  | nil => intro s; simp [formatAll, le_refl]
  | cons i rest ih =>
    intro s
    have h1 := formatInput_fst F s i
    have h2 := formatInput_snd F s i
    unfold formatAll
    split
    rename_i s' o heq
    rw [heq] at h1 h2
    simp only at h1 h2
    have := ih s'
    split
    rename_i s'' os heq'
    rw [heq'] at this
    simp only at this
    obtain ⟨a, b, c⟩ := this
    subst h1
    refine ⟨by simp [h2, a], by simp [b], ?_⟩
    exact le_trans (le_add _ _) c

/-! ### prefixes of the command line -/

theorem pureLoop_append (F : Config κ → ι → ρ × Option Flags) (g : Config κ) (usePath : Bool)
    (l1 l2 : List (Arg κ ι)) (h : (pureLoop F g usePath l1).2 = false) :
    pureLoop F g usePath (l1 ++ l2) =
      ((pureLoop F g usePath l1).1 ++ (pureLoop F g usePath l2).1, (pureLoop F g usePath l2).2) := by
  induction l1 with
  | nil => simp [pureLoop]
  | cons a rest ih =>
    simp only [pureLoop, List.cons_append] at h ⊢
    cases ha : argOut F g usePath a with
    | none => simp [ha] at h
    | some e =>
      simp only [ha] at h ⊢
      rw [ih h]
      simp

/-- If nothing before position `i` aborts, entry `i` is the entry of the run on `args[i]` alone. -/
theorem pureLoop_frame (F : Config κ → ι → ρ × Option Flags) (g : Config κ) (usePath : Bool)
    (args : List (Arg κ ι)) (i : Nat) (a : Arg κ ι) (ha : args[i]? = some a)
    (h : (pureLoop F g usePath (args.take i)).2 = false) :
    (pureLoop F g usePath args).1[i]? = (pureLoop F g usePath [a]).1[0]? := by
  have hi : i < args.length := by
    rcases Nat.lt_or_ge i args.length with h' | h'
    · exact h'
    · rw [List.getElem?_eq_none h'] at ha; cases ha
  have hsplit : args = args.take i ++ a :: args.drop (i + 1) := by
    have h1 : args.drop i = a :: args.drop (i + 1) := by
      rw [List.drop_eq_getElem_cons hi]
      congr 1
      rw [List.getElem?_eq_getElem hi] at ha
      exact Option.some.inj ha
    rw [← h1, List.take_append_drop]
  have hlen : (pureLoop F g usePath (args.take i)).1.length = i := by
    rcases pureLoop_length F g usePath (args.take i) with ⟨_, h2⟩ | ⟨h1, _⟩
    · rw [h2, List.length_take]; omega
    · rw [h] at h1; cases h1
  rw [hsplit, pureLoop_append _ _ _ _ _ h]
  simp only
  rw [List.getElem?_append_right (by omega), hlen, Nat.sub_self, pureLoop_single]
  simp only [pureLoop]
  cases argOut F g usePath a <;> simp

/-- A path whose configuration fails to load: the loop is aborted and records nothing for it or after it. -/
theorem pureLoop_abort (F : Config κ → ι → ρ × Option Flags) (g : Config κ) (usePath : Bool) :
    ∀ (args : List (Arg κ ι)) (i : Nat) (a : Arg κ ι), args[i]? = some a → argOut F g usePath a = none →
      (pureLoop F g usePath args).1.length ≤ i ∧ (pureLoop F g usePath args).2 = true := by
  intro args
  induction args with
  | nil => intro i a h; simp at h
  | cons b rest ih =>
    intro i a ha hn
    simp only [pureLoop]
    cases i with
    | zero =>
      simp only [List.getElem?_cons_zero, Option.some.injEq] at ha
      subst ha
      simp [hn]
    | succ n =>
      simp only [List.getElem?_cons_succ] at ha
      cases hb : argOut F g usePath b with
      | none => simp
      | some e =>
        obtain ⟨h1, h2⟩ := ih n a ha hn
        simp only [List.length_cons]
        exact ⟨by omega, h2⟩

theorem foldr_max_ge {l : List Nat} {x : Nat} (h : x ∈ l) : x ≤ l.foldr max 0 := by
  induction l with
  | nil => cases h
  | cons y r ih =>
    simp only [List.mem_cons] at h
    simp only [List.foldr_cons]
    rcases h with h | h
    · subst h; omega
    · have := ih h; omega

theorem foldr_max_le_one {l : List Nat} (h : ∀ x ∈ l, x ≤ 1) : l.foldr max 0 ≤ 1 := by
  induction l with
  | nil => simp
  | cons y r ih =>
    simp only [List.foldr_cons]
    have h1 := h y (by simp)
    have h2 := ih (fun x hx => h x (by simp [hx]))
    omega

/-- a run is 1 as soon as the run on one of its paths alone is 1 -/
theorem pureExit_one_of_mem (F : Config κ → ι → ρ × Option Flags) (g : Config κ) (usePath check : Bool)
    (args : List (Arg κ ι)) (a : Arg κ ι) (ha : a ∈ args)
    (h1 : pureExit check (pureLoop F g usePath [a]) = 1) :
    pureExit check (pureLoop F g usePath args) = 1 := by
  have hle := pureExit_le_one check (pureLoop F g usePath args)
  rw [exit_is_max] at hle ⊢
  have : pureExit check (pureLoop F g usePath [a]) ≤
      (args.map fun a => pureExit check (pureLoop F g usePath [a])).foldr max 0 :=
    foldr_max_ge (List.mem_map.2 ⟨a, ha, rfl⟩)
  omega

end RF.Lemmas.Session
