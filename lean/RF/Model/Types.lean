import RF.Model.TokEquiv
/-!
TYPES — the COMPOSITION LOGIC of the type / bound / where-predicate rewriters of `src/types.rs`
(not the layout heuristics).

A rewriter of `types.rs` builds its text from pieces: fixed tokens (`&`, `mut`, `dyn`, `for<`, `>`,
`+`, `->` …) and the texts returned by sub-rewrites (`ty.rewrite_result(context, shape)?`, …).  Whether
a sub-rewrite returns a text depends on the shape (width, indent) and on a web of layout heuristics;
what the model keeps of all that is one bit per sub-rewrite CALL: did it return a text.  That bit is
read from an oracle `fits : Piece → Bool`, where a `Piece` is the position of the call (path of child
indices from the root; a second attempt of the same child at another shape has its own index), so
that every combination of outcomes the heuristics can produce is one oracle.  The output is a TOKEN
list (class + text as `rustc_lexer` gives them, `RF.Tok.Tok`): white space is what the heuristics decide,
tokens are what the composition decides.

* `canonTy` / `canonBounds` / `canonParams` / `canonPred` — the tree's own token list (the canonical printing).
* `rwTy` / … / `rwPred` — the rewriters; result `none` = the rewrite failed (the caller keeps the
  source text), `some ts` = the tokens of the returned text.
* `Env.pinned = true` is the code as it was before the repair of `rewrite_bound_params` (which returned
  `None` both for "no parameter" and for "a parameter could not be rewritten"; four callers took `None` for
  "no binder"); `pinned = false` is the code that exists now.
* `Env.abi` is `force_explicit_abi` (`format_extern`; the ABI spelling is one of C01's normalisations and
  is part of the canonical printing here).

What is modelled, by function of `src/types.rs`:
  `rewrite_path` / `rewrite_path_segments` / `rewrite_segment` (global `::`, qself `<T as Tr>::`, the
  turbofish `::` only in expression position), `rewrite_generic_args` (`<…>` dropped when empty,
  `(A, B) -> C`, `(..)`), `SegmentParam` (lifetime, type, const in braces or bare, `Item = T`, `Item: Bound`
  with their own generic args), `format_function_type`, `WherePredicate` (binder, bounded type, `:`,
  bounds through `rewrite_assign_rhs`: same line or next line; lifetime and equality predicates),
  `rewrite_bounded_lifetime`, `GenericBound` (parenthesised trait bound, `use<…>`, outlives),
  `GenericBounds`, `join_bounds` / `join_bounds_inner` (first pass, retry with `force_newline`),
  `GenericParam` (lifetime with bounds, type with bounds and default, const with type and default),
  `PolyTraitRef` (binder, `const` / `~const`, `async`, `?` / `!`, the path), `Ty` (`TraitObject`, `Ptr`,
  `Ref`, `Paren` with its two attempts, `Slice`, `Tup`, `Path`, `Array`, `Infer`, `BareFn`, `Never`,
  `ImplTrait`, `Pat`, `UnsafeBinder`), `rewrite_bare_fn`, `rewrite_bound_params`.
Left out: comments between the pieces (`combine_strs_with_missing_comments`), attributes of generic
parameters and where predicates, the `+` re-added to `dyn Tr +` inside a macro call, `PinnedRef`,
`MacCall`, `Typeof`, `CVarArgs` other than as the last parameter of a bare fn, associated CONST
equality (`N = 3`).
-/
namespace RF.Types
open RF.Tok

abbrev Name := List Char
abbrev Toks := List Tok
/-- A piece = the position of a sub-rewrite call: child indices from the root. -/
abbrev Piece := List Nat

def tI (s : Name) : Tok := ⟨['i'], s⟩
/-- a lifetime; the text includes the quote -/
def tL (s : Name) : Tok := ⟨['l'], s⟩
def tP (c : Char) : Tok := mkP c
def kw (s : String) : Tok := ⟨['i'], s.toList⟩
def arrow : Toks := [tP '-', tP '>']
def colon2 : Toks := [tP ':', tP ':']
def comma : Toks := [tP ',']
def plus : Toks := [tP '+']

def sepBy (sep : Toks) : List Toks → Toks
  | [] => []
  | [x] => x
  | x :: y :: r => x ++ sep ++ sepBy sep (y :: r)

/-- `ast::Extern` -/
inductive Ext where
  | none
  | implicit
  | explicit (abi : Name)
deriving DecidableEq, Repr

mutual
inductive Ty where
  | path (global : Bool) (segs : Segs)
  /-- `<q as tr>::rest` (`tr` empty: `<q>::rest`) -/
  | qpath (q : Ty) (trGlobal : Bool) (tr : Segs) (rest : Segs)
  | ref (lt : Option Name) (mutbl : Bool) (t : Ty)
  | ptr (mutbl : Bool) (t : Ty)
  | never
  | infer
  | tup (ts : Tys)
  | paren (t : Ty)
  | array (t : Ty) (len : Tok)
  | slice (t : Ty)
  | implTrait (bs : Bounds)
  /-- `dyn`: 0 = no keyword, 1 = `dyn`, 2 = `dyn*` -/
  | traitObj (dyn : Nat) (bs : Bounds)
  | bareFn (binder : Params) (isUnsafe : Bool) (ext : Ext) (args : FnArgs) (variadic : Bool) (ret : OptTy)
  | unsafeBinder (binder : Params) (t : Ty)
  /-- `t is lo..hi` / `t is lo..=hi` -/
  | pat (t : Ty) (lo : Option Tok) (incl : Bool) (hi : Option Tok)
inductive OptTy where
  | none
  | some (t : Ty)
inductive Tys where
  | nil
  | cons (t : Ty) (rest : Tys)
/-- path segments, each with its generic arguments -/
inductive Segs where
  | nil
  | plain (name : Name) (rest : Segs)
  | angle (name : Name) (args : GArgs) (rest : Segs)
  | fn (name : Name) (inputs : Tys) (ret : OptTy) (rest : Segs)
  | elided (name : Name) (rest : Segs)
/-- `AngleBracketedArg`s -/
inductive GArgs where
  | nil
  | lt (n : Name) (rest : GArgs)
  | ty (t : Ty) (rest : GArgs)
  | const (braces : Bool) (v : Tok) (rest : GArgs)
  | assocEq (name : Name) (gargs : GArgs) (t : Ty) (rest : GArgs)
  | assocBound (name : Name) (gargs : GArgs) (bs : Bounds) (rest : GArgs)
/-- `GenericBound`s; `constness`: 0 none, 1 `const`, 2 `~const`; `pol`: 0 none, 1 `?`, 2 `!` -/
inductive Bounds where
  | nil
  | trait (paren : Bool) (binder : Params) (constness : Nat) (async : Bool) (pol : Nat) (global : Bool)
      (path : Segs) (rest : Bounds)
  | outlives (lt : Name) (rest : Bounds)
  | use (args : List Tok) (rest : Bounds)
/-- `GenericParam`s (of a binder, or of an item) -/
inductive Params where
  | nil
  | lifetime (n : Name) (bounds : List Name) (rest : Params)
  | type (n : Name) (bs : Bounds) (default : OptTy) (rest : Params)
  | const (n : Name) (t : Ty) (default : Option Tok) (rest : Params)
/-- the parameters of a bare fn type -/
inductive FnArgs where
  | nil
  | cons (name : Option Name) (t : Ty) (rest : FnArgs)
end

/-- `ast::WherePredicate` -/
inductive Pred where
  | bound (binder : Params) (t : Ty) (bs : Bounds)
  | region (lt : Name) (bounds : List Name)
  | eq (l r : Ty)

def Bounds.isNil : Bounds → Bool
  | .nil => true
  | _ => false

/-! ## Fixed pieces -/

def optTok : Option Tok → Toks
  | some t => [t]
  | none => []

/-- `format_extern` -/
def externToks (abi : Bool) : Ext → Toks
  | .none => []
  | .implicit => if abi then [kw "extern", ⟨['L', 's'], "\"C\"".toList⟩] else [kw "extern"]
  | .explicit a =>
    if a == ['C'] && !abi then [kw "extern"] else [kw "extern", ⟨['L', 's'], ['"'] ++ a ++ ['"']⟩]

def dynToks (d : Nat) : Toks :=
  if d == 0 then [] else if d == 1 then [kw "dyn"] else [kw "dyn", tP '*']

def constToks (c : Nat) : Toks :=
  if c == 0 then [] else if c == 1 then [kw "const"] else [tP '~', kw "const"]

def polToks (p : Nat) : Toks :=
  if p == 0 then [] else if p == 1 then [tP '?'] else [tP '!']

/-- `for<…> ` / nothing when there is no parameter -/
def binderToks (items : List Toks) : Toks :=
  if items.isEmpty then [] else [kw "for", tP '<'] ++ sepBy comma items ++ [tP '>']

/-- `<…>` / `::<…>` / nothing when there is no argument (`rewrite_generic_args`, `rewrite_segment`) -/
def angleToks (expr : Bool) (items : List Toks) : Toks :=
  if items.isEmpty then [] else (if expr then colon2 else []) ++ [tP '<'] ++ sepBy comma items ++ [tP '>']

def wrapParen (b : Bool) (ts : Toks) : Toks := if b then [mkO '('] ++ ts ++ [mkC ')'] else ts

def ltBoundsToks (bs : List Name) : Toks :=
  if bs.isEmpty then [] else [tP ':'] ++ sepBy plus (bs.map fun b => [tL b])

def useToks (args : List Tok) : Toks :=
  [kw "use", tP '<'] ++ sepBy comma (args.map fun t => [t]) ++ [tP '>']

def rangeToks (lo : Option Tok) (incl : Bool) (hi : Option Tok) : Toks :=
  optTok lo ++ [tP '.', tP '.'] ++ (if incl then [tP '='] else []) ++ optTok hi

def tupToks (items : List Toks) : Toks :=
  [mkO '('] ++ sepBy comma items ++ (if items.length == 1 then comma else []) ++ [mkC ')']

def fnTypeToks (items : List Toks) (variadic : Bool) (ret : Toks) : Toks :=
  [mkO '('] ++ sepBy comma (items ++ if variadic then [[tP '.', tP '.', tP '.']] else []) ++ [mkC ')'] ++ ret

def wrapBrace (b : Bool) (ts : Toks) : Toks := if b then [mkO '{'] ++ ts ++ [mkC '}'] else ts

/-- `GenericParam`: the `:` and the bounds are written when there is a bound -/
def boundsAfterColon (none : Bool) (joined : Toks) : Toks :=
  if none then [] else [tP ':'] ++ joined

/-! ## The canonical printing -/

mutual
def canonTy (abi : Bool) : Ty → Toks
  | .path g segs => (if g then colon2 else []) ++ sepBy colon2 (canonSegs abi false segs)
  | .qpath q tg tr rest =>
    [tP '<'] ++ canonTy abi q
      ++ (if (canonSegs abi false tr).isEmpty then []
          else [kw "as"] ++ (if tg then colon2 else []) ++ sepBy colon2 (canonSegs abi false tr))
      ++ [tP '>'] ++ colon2 ++ sepBy colon2 (canonSegs abi false rest)
  | .ref lt m t => [tP '&'] ++ (optTok (lt.map tL)) ++ (if m then [kw "mut"] else []) ++ canonTy abi t
  | .ptr m t => [tP '*', kw (if m then "mut" else "const")] ++ canonTy abi t
  | .never => [tP '!']
  | .infer => [kw "_"]
  | .tup ts => tupToks (canonTys abi ts)
  | .paren t => [mkO '('] ++ canonTy abi t ++ [mkC ')']
  | .array t n => [mkO '['] ++ canonTy abi t ++ [tP ';', n] ++ [mkC ']']
  | .slice t => [mkO '['] ++ canonTy abi t ++ [mkC ']']
  | .implTrait bs => [kw "impl"] ++ sepBy plus (canonBounds abi bs)
  | .traitObj d bs => dynToks d ++ sepBy plus (canonBounds abi bs)
  | .bareFn b u e args v ret =>
    binderToks (canonParams abi b) ++ (if u then [kw "unsafe"] else []) ++ externToks abi e ++ [kw "fn"]
      ++ fnTypeToks (canonFnArgs abi args) v (canonOptTy abi arrow ret)
  | .unsafeBinder b t =>
    [kw "unsafe", tP '<'] ++ sepBy comma (canonParams abi b) ++ [tP '>'] ++ canonTy abi t
  | .pat t lo incl hi => canonTy abi t ++ [kw "is"] ++ rangeToks lo incl hi
def canonOptTy (abi : Bool) (pre : Toks) : OptTy → Toks
  | .none => []
  | .some t => pre ++ canonTy abi t
def canonTys (abi : Bool) : Tys → List Toks
  | .nil => []
  | .cons t r => canonTy abi t :: canonTys abi r
def canonSegs (abi : Bool) (expr : Bool) : Segs → List Toks
  | .nil => []
  | .plain n r => [tI n] :: canonSegs abi expr r
  | .angle n args r => ([tI n] ++ angleToks expr (canonGArgs abi args)) :: canonSegs abi expr r
  | .fn n ins ret r =>
    ([tI n] ++ fnTypeToks (canonTys abi ins) false (canonOptTy abi arrow ret)) :: canonSegs abi expr r
  | .elided n r => [tI n, mkO '(', tP '.', tP '.', mkC ')'] :: canonSegs abi expr r
def canonGArgs (abi : Bool) : GArgs → List Toks
  | .nil => []
  | .lt n r => [tL n] :: canonGArgs abi r
  | .ty t r => canonTy abi t :: canonGArgs abi r
  | .const b v r => wrapBrace b [v] :: canonGArgs abi r
  | .assocEq n ga t r =>
    ([tI n] ++ angleToks false (canonGArgs abi ga) ++ [tP '='] ++ canonTy abi t) :: canonGArgs abi r
  | .assocBound n ga bs r =>
    ([tI n] ++ angleToks false (canonGArgs abi ga) ++ [tP ':'] ++ sepBy plus (canonBounds abi bs))
      :: canonGArgs abi r
def canonBounds (abi : Bool) : Bounds → List Toks
  | .nil => []
  | .trait paren b c a pol g path r =>
    wrapParen paren (binderToks (canonParams abi b) ++ constToks c ++ (if a then [kw "async"] else [])
      ++ polToks pol ++ (if g then colon2 else []) ++ sepBy colon2 (canonSegs abi false path))
      :: canonBounds abi r
  | .outlives n r => [tL n] :: canonBounds abi r
  | .use args r => useToks args :: canonBounds abi r
def canonParams (abi : Bool) : Params → List Toks
  | .nil => []
  | .lifetime n bs r => ([tL n] ++ ltBoundsToks bs) :: canonParams abi r
  | .type n bs d r =>
    ([tI n] ++ boundsAfterColon bs.isNil (sepBy plus (canonBounds abi bs)) ++ canonOptTy abi [tP '='] d) :: canonParams abi r
  | .const n t d r =>
    ([kw "const", tI n, tP ':'] ++ canonTy abi t ++ (match d with | some v => [tP '=', v] | none => []))
      :: canonParams abi r
def canonFnArgs (abi : Bool) : FnArgs → List Toks
  | .nil => []
  | .cons name t r =>
    ((match name with | some n => [tI n, tP ':'] | none => []) ++ canonTy abi t) :: canonFnArgs abi r
end

def canonPred (abi : Bool) : Pred → Toks
  | .bound b t bs => binderToks (canonParams abi b) ++ canonTy abi t ++ [tP ':'] ++ sepBy plus (canonBounds abi bs)
  | .region lt bs => [tL lt] ++ ltBoundsToks bs
  | .eq l r => canonTy abi l ++ [tP '='] ++ canonTy abi r

/-! ## The rewriters -/

structure Env where
  /-- the code before the repair of `rewrite_bound_params` -/
  pinned : Bool
  /-- `force_explicit_abi` -/
  abi : Bool
  /-- did the sub-rewrite at this position return a text (for a decision between two layouts: was the
  first one taken) -/
  fits : Piece → Bool

/-- a step that can fail for lack of room (`shape.offset_left(..)?`, `checked_sub(..)?`, `write_list(..)?`, …) -/
def att {α : Type} (b : Bool) (o : Option α) : Option α := if b then o else none

/-- Two attempts at the same piece at different shapes; which one is taken when both succeed is a
layout decision (`choose_rhs`, the last item of an overflowing list, `TyKind::Paren`). -/
def pick {α : Type} (first : Bool) (a b : Option α) : Option α :=
  match a, b with
  | some x, some y => some (if first then x else y)
  | some x, none => some x
  | none, some y => some y
  | none, none => none

/-- `rewrite_bound_params` and what its callers do with the answer: the binder tokens (`[]` = no
binder).  Before the repair a parameter that could not be rewritten gave `None`, read as "no binder". -/
def binderPre (pinned : Bool) (open_ : Toks) (items : Option (List Toks)) : Option Toks :=
  match items with
  | some is => some (if is.isEmpty then [] else open_ ++ sepBy comma is ++ [tP '>'])
  | none => if pinned then some [] else none

/-- The binder of `TyKind::UnsafeBinder`: `unsafe<> ` when there is no parameter, else as for `for<…>`. -/
def unsafePre (pinned : Bool) (items : Option (List Toks)) : Option Toks :=
  match items with
  | some is => some ([kw "unsafe", tP '<'] ++ sepBy comma is ++ [tP '>'])
  | none => if pinned then some [] else none

/-- `join_bounds_inner`: one pass over the items; when the result is not taken as it is (too wide, or
multi-line), a second pass with `force_newline` whose result is final. -/
def joinB (first : Option (List Toks)) (keep : Bool) (second : Option (List Toks)) : Option Toks :=
  match first with
  | none => none
  | some a => if keep then some (sepBy plus a) else second.map (sepBy plus)

mutual
def rwTy (e : Env) (p : Piece) : Ty → Option Toks
  | .path g segs => att (e.fits p) do
      let items ← rwSegs e (p ++ [0]) 0 false segs
      pure ((if g then colon2 else []) ++ sepBy colon2 items)
  | .qpath q tg tr rest => att (e.fits p) do
      let qs ← rwTy e (p ++ [0]) q
      let trs ← rwSegs e (p ++ [1]) 0 false tr
      let rs ← rwSegs e (p ++ [2]) 0 false rest
      pure ([tP '<'] ++ qs
        ++ (if trs.isEmpty then [] else [kw "as"] ++ (if tg then colon2 else []) ++ sepBy colon2 trs)
        ++ [tP '>'] ++ colon2 ++ sepBy colon2 rs)
  | .ref lt m t => att (e.fits p) do
      let ts ← rwTy e (p ++ [0]) t
      pure ([tP '&'] ++ (optTok (lt.map tL)) ++ (if m then [kw "mut"] else []) ++ ts)
  | .ptr m t => att (e.fits p) do
      let ts ← rwTy e (p ++ [0]) t
      pure ([tP '*', kw (if m then "mut" else "const")] ++ ts)
  | .never => some [tP '!']
  | .infer => att (e.fits p) (some [kw "_"])
  | .tup ts => att (e.fits p) do
      let items ← rwTys e (p ++ [0]) 0 ts
      pure (tupToks items)
  | .paren t =>
      -- first attempt on one line (`sub_width_opt(2)`, kept when it has no line break), second in a block
      (pick (e.fits (p ++ [2])) (att (e.fits (p ++ [3])) (rwTy e (p ++ [0]) t)) (rwTy e (p ++ [1]) t)).map
        fun ts => [mkO '('] ++ ts ++ [mkC ')']
  | .array t n => att (e.fits p) do
      let ts ← rwTy e (p ++ [0]) t
      pure ([mkO '['] ++ ts ++ [tP ';', n] ++ [mkC ']'])
  | .slice t => att (e.fits p) do
      let ts ← rwTy e (p ++ [0]) t
      pure ([mkO '['] ++ ts ++ [mkC ']'])
  | .implTrait bs => do
      let b ← joinB (rwBounds e (p ++ [0]) 0 bs) (e.fits (p ++ [2])) (rwBounds e (p ++ [1]) 0 bs)
      pure ([kw "impl"] ++ b)
  | .traitObj d bs => att (e.fits p) do
      let b ← joinB (rwBounds e (p ++ [0]) 0 bs) (e.fits (p ++ [2])) (rwBounds e (p ++ [1]) 0 bs)
      pure (dynToks d ++ b)
  | .bareFn b u ex args v ret => do
      let bt ← binderPre e.pinned [kw "for", tP '<'] (rwParams e (p ++ [0]) 0 b)
      att (e.fits p) do
        let r ← rwOptTy e (p ++ [2]) arrow ret
        let items ← rwFnArgs e (p ++ [1]) 0 args
        pure (bt ++ (if u then [kw "unsafe"] else []) ++ externToks e.abi ex ++ [kw "fn"] ++ fnTypeToks items v r)
  | .unsafeBinder b t => do
      -- `unsafe<> ` is written when there is no parameter; otherwise as for `for<…>`
      let bt ← unsafePre e.pinned (rwParams e (p ++ [0]) 0 b)
      att (e.fits p) do
        let ts ← rwTy e (p ++ [1]) t
        pure (bt ++ ts)
  | .pat t lo incl hi => do
      let ts ← rwTy e (p ++ [0]) t
      att (e.fits (p ++ [1])) (some (ts ++ [kw "is"] ++ rangeToks lo incl hi))
def rwOptTy (e : Env) (p : Piece) (pre : Toks) : OptTy → Option Toks
  | .none => some []
  | .some t => do
      let ts ← rwTy e p t
      pure (pre ++ ts)
def rwTys (e : Env) (p : Piece) (i : Nat) : Tys → Option (List Toks)
  | .nil => some []
  | .cons t r => do
      -- an item of an overflowing list may be tried at a second shape (`try_overflow_last_item`)
      let a ← pick (e.fits (p ++ [i, 2])) (rwTy e (p ++ [i, 0]) t) (rwTy e (p ++ [i, 1]) t)
      let b ← rwTys e p (i + 1) r
      pure (a :: b)
def rwSegs (e : Env) (p : Piece) (i : Nat) (expr : Bool) : Segs → Option (List Toks)
  | .nil => some []
  | .plain n r => att (e.fits (p ++ [i])) do
      let b ← rwSegs e p (i + 1) expr r
      pure ([tI n] :: b)
  | .angle n args r => att (e.fits (p ++ [i])) do
      let items ← att (e.fits (p ++ [i, 0])) (rwGArgs e (p ++ [i, 0]) 0 args)
      let b ← rwSegs e p (i + 1) expr r
      pure (([tI n] ++ angleToks expr items) :: b)
  | .fn n ins ret r => att (e.fits (p ++ [i])) do
      let rt ← rwOptTy e (p ++ [i, 1]) arrow ret
      let items ← rwTysPlain e (p ++ [i, 0]) 0 ins
      let b ← rwSegs e p (i + 1) expr r
      pure (([tI n] ++ fnTypeToks items false rt) :: b)
  | .elided n r => att (e.fits (p ++ [i])) do
      let b ← rwSegs e p (i + 1) expr r
      pure ([tI n, mkO '(', tP '.', tP '.', mkC ')'] :: b)
/-- the inputs of `Fn(A, B) -> C` (`format_function_type`: `write_list`, one attempt per item) -/
def rwTysPlain (e : Env) (p : Piece) (i : Nat) : Tys → Option (List Toks)
  | .nil => some []
  | .cons t r => do
      let a ← rwTy e (p ++ [i]) t
      let b ← rwTysPlain e p (i + 1) r
      pure (a :: b)
def rwGArgs (e : Env) (p : Piece) (i : Nat) : GArgs → Option (List Toks)
  | .nil => some []
  | .lt n r => do
      let b ← rwGArgs e p (i + 1) r
      pure ([tL n] :: b)
  | .ty t r => do
      let a ← pick (e.fits (p ++ [i, 2])) (rwTy e (p ++ [i, 0]) t) (rwTy e (p ++ [i, 1]) t)
      let b ← rwGArgs e p (i + 1) r
      pure (a :: b)
  | .const br v r => att (e.fits (p ++ [i])) do
      let b ← rwGArgs e p (i + 1) r
      pure (wrapBrace br [v] :: b)
  | .assocEq n ga t r => att (e.fits (p ++ [i])) do
      let gs ← att (e.fits (p ++ [i, 0])) (rwGArgs e (p ++ [i, 0]) 0 ga)
      let ts ← rwTy e (p ++ [i, 1]) t
      let b ← rwGArgs e p (i + 1) r
      pure (([tI n] ++ angleToks false gs ++ [tP '='] ++ ts) :: b)
  | .assocBound n ga bs r => att (e.fits (p ++ [i])) do
      let gs ← att (e.fits (p ++ [i, 0])) (rwGArgs e (p ++ [i, 0]) 0 ga)
      let bt ← joinB (rwBounds e (p ++ [i, 1]) 0 bs) (e.fits (p ++ [i, 3])) (rwBounds e (p ++ [i, 2]) 0 bs)
      let b ← rwGArgs e p (i + 1) r
      pure (([tI n] ++ angleToks false gs ++ [tP ':'] ++ bt) :: b)
def rwBounds (e : Env) (p : Piece) (i : Nat) : Bounds → Option (List Toks)
  | .nil => some []
  | .trait paren b c a pol g path r => do
      -- `PolyTraitRef`: binder, modifiers, the path
      let bt ← binderPre e.pinned [kw "for", tP '<'] (rwParams e (p ++ [i, 0]) 0 b)
      let item ← att (e.fits (p ++ [i])) do
        let ps ← rwSegs e (p ++ [i, 1]) 0 false path
        pure (wrapParen paren (bt ++ constToks c ++ (if a then [kw "async"] else []) ++ polToks pol
          ++ (if g then colon2 else []) ++ sepBy colon2 ps))
      let rest ← rwBounds e p (i + 1) r
      pure (item :: rest)
  | .outlives n r => do
      let rest ← rwBounds e p (i + 1) r
      pure ([tL n] :: rest)
  | .use args r => do
      let item ← att (e.fits (p ++ [i])) (some (useToks args))
      let rest ← rwBounds e p (i + 1) r
      pure (item :: rest)
def rwParams (e : Env) (p : Piece) (i : Nat) : Params → Option (List Toks)
  | .nil => some []
  | .lifetime n bs r => do
      -- cannot fail: `Lifetime::rewrite_result` is a snippet, `join_bounds` of outlives bounds has no failing step
      let rest ← rwParams e p (i + 1) r
      pure (([tL n] ++ ltBoundsToks bs) :: rest)
  | .type n bs d r => do
      let item ← att (e.fits (p ++ [i])) do
        let bt ← joinB (rwBounds e (p ++ [i, 0]) 0 bs) (e.fits (p ++ [i, 2])) (rwBounds e (p ++ [i, 1]) 0 bs)
        let dt ← rwOptTy e (p ++ [i, 3]) [tP '='] d
        pure ([tI n] ++ boundsAfterColon bs.isNil bt ++ dt)
      let rest ← rwParams e p (i + 1) r
      pure (item :: rest)
  | .const n t d r => do
      let item ← att (e.fits (p ++ [i])) do
        let ts ← rwTy e (p ++ [i, 0]) t
        pure ([kw "const", tI n, tP ':'] ++ ts ++ (match d with | some v => [tP '=', v] | none => []))
      let rest ← rwParams e p (i + 1) r
      pure (item :: rest)
def rwFnArgs (e : Env) (p : Piece) (i : Nat) : FnArgs → Option (List Toks)
  | .nil => some []
  | .cons name t r => do
      let ts ← rwTy e (p ++ [i]) t
      let rest ← rwFnArgs e p (i + 1) r
      pure (((match name with | some n => [tI n, tP ':'] | none => []) ++ ts) :: rest)
end

/-- `impl Rewrite for ast::GenericBounds` (empty: the empty text) -/
def rwBoundsJoined (e : Env) (p : Piece) (bs : Bounds) : Option Toks :=
  joinB (rwBounds e (p ++ [0]) 0 bs) (e.fits (p ++ [2])) (rwBounds e (p ++ [1]) 0 bs)

/-- `impl Rewrite for ast::WherePredicate` (without attributes) -/
def rwPred (e : Env) (p : Piece) : Pred → Option Toks
  | .bound b t bs => do
      let ts ← rwTy e (p ++ [0]) t
      let bt ← binderPre e.pinned [kw "for", tP '<'] (rwParams e (p ++ [1]) 0 b)
      -- `rewrite_assign_rhs`: the bounds behind the `:` on the same line, or on the next one
      let rhs ← pick (e.fits (p ++ [4])) (rwBoundsJoined e (p ++ [2]) bs) (rwBoundsJoined e (p ++ [3]) bs)
      pure (bt ++ ts ++ [tP ':'] ++ rhs)
  | .region lt bs => att (e.fits p) (some ([tL lt] ++ ltBoundsToks bs))
  | .eq l r => do
      let ls ← rwTy e (p ++ [0]) l
      let rs ← pick (e.fits (p ++ [3])) (rwTy e (p ++ [1]) r) (rwTy e (p ++ [2]) r)
      pure (ls ++ [tP '='] ++ rs)

/-! ## Trees whose binders hold lifetimes only

`for<'a, 'b: 'a>` is all stable Rust has.  A lifetime parameter cannot fail to rewrite (see `rwParams`), so on
these trees `rewrite_bound_params` never met its own ambiguity. -/

mutual
def lbTy : Ty → Bool
  | .path _ s => lbSegs s
  | .qpath q _ tr rest => lbTy q && lbSegs tr && lbSegs rest
  | .ref _ _ t => lbTy t
  | .ptr _ t => lbTy t
  | .never => true
  | .infer => true
  | .tup ts => lbTys ts
  | .paren t => lbTy t
  | .array t _ => lbTy t
  | .slice t => lbTy t
  | .implTrait bs => lbBounds bs
  | .traitObj _ bs => lbBounds bs
  | .bareFn b _ _ args _ ret => lbParams b && lbFnArgs args && lbOptTy ret
  | .unsafeBinder b t => lbParams b && lbTy t
  | .pat t _ _ _ => lbTy t
def lbOptTy : OptTy → Bool
  | .none => true
  | .some t => lbTy t
def lbTys : Tys → Bool
  | .nil => true
  | .cons t r => lbTy t && lbTys r
def lbSegs : Segs → Bool
  | .nil => true
  | .plain _ r => lbSegs r
  | .angle _ a r => lbGArgs a && lbSegs r
  | .fn _ i o r => lbTys i && lbOptTy o && lbSegs r
  | .elided _ r => lbSegs r
def lbGArgs : GArgs → Bool
  | .nil => true
  | .lt _ r => lbGArgs r
  | .ty t r => lbTy t && lbGArgs r
  | .const _ _ r => lbGArgs r
  | .assocEq _ g t r => lbGArgs g && lbTy t && lbGArgs r
  | .assocBound _ g b r => lbGArgs g && lbBounds b && lbGArgs r
def lbBounds : Bounds → Bool
  | .nil => true
  | .trait _ b _ _ _ _ path r => lbParams b && lbSegs path && lbBounds r
  | .outlives _ r => lbBounds r
  | .use _ r => lbBounds r
/-- every parameter of the binder is a lifetime -/
def lbParams : Params → Bool
  | .nil => true
  | .lifetime _ _ r => lbParams r
  | .type .. => false
  | .const .. => false
def lbFnArgs : FnArgs → Bool
  | .nil => true
  | .cons _ t r => lbTy t && lbFnArgs r
end

def lbPred : Pred → Bool
  | .bound b t bs => lbParams b && lbTy t && lbBounds bs
  | .region .. => true
  | .eq l r => lbTy l && lbTy r

/-- The trailing `,` of a generic list laid out vertically (`<\n    A,\n>`): an optional trailing
separator.  The judge removes it on both sides before C01's validator runs, because the validator takes
angle brackets for operators and would count that `,` as a second element of an enclosing 1-tuple. -/
def dropCommaGt : Toks → Toks
  | [] => []
  | [a] => [a]
  | a :: b :: r => if a.isP ',' && b.isP '>' then dropCommaGt (b :: r) else a :: dropCommaGt (b :: r)

/-- An oracle from a list of failing pieces. -/
def failing (bad : List Piece) : Piece → Bool := fun p => !bad.contains p

end RF.Types
