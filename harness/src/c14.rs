//! C14 — configuration resolution: correspondence of RF/Model/Config.lean with the real code
//! (library API in child processes, see c14child.rs, and the `rustfmt` binary), and an end-to-end
//! oracle on the binary: every file is formatted with the configuration the MODEL resolves for it.
use std::collections::{BTreeMap, BTreeSet, HashMap};
use std::path::{Component, Path, PathBuf};
use std::process::Command;
use std::time::Duration;

use rustfmt_nightly::Config;
use serde_json::{json, Value};

use crate::c14child::{run_children, ApiOpts, Kind, Schema, OPAQUE};
use crate::cli;
use crate::util::*;

// ------------------------------------------------------------------------------------------------
// encodings

pub fn enc_dir(p: &Path) -> String {
    let comps: Vec<String> = p
        .components()
        .filter_map(|c| match c {
            Component::Normal(s) => Some(enc_str(&s.to_string_lossy())),
            _ => None,
        })
        .collect();
    if comps.is_empty() { "/".into() } else { comps.iter().map(|c| format!("/{}", c)).collect() }
}

/// an absolute config-file path as the model prints it (`dir:dotted` / `dir:plain`)
fn enc_cfg_file(p: &Path) -> String {
    let name = p.file_name().map(|n| n.to_string_lossy().into_owned()).unwrap_or_default();
    let dir = p.parent().unwrap_or(Path::new("/"));
    match name.as_str() {
        ".rustfmt.toml" => format!("{}:dotted", enc_dir(dir)),
        "rustfmt.toml" => format!("{}:plain", enc_dir(dir)),
        // another name: the `rustfmt.toml` of the pseudo-directory (see Layout::extra)
        _ => format!("{}:plain", enc_dir(p)),
    }
}

fn enc_opt_file(p: Option<&str>) -> String {
    match p {
        Some(p) => enc_cfg_file(Path::new(p)),
        None => "none".into(),
    }
}

/// One option value in its three spellings.
#[derive(Clone, Debug)]
struct Tv {
    key: String,
    /// right-hand side in a rustfmt.toml
    toml: String,
    /// value text after `--config key=` / for `override_value` / the API setter; None: not expressible
    cli: Option<String>,
    /// the line-protocol value
    model: String,
}

impl Tv {
    fn pair(&self) -> String {
        format!("{}={}", self.key, self.model)
    }
}

fn pk<'a>(rng: &mut Rng, xs: &[&'a str]) -> &'a str {
    xs[rng.below(xs.len())]
}

fn pairs_model(v: &[Tv]) -> String {
    if v.is_empty() { "_".into() } else { v.iter().map(|t| t.pair()).collect::<Vec<_>>().join(",") }
}

fn toml_text(v: &[Tv]) -> String {
    v.iter().map(|t| format!("{} = {}\n", t.key, t.toml)).collect()
}

struct Ctx {
    s: Schema,
    /// canonical spellings of the valid values of every enum-valued option
    enums: BTreeMap<String, Vec<String>>,
    bin: PathBuf,
    work: PathBuf,
    empty_home: PathBuf,
    neutral: PathBuf,
    jobs: usize,
}

impl Ctx {
    /// a value given in canonical spelling (`spelling` = what is written, may differ in case)
    fn tv_spelled(&self, key: &str, canonical: &str, spelling: &str) -> Tv {
        let model = self.s.enc_val(key, canonical);
        match self.s.kind_of(key) {
            Kind::Nat | Kind::Bool => Tv { key: key.into(), toml: spelling.into(), cli: Some(spelling.into()), model },
            Kind::Str => match key {
                "ignore" => {
                    let (toml, m) = if canonical == "default()" { ("[]".to_string(), canonical.to_string()) } else { (format!("[\"{}\"]", canonical), canonical.to_string()) };
                    Tv { key: key.into(), toml, cli: None, model: self.s.enc_val(key, &m) }
                }
                "skip_macro_invocations" => {
                    let toml = if canonical == "default()" { "[]".to_string() } else { format!("[\"{}\"]", canonical) };
                    Tv { key: key.into(), toml: toml.clone(), cli: Some(toml), model }
                }
                _ => Tv { key: key.into(), toml: format!("\"{}\"", spelling), cli: Some(spelling.into()), model },
            },
        }
    }
    fn tv(&self, key: &str, canonical: &str) -> Tv {
        self.tv_spelled(key, canonical, canonical)
    }
}

/// identifiers that may be variant names: every capitalised word and every `#[value = "…"]` string of
/// the config sources; what is a valid value of which option is decided by `Config::is_valid_key_val`.
fn enum_universe() -> Vec<String> {
    let mut set = BTreeSet::new();
    for f in ["src/config/options.rs", "src/config/lists.rs", "src/config/macro_names.rs", "src/config/file_lines.rs"] {
        let text = std::fs::read_to_string(repo_dir().join(f)).unwrap_or_default();
        let b = text.as_bytes();
        let mut i = 0;
        while i < b.len() {
            if b[i].is_ascii_uppercase() && (i == 0 || !(b[i - 1].is_ascii_alphanumeric() || b[i - 1] == b'_')) {
                let mut j = i;
                while j < b.len() && (b[j].is_ascii_alphanumeric() || b[j] == b'_') {
                    j += 1;
                }
                set.insert(text[i..j].to_string());
                i = j;
            } else if b[i] == b'"' {
                let mut j = i + 1;
                while j < b.len() && b[j] != b'"' && b[j] != b'\n' {
                    j += 1;
                }
                if j < b.len() && b[j] == b'"' && j - i < 24 && text[i + 1..j].chars().all(|c| c.is_ascii_alphanumeric()) && j > i + 1 {
                    set.insert(text[i + 1..j].to_string());
                }
                i = j + 1;
            } else {
                i += 1;
            }
        }
    }
    // fall-back when the sources cannot be read: the variants of the pinned tree
    for w in ["Auto", "Native", "Unix", "Windows", "Visual", "Block", "Off", "Max", "Default", "2015", "2018", "2021", "2024", "2027", "One", "Two", "Always", "Never", "Preserve", "Crate", "Module", "Item", "Tall", "Compressed", "Vertical"] {
        set.insert(w.to_string());
    }
    set.into_iter().collect()
}

fn enum_values(s: &Schema) -> BTreeMap<String, Vec<String>> {
    let uni = enum_universe();
    let mut m = BTreeMap::new();
    for k in &s.names {
        if s.kind_of(k) != Kind::Str || OPAQUE.contains(&k.as_str()) {
            continue;
        }
        let mut vals: Vec<String> = vec![];
        for w in &uni {
            if Config::is_valid_key_val(k, w) {
                // canonical spelling = the Display of the parsed value
                let mut c = Config::default();
                if c.verif_set(false, k, w) {
                    if let Some(e) = c.verif_dump().into_iter().find(|e| e.0 == k.as_str()) {
                        if !vals.contains(&e.1) {
                            vals.push(e.1);
                        }
                    }
                }
            }
        }
        m.insert(k.clone(), vals);
    }
    m
}

// ------------------------------------------------------------------------------------------------
// directory layouts

#[derive(Clone, Copy, PartialEq, Debug)]
enum Slot {
    Absent,
    /// a config file with the content of this index
    File(usize),
    Empty,
    /// a DIRECTORY of that name
    Dir,
}

impl Slot {
    fn is_file(&self) -> bool {
        matches!(self, Slot::File(_) | Slot::Empty)
    }
    fn word(&self) -> &'static str {
        match self {
            Slot::Absent => "absent",
            Slot::File(_) => "file",
            Slot::Empty => "empty",
            Slot::Dir => "dir",
        }
    }
}

#[derive(Clone, Debug)]
struct DirSpec {
    path: PathBuf,
    dotted: Slot,
    plain: Slot,
}

#[derive(Clone, Debug)]
struct Layout {
    root: PathBuf,
    dirs: Vec<DirSpec>,
    contents: Vec<Vec<Tv>>,
    /// value of HOME (the directory need not exist)
    home: PathBuf,
    /// value of XDG_CONFIG_HOME (None: unset; a relative value is ignored by `dirs`)
    xdg: Option<String>,
    /// (absolute path, index of the probe source)
    sources: Vec<(PathBuf, usize)>,
    /// config files with some other name (reachable through --config-path only): (path, content).
    /// The model knows two file names; such a file is handed to it as the `rustfmt.toml` of a
    /// pseudo-directory named like the file (the model never looks at names of `--config-path`).
    extra: Vec<(PathBuf, usize)>,
}

impl Layout {
    /// `dirs::config_dir()` on Linux: $XDG_CONFIG_HOME when absolute, else $HOME/.config
    fn config_dir(&self) -> PathBuf {
        match &self.xdg {
            Some(x) if Path::new(x).is_absolute() => PathBuf::from(x),
            _ => self.home.join(".config"),
        }
    }
    fn dir(&self, p: &Path) -> Option<&DirSpec> {
        self.dirs.iter().find(|d| d.path == p)
    }
    fn add_dir(&mut self, p: &Path) -> usize {
        if let Some(i) = self.dirs.iter().position(|d| d.path == p) {
            return i;
        }
        self.dirs.push(DirSpec { path: p.to_path_buf(), dotted: Slot::Absent, plain: Slot::Absent });
        self.dirs.len() - 1
    }
    fn materialise(&self) {
        let _ = std::fs::remove_dir_all(&self.root);
        std::fs::create_dir_all(&self.root).expect("layout root");
        for d in &self.dirs {
            std::fs::create_dir_all(&d.path).expect("layout dir");
            for (name, slot) in [(".rustfmt.toml", d.dotted), ("rustfmt.toml", d.plain)] {
                let p = d.path.join(name);
                match slot {
                    Slot::Absent => {}
                    Slot::Empty => std::fs::write(&p, b"").expect("config file"),
                    Slot::File(i) => std::fs::write(&p, toml_text(&self.contents[i])).expect("config file"),
                    Slot::Dir => std::fs::create_dir_all(&p).expect("config dir"),
                }
            }
        }
        for (p, si) in &self.sources {
            std::fs::write(p, PROBE_SOURCES[*si % PROBE_SOURCES.len()]).expect("source");
        }
        for (p, ci) in &self.extra {
            std::fs::create_dir_all(p.parent().unwrap()).expect("extra dir");
            std::fs::write(p, toml_text(&self.contents[*ci])).expect("extra config file");
        }
    }
    fn model_tree(&self) -> String {
        if self.dirs.is_empty() && self.extra.is_empty() {
            return "_".into();
        }
        let mut v: Vec<String> = self.dirs.iter().map(|d| format!("{}:{}:{}", enc_dir(&d.path), d.dotted.is_file() as u8, d.plain.is_file() as u8)).collect();
        v.extend(self.extra.iter().map(|(p, _)| format!("{}:0:1", enc_dir(p))));
        v.join(";")
    }
    fn model_contents(&self) -> String {
        let mut v = vec![];
        for d in &self.dirs {
            for (dotted, slot) in [(1, d.dotted), (0, d.plain)] {
                match slot {
                    Slot::Empty => v.push(format!("{}:{}:_", enc_dir(&d.path), dotted)),
                    Slot::File(i) => v.push(format!("{}:{}:{}", enc_dir(&d.path), dotted, pairs_model(&self.contents[i]))),
                    _ => {}
                }
            }
        }
        for (p, ci) in &self.extra {
            v.push(format!("{}:0:{}", enc_dir(p), pairs_model(&self.contents[*ci])));
        }
        if v.is_empty() { "_".into() } else { v.join(";") }
    }
    /// the eight arguments of the `cfg.load*` requests
    fn load_args(&self, file_dir: Option<&Path>, o: &Opts) -> String {
        self.load_args_ch(file_dir, o, true)
    }
    fn load_args_ch(&self, file_dir: Option<&Path>, o: &Opts, nightly: bool) -> String {
        format!(
            "{} {} {} {} {} {} {} {}",
            nightly as u8,
            self.model_tree(),
            enc_dir(&self.home),
            enc_dir(&self.config_dir()),
            file_dir.map(enc_dir).unwrap_or_else(|| "-".into()),
            self.model_contents(),
            o.model_flags(),
            o.model_inline()
        )
    }
    fn describe(&self) -> String {
        let mut v = vec![];
        for d in &self.dirs {
            v.push(format!("{}[.rustfmt.toml:{} rustfmt.toml:{}]", d.path.strip_prefix(&self.root).map(|p| p.display().to_string()).unwrap_or_else(|_| d.path.display().to_string()), d.dotted.word(), d.plain.word()));
        }
        format!("root={} HOME={} XDG_CONFIG_HOME={:?} dirs: {}", self.root.display(), self.home.display(), self.xdg, v.join(" "))
    }
}

// ------------------------------------------------------------------------------------------------
// command-line options, in the three forms (API client, argv, model flags)

#[derive(Clone, Debug)]
enum CfgPath {
    File(PathBuf),
    Dir(PathBuf),
}

#[derive(Clone, Debug, Default)]
struct Opts {
    api: ApiOpts,
    /// the `--config` pairs (parallel to `api.inline`)
    inline: Vec<Tv>,
    cfg_path: Option<CfgPath>,
    /// pass every pair in its own `--config` (else one comma-separated list)
    split_config: bool,
}

impl Opts {
    fn with_inline(mut self, v: Vec<Tv>) -> Opts {
        self.api.inline = v.iter().map(|t| (t.key.clone(), t.cli.clone().unwrap_or_default())).collect();
        self.inline = v;
        self
    }
    fn with_cfg_path(mut self, p: CfgPath) -> Opts {
        self.api.config_path = Some(match &p {
            CfgPath::File(f) => f.clone(),
            CfgPath::Dir(d) => d.clone(),
        });
        self.cfg_path = Some(p);
        self
    }
    fn model_flags(&self) -> String {
        let a = &self.api;
        let mut f: Vec<String> = vec![];
        if a.verbose { f.push("verbose=1".into()); }
        if a.quiet { f.push("quiet=1".into()); }
        if a.check { f.push("check=1".into()); }
        if a.backup { f.push("backup=1".into()); }
        if a.unstable { f.push("unstable=1".into()); }
        if a.files_with_diff { f.push("files_with_diff=1".into()); }
        if let Some(b) = a.skip_children { f.push(format!("skip_children={}", b as u8)); }
        if let Some(b) = a.error_on_unformatted { f.push(format!("error_on_unformatted={}", b as u8)); }
        if let Some(e) = &a.edition { f.push(format!("edition={}", e)); }
        if let Some(e) = &a.style_edition { f.push(format!("style_edition={}", e)); }
        if let Some(e) = &a.emit { f.push(format!("emit=x{}", enc_str(e))); }
        if let Some(e) = &a.color { f.push(format!("color=x{}", enc_str(e))); }
        if a.file_lines.is_some() { f.push(format!("file_lines=x{}", enc_str("restricted"))); }
        match &self.cfg_path {
            Some(CfgPath::File(p)) => {
                let name = p.file_name().map(|n| n.to_string_lossy().into_owned()).unwrap_or_default();
                if name == ".rustfmt.toml" || name == "rustfmt.toml" {
                    f.push(format!("config_file={}:{}", enc_dir(p.parent().unwrap_or(Path::new("/"))), (name == ".rustfmt.toml") as u8));
                } else {
                    f.push(format!("config_file={}:0", enc_dir(p)));
                }
            }
            Some(CfgPath::Dir(p)) => f.push(format!("config_dir={}", enc_dir(p))),
            None => {}
        }
        if f.is_empty() { "_".into() } else { f.join(",") }
    }
    fn model_inline(&self) -> String {
        pairs_model(&self.inline)
    }
    fn argv(&self) -> Vec<String> {
        let a = &self.api;
        let mut v: Vec<String> = vec![];
        if a.verbose { v.push("-v".into()); }
        if a.quiet { v.push("-q".into()); }
        if a.check { v.push("--check".into()); }
        if a.backup { v.push("--backup".into()); }
        if a.unstable { v.push("--unstable-features".into()); }
        if a.files_with_diff { v.push("-l".into()); }
        if a.skip_children == Some(true) { v.push("--skip-children".into()); }
        if a.error_on_unformatted == Some(true) { v.push("--error-on-unformatted".into()); }
        if let Some(e) = &a.edition { v.push("--edition".into()); v.push(e.clone()); }
        if let Some(e) = &a.style_edition { v.push("--style-edition".into()); v.push(e.clone()); }
        if let Some(e) = &a.emit { v.push("--emit".into()); v.push(e.to_lowercase()); }
        if let Some(e) = &a.color { v.push("--color".into()); v.push(e.to_lowercase()); }
        if let Some(e) = &a.file_lines { v.push("--file-lines".into()); v.push(e.clone()); }
        if let Some(p) = &a.config_path { v.push("--config-path".into()); v.push(p.to_string_lossy().into_owned()); }
        if !a.inline.is_empty() {
            if self.split_config {
                for (k, val) in &a.inline { v.push("--config".into()); v.push(format!("{}={}", k, val)); }
            } else {
                v.push("--config".into());
                v.push(a.inline.iter().map(|(k, val)| format!("{}={}", k, val)).collect::<Vec<_>>().join(","));
            }
        }
        v
    }
    fn describe(&self) -> String {
        self.argv().join(" ")
    }
}

fn run_bin(ctx: &Ctx, cwd: &Path, home: &Path, xdg: Option<&str>, args: &[String], stdin: &[u8]) -> cli::Ran {
    let mut c = Command::new(&ctx.bin);
    c.current_dir(cwd).args(args).env("HOME", home).env_remove("RUSTFMT_CONFIG").env("NO_COLOR", "1");
    match xdg {
        Some(x) => c.env("XDG_CONFIG_HOME", x),
        None => c.env_remove("XDG_CONFIG_HOME"),
    };
    cli::run(&mut c, stdin, Duration::from_secs(60))
}

/// the TOML that `--print-config` writes, as `key=value;…` in the line-protocol encoding
fn parse_printed(s: &Schema, text: &str) -> Result<String, String> {
    let mut parts = vec![];
    for line in text.lines() {
        let line = line.trim();
        if line.is_empty() {
            continue;
        }
        let (k, v) = line.split_once(" = ").ok_or_else(|| format!("line not understood: {}", line))?;
        let display: String = if v.starts_with('"') && v.ends_with('"') && v.len() >= 2 {
            v[1..v.len() - 1].to_string()
        } else if v.starts_with('[') && v.ends_with(']') {
            let items: Vec<String> = v[1..v.len() - 1].split(',').map(|x| x.trim().trim_matches('"').to_string()).filter(|x| !x.is_empty()).collect();
            if k == "ignore" { format!("[{}]", items.join(", ")) } else { items.join(", ") }
        } else {
            v.to_string()
        };
        parts.push(format!("{}={}", k, s.enc_val(k, &s.canon(k, &display))));
    }
    Ok(parts.join(";"))
}

fn bin_err_kind(r: &cli::Ran) -> String {
    let e = &r.stderr;
    if e.contains("unable to find a config file for the given path") || e.contains("No such file or directory") {
        "err:notfound".into()
    } else if e.contains("failed to parse") || e.contains("Could not parse TOML") {
        "err:invaliddata".into()
    } else if e.contains("Could not output config") {
        "unprintable".into()
    } else if r.timed_out {
        "!timeout".into()
    } else {
        format!("err:other:{}:{}", r.status_word(), e.chars().take(160).collect::<String>().replace(['\n', ' ', ';'], "_"))
    }
}

// ------------------------------------------------------------------------------------------------
// probe sources: the layout of the formatted text shows tab_spaces (indentation), max_width (where
// the long expression and the long import list wrap), brace_style (struct / fn braces)

/// the sources the seeded generators draw from (the later ones belong to enumerated families)
const N_GENERIC_SOURCES: usize = 3;
const PARAMS_SOURCE: usize = 3;
const PROBE_SOURCES: &[&str] = &[
    "use aaa::{bb01,bb02,bb03,bb04,bb05,bb06,bb07,bb08,bb09,bb10,bb11,bb12,bb13,bb14,bb15,bb16,bb17,bb18,bb19,bb20,bb21,bb22,bb23,bb24,bb25,bb26,bb27,bb28};\nstruct S<T> where T:Clone{a:u32,b:T}\nfn f(x:u32)->u32{if x>1{let y=x1+x2+x3+x4+x5+x6+x7+x8+x9+y1+y2+y3+y4+y5+y6+y7+y8+y9+z1+z2+z3+z4+z5+z6+z7+z8+z9+w1+w2+w3+w4+w5+w6+w7+w8+w9;y}else{x}}\n",
    "fn g<T>(t:T)->T where T:Copy{let v=[1111,2222,3333,4444,5555,6666,7777,8888,9999,1010,1111,1212,1313,1414,1515,1616,1717,1818,1919,2020,2121,2222,2323,2424,2525,2626];call(aaaaaaaaaa,bbbbbbbbbb,cccccccccc,dddddddddd,eeeeeeeeee,ffffffffff,gggggggggg,hhhhhhhhhh);t}\nenum E{A{x:u8},B}\nimpl<T> Tr for S<T> where T:Clone{fn m(&self){loop{break;}}}\n",
    "mod m{pub fn h(a:u8,b:u8)->u8{match a{0=>b,_=>a+b+a+b+a+b+a+b+a+b+a+b+a+b+a+b+a+b+a+b+a+b+a+b+a+b+a+b+a+b+a+b+a+b+a+b+a+b+a+b+a+b+a+b+a+b+a+b+a+b}}}\ntrait Tr where Self:Sized{fn m(&self);}\nstruct P{x:u8,y:u8}\n",
    // shows fn_params_layout (Tall / Compressed / Vertical: a short and a long parameter list) and
    // imports_granularity (two imports of one crate)
    "use aaa::bbb;use aaa::ccc;\nfn short(aa:u8,bb:u8)->u8{aa}\nfn long(aaaaaaaaaaaa:u32,bbbbbbbbbbbb:u32,cccccccccccc:u32,dddddddddddd:u32,eeeeeeeeeeee:u32,ffffffffffff:u32,gggggggggggg:u32,hhhhhhhhhhhh:u32)->u32{aaaaaaaaaaaa}\n",
];

// ------------------------------------------------------------------------------------------------
// operation sequences on one `Config` (value resolution)

#[derive(Clone, Debug)]
enum Op {
    /// `Config::from_toml` of these pairs (`raw`: text appended verbatim, with its model pairs)
    Toml(Vec<Tv>),
    Override(Tv),
    Set(Tv),
    SetCli(Tv),
    Edition(String),
}

impl Op {
    fn model(&self) -> String {
        match self {
            Op::Toml(v) => format!("toml:{}", pairs_model(v)),
            Op::Override(t) => format!("override:{}", t.pair()),
            Op::Set(t) => format!("set:{}", t.pair()),
            Op::SetCli(t) => format!("setcli:{}", t.pair()),
            Op::Edition(y) => format!("edition:{}", y),
        }
    }
    fn real(&self) -> Value {
        match self {
            Op::Toml(v) => json!(["toml", toml_text(v)]),
            Op::Override(t) => json!(["override", t.key, t.cli.clone().unwrap_or_default()]),
            Op::Set(t) => json!(["set", t.key, t.cli.clone().unwrap_or_default()]),
            Op::SetCli(t) => json!(["setcli", t.key, t.cli.clone().unwrap_or_default()]),
            Op::Edition(y) => json!(["edition", y]),
        }
    }
    fn describe(&self) -> String {
        match self {
            Op::Toml(v) => format!("file{{{}}}", v.iter().map(|t| format!("{} = {}", t.key, t.toml)).collect::<Vec<_>>().join("; ")),
            Op::Override(t) => format!("--config {}={}", t.key, t.cli.clone().unwrap_or_default()),
            Op::Set(t) => format!("set().{}({})", t.key, t.cli.clone().unwrap_or_default()),
            Op::SetCli(t) => format!("set_cli().{}({})", t.key, t.cli.clone().unwrap_or_default()),
            Op::Edition(y) => format!("default_with_style_edition({})", y),
        }
    }
}

const REPORT_KEYS: &[&str] = &[
    "max_width", "use_small_heuristics", "fn_call_width", "attr_fn_like_width", "struct_lit_width", "struct_variant_width", "array_width", "chain_width",
    "single_line_if_else_max_width", "single_line_let_else_max_width", "imports_granularity", "fn_params_layout", "show_parse_errors", "style_edition",
];
const WIDTH_KEYS: &[&str] = &["fn_call_width", "attr_fn_like_width", "struct_lit_width", "struct_variant_width", "array_width", "chain_width", "single_line_if_else_max_width", "single_line_let_else_max_width"];

#[derive(Clone, Debug)]
struct OpsCase {
    ops: Vec<Op>,
    /// compare every option (else the report keys)
    all: bool,
    family: &'static str,
}

impl OpsCase {
    fn request(&self) -> String {
        let ops: Vec<String> = self.ops.iter().map(|o| o.model()).collect();
        if self.all { format!("cfg.applyget * {}", ops.join(" ")) } else { format!("cfg.apply {}", ops.join(" ")) }
    }
    fn child_case(&self) -> Value {
        let keys: Vec<&str> = if self.all { vec![] } else { REPORT_KEYS.to_vec() };
        json!({"t": "ops", "ops": self.ops.iter().map(|o| o.real()).collect::<Vec<_>>(), "keys": keys})
    }
    fn describe(&self) -> String {
        format!("[{}] {}", self.family, self.ops.iter().map(|o| o.describe()).collect::<Vec<_>>().join(" ; "))
    }
}

/// `key=value:ws:wsc;…` -> map
fn parse_fields(s: &str) -> BTreeMap<String, (String, bool, bool)> {
    let mut m = BTreeMap::new();
    for part in s.split(';') {
        if let Some((k, rest)) = part.split_once('=') {
            let mut it = rest.split(':');
            let v = it.next().unwrap_or("").to_string();
            let ws = it.next() == Some("1");
            let wsc = it.next() == Some("1");
            m.insert(k.to_string(), (v, ws, wsc));
        }
    }
    m
}

fn dec_model_val(v: &str) -> String {
    match v.strip_prefix('x') {
        Some(h) => dec_str(h).unwrap_or_default(),
        None => v.to_string(),
    }
}

/// sample values of every option: (canonical, spelling)
fn option_values(ctx: &Ctx, key: &str) -> Vec<Tv> {
    match ctx.s.kind_of(key) {
        Kind::Nat => ["0", "1", "17", "100", "1000"].iter().map(|v| ctx.tv(key, v)).collect(),
        Kind::Bool => ["true", "false"].iter().map(|v| ctx.tv(key, v)).collect(),
        Kind::Str => match key {
            "ignore" => vec![ctx.tv(key, "default()"), ctx.tv(key, "foo.rs")],
            "skip_macro_invocations" => vec![ctx.tv(key, "default()"), ctx.tv(key, "vec"), ctx.tv(key, "*")],
            "required_version" => vec![ctx.tv(key, "1.0.0")],
            "file_lines" | "width_heuristics" => vec![],
            _ => {
                let vals = ctx.enums.get(key).cloned().unwrap_or_default();
                let mut v: Vec<Tv> = vals.iter().map(|x| ctx.tv(key, x)).collect();
                // the parsers are case-insensitive: one odd spelling per option
                if let Some(first) = vals.iter().find(|x| x.chars().any(|c| c.is_ascii_alphabetic())) {
                    v.push(ctx.tv_spelled(key, first, &first.to_uppercase()));
                    v.push(ctx.tv_spelled(key, first, &first.to_lowercase()));
                }
                v
            }
        },
    }
}

fn gen_singles(ctx: &Ctx) -> Vec<OpsCase> {
    let mut v = vec![];
    for k in &ctx.s.names {
        for t in option_values(ctx, k) {
            v.push(OpsCase { ops: vec![Op::Toml(vec![t.clone()])], all: true, family: "single:file" });
            if t.cli.is_some() {
                v.push(OpsCase { ops: vec![Op::Override(t.clone())], all: true, family: "single:--config" });
                v.push(OpsCase { ops: vec![Op::Set(t.clone())], all: true, family: "single:set()" });
                v.push(OpsCase { ops: vec![Op::SetCli(t.clone())], all: true, family: "single:set_cli()" });
            }
        }
    }
    v
}

fn gen_widths(ctx: &Ctx, rng: &mut Rng, thorough: bool) -> Vec<OpsCase> {
    let mut v = vec![];
    let mws: &[usize] = &[0, 1, 20, 50, 69, 70, 100, 101, 105, 120, 137, 1000];
    let heurs = ["", "Default", "Max", "Off"];
    for &mw in mws {
        for h in heurs {
            for w in WIDTH_KEYS {
                let mut vals: Vec<usize> = vec![0, 10, mw.saturating_sub(1), mw, mw + 1, 200];
                vals.sort();
                vals.dedup();
                for val in vals {
                    let tmw = ctx.tv("max_width", &mw.to_string());
                    let tw = ctx.tv(w, &val.to_string());
                    let th = if h.is_empty() { None } else { Some(ctx.tv("use_small_heuristics", h)) };
                    let mut file = vec![tmw.clone(), tw.clone()];
                    if let Some(th) = &th {
                        file.push(th.clone());
                    }
                    let mut routes: Vec<Vec<Op>> = vec![];
                    routes.push(vec![Op::Toml(file.clone())]);
                    let mut a = vec![Op::Override(tmw.clone()), Op::Override(tw.clone())];
                    let mut b = vec![Op::Override(tw.clone()), Op::Override(tmw.clone())];
                    if let Some(th) = &th {
                        a.push(Op::Override(th.clone()));
                        b.insert(0, Op::Override(th.clone()));
                    }
                    routes.push(a);
                    routes.push(b);
                    // width in the file, max_width lowered / raised from the command line afterwards
                    let mut f2 = vec![tw.clone()];
                    if let Some(th) = &th {
                        f2.push(th.clone());
                    }
                    routes.push(vec![Op::Toml(f2.clone()), Op::Override(tmw.clone())]);
                    routes.push(vec![Op::Toml(vec![tmw.clone()]), Op::Override(tw.clone())]);
                    routes.push(vec![Op::Toml(f2.clone()), Op::Set(tmw.clone())]);
                    routes.push(vec![Op::Toml(f2), Op::SetCli(tmw.clone()), Op::Set(tw.clone())]);
                    routes.push(vec![Op::Set(tmw.clone()), Op::SetCli(tw.clone())]);
                    for ops in routes {
                        v.push(OpsCase { ops, all: false, family: "width-family" });
                    }
                }
            }
        }
    }
    // two width keys and max_width, every order of the three overrides; raising after clamping
    for _ in 0..(if thorough { 30000 } else { 600 }) {
        let mw = *rng.pick(&[40usize, 80, 100, 120, 150]);
        let w1 = pk(rng, WIDTH_KEYS);
        let mut w2 = pk(rng, WIDTH_KEYS);
        if w2 == w1 {
            w2 = WIDTH_KEYS[(WIDTH_KEYS.iter().position(|x| *x == w1).unwrap() + 1) % 8];
        }
        let t = vec![ctx.tv("max_width", &mw.to_string()), ctx.tv(w1, &rng.range(0, 160).to_string()), ctx.tv(w2, &rng.range(0, 160).to_string())];
        let mut order = [0usize, 1, 2];
        for i in (1..3).rev() {
            order.swap(i, rng.below(i + 1));
        }
        let mut ops: Vec<Op> = vec![];
        if rng.chance(1, 3) {
            ops.push(Op::Toml(vec![ctx.tv("max_width", &rng.pick(&[30usize, 90, 200]).to_string()), ctx.tv(w1, &rng.range(0, 250).to_string())]));
        }
        for i in order {
            ops.push(match rng.below(4) {
                0 => Op::Set(t[i].clone()),
                1 => Op::SetCli(t[i].clone()),
                _ => Op::Override(t[i].clone()),
            });
        }
        if rng.chance(1, 3) {
            ops.push(Op::Override(ctx.tv("use_small_heuristics", pk(rng, &["Default", "Max", "Off"]))));
        }
        if rng.chance(1, 3) {
            ops.push(Op::Override(ctx.tv("max_width", &rng.pick(&[60usize, 100, 300]).to_string())));
        }
        v.push(OpsCase { ops, all: false, family: "width-sequence" });
    }
    v
}

fn gen_aliases(ctx: &Ctx) -> Vec<OpsCase> {
    let mut v = vec![];
    let pairs: [(&str, &str); 3] = [("merge_imports", "imports_granularity"), ("fn_args_layout", "fn_params_layout"), ("hide_parse_errors", "show_parse_errors")];
    for (alias, succ) in pairs {
        let avals = option_values(ctx, alias);
        let svals = option_values(ctx, succ);
        for a in &avals {
            let mut routes: Vec<Vec<Op>> = vec![vec![Op::Toml(vec![a.clone()])], vec![Op::Override(a.clone())], vec![Op::Set(a.clone())], vec![Op::SetCli(a.clone())]];
            // the same alias twice with different values: the later source wins
            for a2 in avals.iter().filter(|x| x.model != a.model) {
                routes.push(vec![Op::Toml(vec![a.clone()]), Op::Override(a2.clone())]);
                routes.push(vec![Op::Override(a.clone()), Op::Override(a2.clone())]);
                routes.push(vec![Op::Toml(vec![a.clone()]), Op::Override(a2.clone()), Op::Override(a.clone())]);
            }
            for s in &svals {
                routes.push(vec![Op::Toml(vec![a.clone(), s.clone()])]);
                routes.push(vec![Op::Toml(vec![s.clone(), a.clone()])]);
                routes.push(vec![Op::Toml(vec![a.clone()]), Op::Override(s.clone())]);
                routes.push(vec![Op::Toml(vec![s.clone()]), Op::Override(a.clone())]);
                routes.push(vec![Op::Override(a.clone()), Op::Override(s.clone())]);
                routes.push(vec![Op::Override(s.clone()), Op::Override(a.clone())]);
                routes.push(vec![Op::Set(s.clone()), Op::Override(a.clone())]);
                routes.push(vec![Op::SetCli(s.clone()), Op::Override(a.clone())]);
                routes.push(vec![Op::Override(s.clone()), Op::Set(a.clone())]);
                routes.push(vec![Op::Toml(vec![s.clone()]), Op::SetCli(a.clone())]);
            }
            for ops in routes {
                v.push(OpsCase { ops, all: false, family: "alias" });
            }
        }
    }
    v
}

/// files with several options, unknown keys, ill-typed values; then overrides
fn gen_mixed(ctx: &Ctx, rng: &mut Rng, n: usize) -> Vec<OpsCase> {
    let mut v = vec![];
    let keys: Vec<String> = ctx.s.names.iter().filter(|k| !option_values(ctx, k).is_empty()).cloned().collect();
    for _ in 0..n {
        let mut ops = vec![];
        let nops = rng.range(1, 4);
        for _ in 0..nops {
            match rng.below(5) {
                0 | 1 => {
                    let mut file: Vec<Tv> = vec![];
                    for _ in 0..rng.range(0, 6) {
                        let k = rng.pick(&keys).clone();
                        if file.iter().any(|t| t.key == k) {
                            continue;
                        }
                        let vals = option_values(ctx, &k);
                        file.push(rng.pick(&vals).clone());
                    }
                    if rng.chance(1, 8) {
                        // unknown keys only draw a warning
                        file.push(Tv { key: "no_such_option".into(), toml: "1".into(), cli: None, model: "1".into() });
                    }
                    if rng.chance(1, 10) {
                        // a value of the wrong type rejects the whole file
                        let k = pk(rng, &["max_width", "hard_tabs", "edition", "tab_spaces"]).to_string();
                        file.retain(|t| t.key != k);
                        let (toml, model) = if ctx.s.kind_of(&k) == Kind::Nat { ("\"wide\"", format!("x{}", enc_str("wide"))) } else { ("7", "7".to_string()) };
                        file.push(Tv { key: k, toml: toml.into(), cli: None, model });
                    }
                    ops.push(Op::Toml(file));
                }
                _ => {
                    let k = rng.pick(&keys).clone();
                    let vals: Vec<Tv> = option_values(ctx, &k).into_iter().filter(|t| t.cli.is_some()).collect();
                    if vals.is_empty() {
                        continue;
                    }
                    let t = rng.pick(&vals).clone();
                    ops.push(match rng.below(4) {
                        0 => Op::Set(t),
                        1 => Op::SetCli(t),
                        _ => Op::Override(t),
                    });
                }
            }
        }
        if rng.chance(1, 6) {
            ops.insert(0, Op::Edition(pk(rng, &["2015", "2018", "2021", "2024", "2027"]).to_string()));
        }
        v.push(OpsCase { ops, all: true, family: "mixed" });
    }
    v
}

/// runs the op sequences on the real code (children), pushes the correspondence cases and the
/// oracles that hold of every reachable configuration
fn stage_ops(ctx: &Ctx, o: &mut Outcome, cases: &[OpsCase]) -> Vec<Option<String>> {
    let child_cases: Vec<Value> = cases.iter().map(|c| c.child_case()).collect();
    let res = run_children(&child_cases, &ctx.work, "ops", ctx.jobs, Duration::from_secs(240));
    let mut out = vec![];
    for (c, r) in cases.iter().zip(res.iter()) {
        let r = match r.as_ref().and_then(|v| v["r"].as_str()) {
            Some(r) => r.to_string(),
            None => {
                o.count("ops:child-inconclusive");
                out.push(None);
                continue;
            }
        };
        o.count(&format!("ops:{}", c.family));
        if r == "err" {
            o.count("ops:rejected-by-the-code");
        }
        let nontrivial = r != "err" && r.contains(":1:");
        o.push("corr", if c.all { "cfg.applyget" } else { "cfg.apply" }, c.request(), r.clone(), c.describe(), nontrivial);
        if r != "err" {
            let f = parse_fields(&r);
            let mw = f.get("max_width").map(|x| x.0.clone()).unwrap_or_default();
            let widths: Vec<String> = WIDTH_KEYS.iter().map(|w| f.get(*w).map(|x| format!("{}:{}", x.0, x.1 as u8)).unwrap_or_else(|| "0:0".into())).collect();
            // theorem explicit_width_clamped_reachable, judged by the Lean oracle on the code's output
            o.push("oracle", "cfg.clamped", format!("cfg.clamped {} {}", mw, widths.join(",")), "ok".into(), c.describe(), widths.iter().any(|w| w.ends_with(":1")));
            // heuristic_widths_le_max_partial: Max always, Default from max_width 70 on (below: F8b, a probe)
            let h = f.get("use_small_heuristics").map(|x| dec_model_val(&x.0)).unwrap_or_default();
            let mwn: u128 = mw.parse().unwrap_or(0);
            if h == "Max" || (h == "Default" && mwn >= 70) {
                o.direct_evals += 1;
                for w in WIDTH_KEYS {
                    let val: u128 = f.get(*w).map(|x| x.0.parse().unwrap_or(0)).unwrap_or(0);
                    if val > mwn {
                        o.direct_failures.push(json!({"sig": "c14:heuristic-width-exceeds-max_width", "what": format!("{} = {} > max_width = {} under use_small_heuristics = {}", w, val, mwn, h), "case": c.describe(), "request": c.request()}));
                    }
                }
            }
        }
        out.push(Some(r));
    }
    out
}

/// "deprecated aliases map to their successors", stated on its own: after a sequence of files and
/// `--config` pairs the successor holds the value given for it explicitly, else the image of the
/// alias.  (Sequences that touch the alias through the API setters are F16b and are left out.)
fn alias_oracle(o: &mut Outcome, cases: &[OpsCase], results: &[Option<String>]) {
    let pairs: [(&str, &str); 3] = [("merge_imports", "imports_granularity"), ("fn_args_layout", "fn_params_layout"), ("hide_parse_errors", "show_parse_errors")];
    let image = |alias: &str, v: &str| -> String {
        match alias {
            "merge_imports" => if v == "true" { format!("x{}", enc_str("Crate")) } else { format!("x{}", enc_str("Preserve")) },
            "hide_parse_errors" => if v == "true" { "false".into() } else { "true".into() },
            _ => v.to_string(),
        }
    };
    for (c, r) in cases.iter().zip(results.iter()) {
        if c.family != "alias" {
            continue;
        }
        let r = match r {
            Some(r) if r != "err" => r,
            _ => continue,
        };
        let f = parse_fields(r);
        for (alias, succ) in pairs {
            let touches = |t: &Tv| t.key == alias || t.key == succ;
            if !c.ops.iter().any(|op| match op {
                Op::Toml(v) => v.iter().any(touches),
                Op::Override(t) | Op::Set(t) | Op::SetCli(t) => touches(t),
                _ => false,
            }) {
                continue;
            }
            if c.ops.iter().any(|op| matches!(op, Op::Set(t) | Op::SetCli(t) if t.key == alias)) {
                continue;
            }
            // (value, explicitly set) of the successor; None = its default
            let mut sv: Option<String> = None;
            let mut sset = false;
            for op in &c.ops {
                match op {
                    Op::Toml(v) => {
                        sv = None;
                        sset = false;
                        if let Some(t) = v.iter().find(|t| t.key == succ) {
                            sv = Some(t.model.clone());
                            sset = true;
                        }
                        if let Some(t) = v.iter().find(|t| t.key == alias) {
                            if !sset {
                                sv = Some(image(alias, &t.model));
                            }
                        }
                    }
                    Op::Override(t) if t.key == succ => {
                        sv = Some(t.model.clone());
                        sset = true;
                    }
                    Op::Override(t) if t.key == alias => {
                        if !sset {
                            sv = Some(image(alias, &t.model));
                        }
                    }
                    Op::Set(t) | Op::SetCli(t) if t.key == succ => sv = Some(t.model.clone()),
                    _ => {}
                }
            }
            if let (Some(want), Some(got)) = (sv, f.get(succ)) {
                o.direct_evals += 1;
                if want != got.0 {
                    o.direct_failures.push(json!({"sig": "c14:alias-mapping", "what": format!("{} = {} expected after {} (alias {}), got {}", succ, dec_model_val(&want), c.describe(), alias, dec_model_val(&got.0)), "request": c.request()}));
                }
            }
        }
    }
}

/// same value, same effect: one option from a file and from `--config` (all fields equal); from the
/// API setter (values equal) outside the width keys and the aliases (F16 / F16b: probes)
fn same_effect_oracle(o: &mut Outcome, cases: &[OpsCase], results: &[Option<String>]) {
    let mut by_kv: BTreeMap<String, BTreeMap<&'static str, (String, String)>> = BTreeMap::new();
    for (c, r) in cases.iter().zip(results.iter()) {
        if !c.family.starts_with("single:") {
            continue;
        }
        let (t, route) = match &c.ops[0] {
            Op::Toml(v) => (v[0].clone(), "file"),
            Op::Override(t) => (t.clone(), "config"),
            Op::Set(t) => (t.clone(), "set"),
            Op::SetCli(t) => (t.clone(), "setcli"),
            _ => continue,
        };
        if let Some(r) = r {
            by_kv.entry(format!("{}={}", t.key, t.model)).or_default().insert(route, (r.clone(), c.describe()));
        }
    }
    for (kv, m) in by_kv {
        let key = kv.split('=').next().unwrap_or("").to_string();
        // edition / style_edition / version select the defaults inside load_config (CliOptions::edition() …),
        // not inside override_value: their file-vs-flag equivalence is compared in the load stage
        let via_load = ["edition", "style_edition", "version"].contains(&key.as_str());
        if let (Some(a), Some(b), false) = (m.get("file"), m.get("config"), via_load) {
            o.direct_evals += 1;
            o.direct_distinct += 1;
            if a.0 != b.0 {
                let (fa, fb) = (parse_fields(&a.0), parse_fields(&b.0));
                let diff: Vec<String> = fa.iter().filter(|(k, v)| fb.get(*k) != Some(v)).map(|(k, v)| format!("{}: file {:?} vs --config {:?}", k, v, fb.get(k))).collect();
                o.direct_failures.push(json!({"sig": "c14:file-vs-config", "what": format!("`{}` has a different effect from a file and from --config: {}", kv, diff.join("; ")), "file": a.1, "config": b.1}));
            }
        }
        let excluded = WIDTH_KEYS.contains(&key.as_str()) || ["merge_imports", "fn_args_layout", "hide_parse_errors"].contains(&key.as_str());
        if let (Some(a), Some(b)) = (m.get("set"), m.get("config")) {
            if !excluded && a.0 != "err" && b.0 != "err" {
                o.direct_evals += 1;
                let (fa, fb) = (parse_fields(&a.0), parse_fields(&b.0));
                let diff: Vec<String> = fa.iter().filter(|(k, v)| fb.get(*k).map(|x| &x.0) != Some(&v.0)).map(|(k, v)| format!("{}: set() {} vs --config {:?}", k, v.0, fb.get(k).map(|x| &x.0))).collect();
                if !diff.is_empty() {
                    o.direct_failures.push(json!({"sig": "c14:api-vs-config", "what": format!("`{}` gives different values through config.set() and --config: {}", kv, diff.join("; ")), "api": a.1, "config": b.1}));
                }
            }
        }
    }
}

/// `WidthHeuristics::{scaled, set, null}` for max_width 0..=1000 against the integer model
fn stage_scaled(ctx: &Ctx, o: &mut Outcome) {
    let res = run_children(&[json!({"t": "scaled", "lo": 0, "hi": 1000})], &ctx.work, "scaled", 1, Duration::from_secs(60));
    let r = match res.get(0).and_then(|x| x.as_ref()) {
        Some(r) => r.clone(),
        None => {
            o.count("scaled:child-inconclusive");
            return;
        }
    };
    let rows = r["rows"].as_array().cloned().unwrap_or_default();
    for (mw, row) in rows.iter().enumerate() {
        o.push("corr", "cfg.scaled", format!("cfg.scaled {}", mw), row[0].as_str().unwrap_or("").to_string(), format!("WidthHeuristics::scaled({})", mw), mw > 100);
        o.push("corr", "cfg.scaledf32", format!("cfg.scaledf32 {}", mw), row[0].as_str().unwrap_or("").to_string(), format!("WidthHeuristics::scaled({}) vs the f32 emulation", mw), mw > 100);
        o.push("corr", "cfg.set", format!("cfg.set {}", mw), row[1].as_str().unwrap_or("").to_string(), format!("WidthHeuristics::set({})", mw), mw > 0);
    }
    o.push("corr", "cfg.null", "cfg.null".into(), r["null"].as_str().unwrap_or("").to_string(), "WidthHeuristics::null()".into(), true);
    o.count_n("scaled:max_width-values", rows.len() as u64);
    // the same through the whole Config: max_width x heuristics, from a file and from --config
    let mut cases = vec![];
    for mw in 0..=1000usize {
        for h in ["Default", "Max", "Off"] {
            let t = vec![ctx.tv("max_width", &mw.to_string()), ctx.tv("use_small_heuristics", h)];
            let ops = if (mw + h.len()) % 2 == 0 { vec![Op::Toml(t)] } else { vec![Op::Override(t[1].clone()), Op::Override(t[0].clone())] };
            cases.push(OpsCase { ops, all: false, family: "heuristics-exhaustive" });
        }
    }
    stage_ops(ctx, o, &cases);
}

/// print -> re-parse: correspondence with the model's `roundTrip`, and the oracle "same" on the shapes
/// that are printable and free of F8b (every width at most max_width)
fn stage_roundtrip(ctx: &Ctx, o: &mut Outcome, rng: &mut Rng, n: usize) {
    let keys: Vec<String> = ctx.s.names.iter().filter(|k| !option_values(ctx, k).is_empty()).cloned().collect();
    let mut cases: Vec<(Vec<Op>, bool)> = vec![(vec![], true)];
    for se in ["2015", "2018", "2021", "2024", "2027"] {
        cases.push((vec![Op::Edition(se.into())], true));
    }
    // every option singly at every value
    for k in &keys {
        for t in option_values(ctx, k) {
            let clean = !(k == "use_small_heuristics" && t.model == ctx.s.enc_val(k, "Off")) && !(k == "max_width" && t.model.parse::<usize>().map(|x| x < 70).unwrap_or(false));
            cases.push((vec![Op::Toml(vec![t])], clean));
        }
    }
    for _ in 0..n {
        let mut file: Vec<Tv> = vec![];
        for _ in 0..rng.range(1, 6) {
            let k = rng.pick(&keys).clone();
            if file.iter().any(|t| t.key == k) || k == "use_small_heuristics" || k == "max_width" {
                continue;
            }
            file.push(rng.pick(&option_values(ctx, &k)).clone());
        }
        let mw = *rng.pick(&[70usize, 80, 100, 120, 200]);
        file.push(ctx.tv("max_width", &mw.to_string()));
        if rng.chance(1, 2) {
            file.push(ctx.tv("use_small_heuristics", pk(rng, &["Default", "Max"])));
        }
        let mut ops = vec![Op::Toml(file)];
        if rng.chance(1, 2) {
            let k = rng.pick(&keys).clone();
            if k != "use_small_heuristics" && k != "max_width" {
                let vals: Vec<Tv> = option_values(ctx, &k).into_iter().filter(|t| t.cli.is_some()).collect();
                if !vals.is_empty() {
                    ops.push(Op::Override(rng.pick(&vals).clone()));
                }
            }
        }
        cases.push((ops, true));
    }
    let child_cases: Vec<Value> = cases.iter().map(|(ops, _)| json!({"t": "ops", "ops": ops.iter().map(|o| o.real()).collect::<Vec<_>>(), "roundtrip": true})).collect();
    let res = run_children(&child_cases, &ctx.work, "rt", ctx.jobs, Duration::from_secs(120));
    for ((ops, clean), r) in cases.iter().zip(res.iter()) {
        let r = match r.as_ref().and_then(|v| v["r"].as_str()) {
            Some(r) => r.to_string(),
            None => {
                o.count("roundtrip:child-inconclusive");
                continue;
            }
        };
        let req = format!("cfg.roundtrip {}", ops.iter().map(|x| x.model()).collect::<Vec<_>>().join(" "));
        let desc = format!("[roundtrip] {}", ops.iter().map(|x| x.describe()).collect::<Vec<_>>().join(" ; "));
        o.count(&format!("roundtrip:{}", r.split(':').next().unwrap_or("")));
        o.push("corr", "cfg.roundtrip", req.trim_end().to_string(), r.clone(), desc.clone(), !ops.is_empty());
        if *clean && r != "err" {
            // the property itself, on the code's own answer
            o.direct_evals += 1;
            if r != "same" {
                o.direct_failures.push(json!({"sig": "c14:roundtrip", "what": format!("printing the configuration and loading the text again gives `{}`", r), "case": desc}));
            }
        }
    }
}

// ------------------------------------------------------------------------------------------------
// layout generation

const TS: &[&str] = &["2", "3", "5", "6", "7", "8"];
const MW: &[&str] = &["60", "70", "80", "90", "110", "120"];
const BR: &[&str] = &["AlwaysNextLine", "PreferSameLine", "SameLineWhere"];
const DIR_NAMES: &[&str] = &["a", "src", "b b", "d.d", "rustfmt", ".config", "x"];

/// content `i` of a layout: a (tab_spaces, max_width, brace_style) triple that no other content of the
/// layout has and that is not the default, sometimes one more option
fn content(ctx: &Ctx, rng: &mut Rng, i: usize) -> Vec<Tv> {
    let mut v = vec![ctx.tv("tab_spaces", TS[i % 6]), ctx.tv("max_width", MW[(i / 6 * 2 + i) % 6]), ctx.tv("brace_style", BR[i % 3])];
    if rng.chance(1, 3) {
        let extra: &[(&str, &str)] = &[("hard_tabs", "true"), ("use_small_heuristics", "Max"), ("fn_single_line", "true"), ("control_brace_style", "AlwaysNextLine"), ("trailing_comma", "Never"), ("imports_layout", "Vertical"), ("edition", "2021"), ("style_edition", "2024"), ("reorder_imports", "false"), ("version", "Two"), ("fn_call_width", "40"), ("chain_width", "200")];
        let (k, val) = rng.pick(extra);
        v.push(ctx.tv(k, val));
    }
    v
}

fn random_slot(rng: &mut Rng, l: &mut Layout, ctx: &Ctx) -> Slot {
    match rng.below(20) {
        0..=8 => Slot::Absent,
        9..=14 => {
            let i = l.contents.len();
            let c = content(ctx, rng, i);
            l.contents.push(c);
            Slot::File(i)
        }
        15..=16 => Slot::Empty,
        _ => Slot::Dir,
    }
}

fn fill_dir(rng: &mut Rng, l: &mut Layout, ctx: &Ctx, p: &Path, bare_chance: usize) {
    let i = l.add_dir(p);
    if rng.chance(bare_chance, 10) {
        return;
    }
    let d = random_slot(rng, l, ctx);
    let pl = random_slot(rng, l, ctx);
    l.dirs[i].dotted = d;
    l.dirs[i].plain = pl;
}

fn gen_layout(ctx: &Ctx, rng: &mut Rng, root: PathBuf) -> Layout {
    let mut l = Layout { root: root.clone(), dirs: vec![], contents: vec![], home: root.join("_home"), xdg: None, sources: vec![], extra: vec![] };
    // the chain root/…, with side branches
    let depth = rng.below(4);
    let mut chain = vec![root.join("t")];
    for _ in 0..depth {
        let next = chain.last().unwrap().join(pk(rng, DIR_NAMES));
        chain.push(next);
    }
    for p in chain.clone() {
        fill_dir(rng, &mut l, ctx, &p, 4);
    }
    let mut src_dirs: Vec<PathBuf> = vec![chain.last().unwrap().clone()];
    for _ in 0..rng.below(3) {
        let parent = rng.pick(&chain).clone();
        let side = parent.join(format!("s{}", rng.below(3)));
        fill_dir(rng, &mut l, ctx, &side, 3);
        src_dirs.push(side);
    }
    if rng.chance(1, 2) {
        src_dirs.push(rng.pick(&chain).clone());
    }
    src_dirs.sort();
    src_dirs.dedup();
    for (i, d) in src_dirs.iter().enumerate() {
        l.sources.push((d.join(format!("f{}.rs", i)), rng.below(N_GENERIC_SOURCES)));
    }
    // HOME
    match rng.below(6) {
        0 => l.home = root.join("_nohome"),
        1 => l.home = rng.pick(&chain).clone(),
        _ => {
            let h = l.home.clone();
            fill_dir(rng, &mut l, ctx, &h, 3);
        }
    }
    // the user configuration directory
    match rng.below(5) {
        0 => l.xdg = None,
        1 => l.xdg = Some("relative/xdg".into()),
        _ => l.xdg = Some(root.join("_xdg").to_string_lossy().into_owned()),
    }
    if rng.chance(1, 2) {
        let i = l.contents.len();
        let c = content(ctx, rng, i);
        l.contents.push(c);
        let name = pk(rng, &["custom.toml", "my rustfmt.toml", "rustfmt.toml.bak", "Rustfmt.toml"]);
        let dir = if rng.chance(1, 2) { root.join("_cfg") } else { rng.pick(&chain).clone() };
        l.extra.push((dir.join(name), i));
    }
    if l.home != root.join("_nohome") && rng.chance(4, 5) {
        let c = l.config_dir().join("rustfmt");
        fill_dir(rng, &mut l, ctx, &c, 2);
    }
    l
}

/// seed-independent: the file's directory in every state of the two names x its parent
fn enumerated_layouts(ctx: &Ctx, base: &Path) -> Vec<Layout> {
    let mut v = vec![];
    let states = [Slot::Absent, Slot::File(0), Slot::Empty, Slot::Dir];
    let mut n = 0;
    for cd in states {
        for cp in states {
            for (pd, pp) in [(false, false), (true, false), (false, true), (true, true)] {
                let root = base.join(format!("e{}", n));
                n += 1;
                let mut rng = Rng::new(n as u64);
                let mut l = Layout { root: root.clone(), dirs: vec![], contents: vec![], home: root.join("_home"), xdg: Some(root.join("_xdg").to_string_lossy().into_owned()), sources: vec![], extra: vec![] };
                let parent = root.join("t");
                let child = parent.join("c");
                let mut slot = |l: &mut Layout, s: Slot| match s {
                    Slot::File(_) => {
                        let i = l.contents.len();
                        let c = content(ctx, &mut rng, i);
                        l.contents.push(c);
                        Slot::File(i)
                    }
                    x => x,
                };
                let (a, b) = (slot(&mut l, cd), slot(&mut l, cp));
                let (c, d) = (slot(&mut l, if pd { Slot::File(0) } else { Slot::Absent }), slot(&mut l, if pp { Slot::File(0) } else { Slot::Absent }));
                let (e, f) = (slot(&mut l, Slot::File(0)), slot(&mut l, Slot::File(0)));
                l.dirs.push(DirSpec { path: parent.clone(), dotted: c, plain: d });
                l.dirs.push(DirSpec { path: child.clone(), dotted: a, plain: b });
                l.dirs.push(DirSpec { path: root.join("_home"), dotted: Slot::Absent, plain: e });
                l.dirs.push(DirSpec { path: root.join("_xdg").join("rustfmt"), dotted: f, plain: Slot::Absent });
                l.sources.push((child.join("f0.rs"), n % N_GENERIC_SOURCES));
                v.push(l);
            }
        }
    }
    v
}

fn all_config_files(l: &Layout) -> Vec<PathBuf> {
    let mut v = vec![];
    for d in &l.dirs {
        if d.dotted.is_file() {
            v.push(d.path.join(".rustfmt.toml"));
        }
        if d.plain.is_file() {
            v.push(d.path.join("rustfmt.toml"));
        }
    }
    v
}

/// a `--config-path` for this layout: existing file / directory with a file / directory without /
/// missing path
fn random_cfg_path(rng: &mut Rng, l: &Layout) -> CfgPath {
    let mut files = all_config_files(l);
    // a file with another name is taken twice as often
    for (p, _) in &l.extra {
        files.push(p.clone());
        files.push(p.clone());
    }
    match rng.below(6) {
        0 | 1 if !files.is_empty() => CfgPath::File(rng.pick(&files).clone()),
        2 | 3 => CfgPath::Dir(rng.pick(&l.dirs).path.clone()),
        4 => CfgPath::Dir(l.root.join("_missing")),
        _ => {
            let d = rng.pick(&l.dirs);
            // a file name that does not exist in that directory (the model knows the two names only)
            if !d.plain.is_file() && d.plain != Slot::Dir {
                CfgPath::File(d.path.join("rustfmt.toml"))
            } else {
                CfgPath::Dir(d.path.clone())
            }
        }
    }
}

fn random_opts(ctx: &Ctx, rng: &mut Rng, l: &Layout) -> Opts {
    let mut o = Opts::default();
    o.split_config = rng.chance(1, 2);
    if rng.chance(1, 4) {
        o = o.with_cfg_path(random_cfg_path(rng, l));
    }
    let mut inline = vec![];
    if rng.chance(1, 3) {
        inline.push(ctx.tv("tab_spaces", pk(rng, &["1", "9"])));
    }
    if rng.chance(1, 4) {
        inline.push(ctx.tv("max_width", pk(rng, &["50", "75", "130"])));
    }
    if rng.chance(1, 5) {
        inline.push(ctx.tv(pk(rng, WIDTH_KEYS), pk(rng, &["30", "100", "140"])));
    }
    if rng.chance(1, 6) {
        inline.push(ctx.tv("brace_style", pk(rng, BR)));
    }
    if rng.chance(1, 8) {
        inline.push(ctx.tv("style_edition", pk(rng, &["2015", "2021", "2024"])));
    }
    if rng.chance(1, 10) {
        inline.push(ctx.tv("version", pk(rng, &["One", "Two"])));
    }
    if rng.chance(1, 10) {
        inline.push(ctx.tv("edition", pk(rng, &["2018", "2024"])));
    }
    o = o.with_inline(inline);
    if rng.chance(1, 8) {
        o.api.style_edition = Some(pk(rng, &["2015", "2018", "2021", "2024"]).to_string());
    }
    if rng.chance(1, 8) {
        o.api.edition = Some(pk(rng, &["2015", "2018", "2021", "2024"]).to_string());
    }
    o
}

// ------------------------------------------------------------------------------------------------
// stage: layouts through the API (children) and the binary

struct LoadObs {
    layout: usize,
    file_dir: Option<PathBuf>,
    opts: Opts,
    family: &'static str,
}

fn stage_loads(ctx: &Ctx, o: &mut Outcome, layouts: &[Layout], obs: &[LoadObs], with_binary: &dyn Fn(usize) -> u8) -> Vec<Option<String>> {
    stage_loads2(ctx, o, layouts, obs, with_binary).0
}

/// (what load_config returned through the API, what `--print-config current` printed) per observation,
/// both in the line-protocol encoding
fn stage_loads2(ctx: &Ctx, o: &mut Outcome, layouts: &[Layout], obs: &[LoadObs], with_binary: &dyn Fn(usize) -> u8) -> (Vec<Option<String>>, Vec<Option<String>>) {
    let mut api_answers: Vec<Option<String>> = vec![];
    let mut printed: Vec<Option<String>> = vec![None; obs.len()];
    // API
    let cases: Vec<Value> = obs
        .iter()
        .map(|b| {
            let l = &layouts[b.layout];
            json!({"t": "load", "home": l.home.to_string_lossy(), "xdg": l.xdg, "dir": b.file_dir.as_ref().map(|d| d.to_string_lossy().into_owned()), "opts": b.opts.api.to_json(), "keys": []})
        })
        .collect();
    let res = run_children(&cases, &ctx.work, "load", ctx.jobs, Duration::from_secs(240));
    for (b, r) in obs.iter().zip(res.iter()) {
        let l = &layouts[b.layout];
        let r = match r {
            Some(r) => r,
            None => {
                o.count("load:child-inconclusive");
                api_answers.push(None);
                continue;
            }
        };
        let expect = match r["err"].as_str() {
            Some(e) => e.to_string(),
            None => format!("{};{}", enc_opt_file(r["path"].as_str()), r["fields"].as_str().unwrap_or("")),
        };
        o.count(&format!("load-api:{}", b.family));
        o.count(&format!("load-api-result:{}", if expect.starts_with("err") { expect.as_str() } else if expect.starts_with("none") { "no-file" } else { "file" }));
        let desc = format!("[{}] load_config({:?}, `{}`) in {}", b.family, b.file_dir, b.opts.describe(), l.describe());
        api_answers.push(Some(expect.clone()));
        o.push("corr", "cfg.loadall", format!("cfg.loadall {}", l.load_args(b.file_dir.as_deref(), &b.opts)), expect, desc, !all_config_files(l).is_empty());
    }
    // the binary: `--print-config current <file>` and `-v --check <file>` (which file was used)
    // with_binary: 0 = API only, 1 = `--print-config current` and `-v --check`, 2 = `--print-config current` only
    let jobs: Vec<(usize, bool)> = (0..obs.len()).filter(|i| obs[*i].file_dir.is_some() && with_binary(*i) > 0).flat_map(|i| if with_binary(i) == 1 { vec![(i, false), (i, true)] } else { vec![(i, false)] }).collect();
    let runs: Vec<cli::Ran> = par_map(&jobs, |(i, verbose)| {
        let b = &obs[*i];
        let l = &layouts[b.layout];
        let dir = b.file_dir.as_ref().unwrap();
        let file = l.sources.iter().find(|(p, _)| p.parent() == Some(dir.as_path())).map(|(p, _)| p.clone()).unwrap_or_else(|| dir.join("nofile.rs"));
        let mut args = b.opts.argv();
        if *verbose {
            args.insert(0, "-v".into());
            args.push("--check".into());
        } else {
            args.push("--print-config".into());
            args.push("current".into());
        }
        args.push(file.to_string_lossy().into_owned());
        if *i % 2 == 1 {
            // the same command line with paths relative to the working directory
            let prefix = format!("{}/", l.root.display());
            for a in args.iter_mut() {
                if let Some(rest) = a.strip_prefix(&prefix) {
                    *a = rest.to_string();
                }
            }
        }
        run_bin(ctx, &l.root, &l.home, l.xdg.as_deref(), &args, b"")
    });
    for ((i, verbose), r) in jobs.iter().zip(runs.iter()) {
        let b = &obs[*i];
        let l = &layouts[b.layout];
        let dir = b.file_dir.as_ref().unwrap();
        if r.timed_out {
            o.count("load-bin:timeout");
            continue;
        }
        let desc = format!("[{}] rustfmt {} {} <file in {}> in {}", b.family, if *verbose { "-v --check" } else { "--print-config current" }, b.opts.describe(), dir.display(), l.describe());
        let args = l.load_args(Some(dir), &b.opts);
        if *verbose {
            // "Using rustfmt config file P for F" (or, with --config-path, "Using rustfmt config file P")
            let out = r.out_str();
            let used: Vec<&str> = out.lines().filter_map(|ln| ln.strip_prefix("Using rustfmt config file ")).collect();
            let expect = if r.code == Some(1) && out.is_empty() && !r.stderr.is_empty() && used.is_empty() && (r.stderr.contains("unable to find a config file") || r.stderr.contains("failed to parse") || r.stderr.contains("No such file")) {
                bin_err_kind(r)
            } else {
                match used.last() {
                    Some(u) => enc_cfg_file(Path::new(u.split(" for ").next().unwrap_or(u))),
                    None => "none".into(),
                }
            };
            o.count("load-bin:-v");
            o.push("corr", "cfg.loadpath", format!("cfg.loadpath {}", args), expect, desc, !all_config_files(l).is_empty());
        } else {
            let expect = if r.code == Some(0) {
                match parse_printed(&ctx.s, &r.out_str()) {
                    Ok(e) => e,
                    Err(e) => format!("!unparsed:{}", e),
                }
            } else {
                bin_err_kind(r)
            };
            printed[*i] = Some(expect.clone());
            o.count("load-bin:print-config");
            o.count(&format!("load-bin-result:{}:{}", b.family, if r.code == Some(0) { "printed" } else { expect.split(':').take(2).collect::<Vec<_>>().join(":").leak() }));
            o.push("corr", "cfg.loadtoml", format!("cfg.loadtoml {}", args), expect, desc, !all_config_files(l).is_empty());
        }
    }
    (api_answers, printed)
}

/// `rustfmt` built with CFG_RELEASE_CHANNEL=stable (is_nightly_channel!() is a compile-time test)
fn build_stable_bin() -> Result<PathBuf, String> {
    let dir = cli::build_dir().join("repo-stable-target");
    let out = Command::new("cargo")
        .current_dir(repo_dir())
        .args(["build", "--offline", "--bin", "rustfmt", "--target-dir"])
        .arg(&dir)
        .env("CFG_RELEASE_CHANNEL", "stable")
        .env("CARGO_NET_OFFLINE", "true")
        .output()
        .map_err(|e| format!("cargo: {}", e))?;
    if !out.status.success() {
        return Err(String::from_utf8_lossy(&out.stderr).chars().rev().take(600).collect::<String>().chars().rev().collect());
    }
    let bin = dir.join("debug").join("rustfmt");
    if bin.exists() { Ok(bin) } else { Err("binary missing after the build".into()) }
}

/// The stable release channel: a config file cannot set unstable options (or unstable variants),
/// `--config` can.  `--print-config current` of the stable binary against cfg.loadtoml with
/// Env.nightly = false, and theorem stable_channel_gating as an oracle on the printed values.
fn stage_stable(ctx: &Ctx, o: &mut Outcome, layouts: &[Layout], obs: &[LoadObs]) {
    let bin = match build_stable_bin() {
        Ok(b) => b,
        Err(e) => {
            o.notes.push(format!("stable-channel binary could not be built, the stable route was not run: {}", e));
            o.count("stable:build-failed");
            return;
        }
    };
    let sctx = Ctx { s: Schema::new(), enums: BTreeMap::new(), bin, work: ctx.work.clone(), empty_home: ctx.empty_home.clone(), neutral: ctx.neutral.clone(), jobs: ctx.jobs };
    let idx: Vec<usize> = (0..obs.len()).collect();
    let runs: Vec<cli::Ran> = par_map(&idx, |i| {
        let b = &obs[*i];
        let l = &layouts[b.layout];
        let dir = b.file_dir.as_ref().unwrap();
        let file = l.sources.iter().find(|(p, _)| p.parent() == Some(dir.as_path())).map(|(p, _)| p.clone()).unwrap_or_else(|| dir.join("nofile.rs"));
        let mut args = b.opts.argv();
        args.push("--print-config".into());
        args.push("current".into());
        args.push(file.to_string_lossy().into_owned());
        run_bin(&sctx, &l.root, &l.home, l.xdg.as_deref(), &args, b"")
    });
    for (b, r) in obs.iter().zip(runs.iter()) {
        let l = &layouts[b.layout];
        let dir = b.file_dir.as_ref().unwrap();
        if r.timed_out {
            o.count("stable:timeout");
            continue;
        }
        let expect = if r.code == Some(0) {
            match parse_printed(&ctx.s, &r.out_str()) {
                Ok(e) => e,
                Err(e) => format!("!unparsed:{}", e),
            }
        } else {
            bin_err_kind(r)
        };
        o.count("stable:print-config");
        let desc = format!("[stable-channel] rustfmt(stable) --print-config current {} <file in {}> in {}", b.opts.describe(), dir.display(), l.describe());
        if r.code == Some(0) {
            // no unstable option differs from its default unless --config names it
            let vals: BTreeMap<String, String> = expect.split(';').filter_map(|kv| kv.split_once('=').map(|(k, v)| (k.to_string(), v.to_string()))).collect();
            o.direct_evals += 1;
            for (k, v) in &vals {
                if ctx.s.stable.get(k) == Some(&false) && k != "version" && !b.opts.inline.iter().any(|t| &t.key == k) {
                    let d = ctx.s.enc_val(k, &ctx.s.canon(k, ctx.s.default_display.get(k).map(|x| x.as_str()).unwrap_or("")));
                    if &d != v && !(k == "emit_mode" || k == "make_backup" || k == "color" || k == "skip_children" || k == "error_on_unformatted" || k == "unstable_features") {
                        o.direct_failures.push(json!({"sig": "c14:stable-channel-gating", "what": format!("on the stable channel the unstable option {} = {} although no --config names it (default {})", k, dec_model_val(v), dec_model_val(&d)), "case": desc}));
                    }
                }
            }
        }
        o.push("corr", "cfg.loadtoml", format!("cfg.loadtoml {}", l.load_args_ch(Some(dir), &b.opts, false)), expect, desc, !all_config_files(l).is_empty());
    }
}

/// t (parent, `rustfmt.toml`), t/c (child, `.rustfmt.toml`), t/d (no file: resolves to the parent);
/// one source in c and one in d
fn two_level(root: &Path, parent: Option<Vec<Tv>>, child: Option<Vec<Tv>>, src: usize) -> Layout {
    let t = root.join("t");
    let mut l = Layout { root: root.to_path_buf(), dirs: vec![], contents: vec![], home: root.join("_home"), xdg: None, sources: vec![], extra: vec![] };
    let mut slot = |l: &mut Layout, c: Option<Vec<Tv>>| match c {
        Some(c) if c.is_empty() => Slot::Empty,
        Some(c) => {
            l.contents.push(c);
            Slot::File(l.contents.len() - 1)
        }
        None => Slot::Absent,
    };
    let ps = slot(&mut l, parent);
    let cs = slot(&mut l, child);
    l.dirs.push(DirSpec { path: t.clone(), dotted: Slot::Absent, plain: ps });
    l.dirs.push(DirSpec { path: t.join("c"), dotted: cs, plain: Slot::Absent });
    l.dirs.push(DirSpec { path: t.join("d"), dotted: Slot::Absent, plain: Slot::Absent });
    l.sources.push((t.join("c").join("f0.rs"), src));
    l.sources.push((t.join("d").join("f1.rs"), src));
    l
}

struct BothSources {
    layouts: Vec<Layout>,
    obs: Vec<LoadObs>,
    /// per observation: the options that must hold these values, by the property itself (no model)
    want: Vec<Vec<(String, String)>>,
    /// per observation: also format the two sources under it (end to end)
    e2e: Vec<bool>,
}

/// Every option given from BOTH a config file and the command line with different values (the
/// command line must be in force), every dedicated flag over a file that sets its option, and the
/// deprecated aliases / their successors from a file x from `--config` in every combination, over two
/// levels of directories.
fn gen_both_sources(ctx: &Ctx, base: &Path) -> BothSources {
    let mut b = BothSources { layouts: vec![], obs: vec![], want: vec![], e2e: vec![] };
    let mut n = 0usize;
    let mut fresh = |b: &BothSources| {
        let _ = b;
        n += 1;
        base.join(format!("b{}", n))
    };
    // ---- A. ordinary options: file value != --config value; the child's file and the parent's file
    for k in &ctx.s.names {
        let mut vals: Vec<Tv> = option_values(ctx, k).into_iter().filter(|t| t.cli.is_some()).collect();
        if k == "required_version" {
            vals.push(ctx.tv(k, "2.0.0"));
        }
        let mut distinct: Vec<Tv> = vec![];
        for t in vals {
            if !distinct.iter().any(|d| d.model == t.model) {
                distinct.push(t);
            }
        }
        if distinct.len() < 2 || ["merge_imports", "fn_args_layout", "hide_parse_errors"].contains(&k.as_str()) {
            continue;
        }
        let (v1, v2) = (distinct[0].clone(), distinct[1].clone());
        let root = fresh(&b);
        let li = b.layouts.len();
        b.layouts.push(two_level(&root, Some(vec![v1.clone()]), Some(vec![v2.clone()]), li % N_GENERIC_SOURCES));
        for (dir, cli) in [("c", v1.clone()), ("d", v2.clone())] {
            b.obs.push(LoadObs { layout: li, file_dir: Some(root.join("t").join(dir)), opts: Opts::default().with_inline(vec![cli.clone()]), family: "both-sources:option" });
            b.want.push(vec![(k.clone(), cli.model.clone())]);
            b.e2e.push(false);
        }
    }
    // ---- B. dedicated flags over files that set the same options (two opposite files)
    {
        let f1: Vec<Tv> = vec![ctx.tv("edition", "2018"), ctx.tv("style_edition", "2021"), ctx.tv("emit_mode", "Json"), ctx.tv("color", "Never"), ctx.tv("make_backup", "false"), ctx.tv("verbose", "Quiet"), ctx.tv("skip_children", "false"), ctx.tv("error_on_unformatted", "false"), ctx.tv("print_misformatted_file_names", "false"), ctx.tv("unstable_features", "false")];
        let f2: Vec<Tv> = vec![ctx.tv("edition", "2021"), ctx.tv("style_edition", "2018"), ctx.tv("emit_mode", "Checkstyle"), ctx.tv("color", "Always"), ctx.tv("make_backup", "false"), ctx.tv("verbose", "Verbose"), ctx.tv("skip_children", "false"), ctx.tv("error_on_unformatted", "false"), ctx.tv("print_misformatted_file_names", "false"), ctx.tv("unstable_features", "false")];
        let root = fresh(&b);
        let li = b.layouts.len();
        b.layouts.push(two_level(&root, Some(f1), Some(f2), 0));
        let x = |s: &str| format!("x{}", enc_str(s));
        let flags: Vec<(Box<dyn Fn(&mut Opts)>, Vec<(&str, String)>)> = vec![
            (Box::new(|o| o.api.edition = Some("2024".into())), vec![("edition", x("2024"))]),
            (Box::new(|o| o.api.style_edition = Some("2015".into())), vec![("style_edition", x("2015"))]),
            (Box::new(|o| o.api.emit = Some("Stdout".into())), vec![("emit_mode", x("Stdout"))]),
            (Box::new(|o| o.api.check = true), vec![("emit_mode", x("Diff"))]),
            (Box::new(|o| o.api.color = Some("Auto".into())), vec![("color", x("Auto"))]),
            (Box::new(|o| o.api.backup = true), vec![("make_backup", "true".into())]),
            (Box::new(|o| o.api.verbose = true), vec![("verbose", x("Verbose"))]),
            (Box::new(|o| o.api.quiet = true), vec![("verbose", x("Quiet"))]),
            (Box::new(|_| {}), vec![("verbose", x("Normal"))]),
            (Box::new(|o| o.api.files_with_diff = true), vec![("print_misformatted_file_names", "true".into())]),
            (Box::new(|o| { o.api.unstable = true; o.api.skip_children = Some(true); }), vec![("skip_children", "true".into()), ("unstable_features", "true".into())]),
            (Box::new(|o| { o.api.unstable = true; o.api.error_on_unformatted = Some(true); }), vec![("error_on_unformatted", "true".into()), ("unstable_features", "true".into())]),
        ];
        for (f, want) in flags {
            for dir in ["c", "d"] {
                let mut oo = Opts::default();
                f(&mut oo);
                b.obs.push(LoadObs { layout: li, file_dir: Some(root.join("t").join(dir)), opts: oo, family: "both-sources:flag" });
                b.want.push(want.iter().map(|(k, v)| (k.to_string(), v.clone())).collect());
                b.e2e.push(false);
            }
        }
    }
    // ---- C. aliases and successors
    let image = |alias: &str, v: &str| -> String {
        match alias {
            "merge_imports" => if v == "true" { "Crate".into() } else { "Preserve".into() },
            "hide_parse_errors" => if v == "true" { "false".into() } else { "true".into() },
            _ => v.to_string(),
        }
    };
    // (alias, successor, two alias values, two successor values, default of the successor)
    let fams: [(&str, &str, [&str; 2], [&str; 2], &str); 3] = [
        ("fn_args_layout", "fn_params_layout", ["Vertical", "Compressed"], ["Compressed", "Vertical"], "Tall"),
        ("merge_imports", "imports_granularity", ["true", "false"], ["Module", "Item"], "Preserve"),
        ("hide_parse_errors", "show_parse_errors", ["true", "false"], ["false", "true"], "true"),
    ];
    for (alias, succ, avals, svals, sdefault) in fams {
        for orient in 0..2 {
            let (a1, a2) = (avals[orient], avals[1 - orient]);
            let (s1, s2) = (svals[orient], svals[1 - orient]);
            // (parent file, child file): what each level gives for (alias, successor)
            type Lv = Option<(Option<&'static str>, Option<&'static str>, bool)>; // (alias, successor, successor written first)
            let _: Lv = None;
            let files: Vec<(Option<(Option<&str>, Option<&str>, bool)>, Option<(Option<&str>, Option<&str>, bool)>)> = vec![
                (Some((None, None, false)), Some((Some(a1), None, false))),          // alias in the child only
                (Some((Some(a1), None, false)), None),                              // alias in the parent, the child has no file
                (Some((Some(a1), None, false)), Some((None, Some(s1), false))),     // successor in the child, alias in the parent
                (None, Some((Some(a1), Some(s1), false))),                          // both in one file, alias first
                (None, Some((Some(a1), Some(s1), true))),                           // both in one file, successor first
                (Some((Some(a1), None, false)), Some((None, None, false))),         // unrelated child file: the parent's alias must not leak
                (Some((Some(a1), None, false)), Some((Some(a2), None, false))),     // alias on both levels
                (Some((None, Some(s1), false)), Some((Some(a1), None, false))),     // successor in the parent, alias in the child
            ];
            let clis: Vec<(Option<&str>, Option<&str>)> = vec![(None, None), (Some(a2), None), (Some(a1), None), (None, Some(s2)), (Some(a2), Some(s2))];
            for (pf, cf) in &files {
                let mk = |lv: &Option<(Option<&str>, Option<&str>, bool)>| -> Option<Vec<Tv>> {
                    lv.as_ref().map(|(a, s, sfirst)| {
                        let mut v = vec![];
                        if let Some(a) = a { v.push(ctx.tv(alias, a)); }
                        if let Some(s) = s { v.push(ctx.tv(succ, s)); }
                        if *sfirst { v.reverse(); }
                        if v.is_empty() { v.push(ctx.tv("tab_spaces", "3")); }
                        v
                    })
                };
                let root = fresh(&b);
                let li = b.layouts.len();
                b.layouts.push(two_level(&root, mk(pf), mk(cf), PARAMS_SOURCE));
                for (ca, cs) in &clis {
                    for dir in ["c", "d"] {
                        // the file in force for this directory
                        let lv = if dir == "c" && cf.is_some() { cf } else { pf };
                        let (fa, fs) = lv.as_ref().map(|x| (x.0, x.1)).unwrap_or((None, None));
                        // the property, spelled out: an explicit successor wins (command line before file), else the
                        // alias (command line before file) maps to it, else the default
                        let want = match (cs, fs, ca, fa) {
                            (Some(s), _, _, _) => s.to_string(),
                            (None, Some(s), _, _) => s.to_string(),
                            (None, None, Some(a), _) => image(alias, a),
                            (None, None, None, Some(a)) => image(alias, a),
                            _ => sdefault.to_string(),
                        };
                        let mut inl = vec![];
                        if let Some(a) = ca { inl.push(ctx.tv(alias, a)); }
                        if let Some(s) = cs { inl.push(ctx.tv(succ, s)); }
                        if (li + inl.len()) % 2 == 1 { inl.reverse(); }
                        let mut oo = Opts::default().with_inline(inl);
                        oo.split_config = li % 2 == 0;
                        b.obs.push(LoadObs { layout: li, file_dir: Some(root.join("t").join(dir)), opts: oo, family: "both-sources:alias" });
                        b.want.push(vec![(succ.to_string(), ctx.s.enc_val(succ, &want))]);
                        // formatting shows the parameter layout and the import granularity
                        b.e2e.push(alias != "hide_parse_errors" && dir == "c");
                    }
                }
            }
        }
    }
    b
}

/// runs the both-sources family: correspondence as for every load, and the property itself on what
/// the API returned and on what the binary printed
fn stage_both_sources(ctx: &Ctx, o: &mut Outcome, b: &BothSources) {
    let idx: Vec<usize> = (0..b.layouts.len()).collect();
    par_map(&idx, |i| b.layouts[*i].materialise());
    let (api, printed) = stage_loads2(ctx, o, &b.layouts, &b.obs, &|_| 2);
    for (i, ob) in b.obs.iter().enumerate() {
        let l = &b.layouts[ob.layout];
        let dir = ob.file_dir.as_ref().unwrap();
        let file = l.sources.iter().find(|(p, _)| p.parent() == Some(dir.as_path())).map(|(p, _)| p.display().to_string()).unwrap_or_default();
        let cmd = format!("cd {} && HOME={} rustfmt {} --print-config current {}", l.root.display(), l.home.display(), ob.opts.describe(), file);
        let files: Vec<String> = l.dirs.iter().flat_map(|d| [(".rustfmt.toml", d.dotted), ("rustfmt.toml", d.plain)].into_iter().filter_map(move |(n, s)| match s { Slot::File(ci) => Some(format!("{}/{} = {{{}}}", d.path.strip_prefix(&l.root).unwrap_or(&d.path).display(), n, toml_text(&l.contents[ci]).trim_end().replace('\n', "; "))), Slot::Empty => Some(format!("{}/{} = {{}}", d.path.strip_prefix(&l.root).unwrap_or(&d.path).display(), n)), _ => None })).collect();
        for (route, ans) in [("load_config", api[i].as_ref().and_then(|a| a.split_once(';').map(|x| x.1.to_string()))), ("--print-config current", printed[i].clone())] {
            let ans = match ans {
                Some(a) if !a.starts_with("err") && !a.starts_with('!') && a != "unprintable" => a,
                _ => continue,
            };
            let f = parse_fields(&ans);
            for (k, want) in &b.want[i] {
                let got = match f.get(k) {
                    Some(g) => g.0.clone(),
                    None => continue, // an option that --print-config does not print
                };
                o.direct_evals += 1;
                if &got != want {
                    o.direct_failures.push(json!({
                        "sig": format!("c14:{}", ob.family),
                        "what": format!("{}: {} = {} is due (command line before the nearest file, an alias mapping to its successor), {} gives {}", ob.family, k, dec_model_val(want), route, dec_model_val(&got)),
                        "cmd": cmd, "files": files,
                    }));
                }
            }
        }
    }
}

/// the dedicated flags of the command line x a file that sets the same options
fn gen_flags(ctx: &Ctx, base: &Path, first_layout: usize) -> (Vec<Layout>, Vec<LoadObs>) {
    let file_all: Vec<Tv> = vec![
        ctx.tv("emit_mode", "Json"), ctx.tv("color", "Never"), ctx.tv("make_backup", "true"), ctx.tv("verbose", "Verbose"), ctx.tv("skip_children", "true"),
        ctx.tv("error_on_unformatted", "true"), ctx.tv("print_misformatted_file_names", "true"), ctx.tv("unstable_features", "true"), ctx.tv("edition", "2018"), ctx.tv("style_edition", "2021"),
    ];
    let files: Vec<Vec<Tv>> = vec![vec![], file_all.clone(), file_all.iter().step_by(2).cloned().collect()];
    let mut layouts = vec![];
    let mut obs = vec![];
    for (fi, content) in files.into_iter().enumerate() {
        let root = base.join(format!("g{}", fi));
        let dir = root.join("t");
        let src = dir.join("f0.rs");
        let l = Layout { root: root.clone(), dirs: vec![DirSpec { path: dir.clone(), dotted: Slot::File(0), plain: Slot::Absent }], contents: vec![content], home: root.join("_home"), xdg: None, sources: vec![(src.clone(), 0)], extra: vec![] };
        let li = first_layout + layouts.len();
        layouts.push(l);
        let mut push = |f: &dyn Fn(&mut Opts)| {
            let mut oo = Opts::default();
            f(&mut oo);
            obs.push(LoadObs { layout: li, file_dir: Some(dir.clone()), opts: oo, family: "dedicated-flags" });
        };
        push(&|_| {});
        push(&|o| o.api.verbose = true);
        push(&|o| o.api.quiet = true);
        push(&|o| o.api.check = true);
        push(&|o| o.api.backup = true);
        push(&|o| o.api.files_with_diff = true);
        push(&|o| o.api.unstable = true);
        for m in ["Files", "Stdout", "Coverage", "Checkstyle", "Json"] {
            push(&|o| o.api.emit = Some(m.to_string()));
        }
        for c in ["Always", "Never", "Auto"] {
            push(&|o| o.api.color = Some(c.to_string()));
        }
        push(&|o| { o.api.unstable = true; o.api.skip_children = Some(true); });
        push(&|o| { o.api.unstable = true; o.api.error_on_unformatted = Some(true); });
        let fl = format!("[{{\"file\":\"{}\",\"range\":[1,2]}}]", src.display());
        push(&|o| { o.api.unstable = true; o.api.file_lines = Some(fl.clone()); });
        push(&|o| { o.api.check = true; o.api.backup = true; o.api.files_with_diff = true; o.api.verbose = true; });
        push(&|o| { o.api.quiet = true; o.api.emit = Some("Json".into()); o.api.color = Some("Never".into()); o.api.edition = Some("2021".into()); o.api.style_edition = Some("2024".into()); });
        // a --config pair for an option that a flag sets too: the pair is applied last
        for (k, v) in [("emit_mode", "Files"), ("emit_mode", "Checkstyle"), ("color", "Always"), ("make_backup", "false"), ("verbose", "Quiet"), ("skip_children", "false"), ("print_misformatted_file_names", "false"), ("unstable_features", "true")] {
            let t = ctx.tv(k, v);
            let t2 = t.clone();
            push(&move |o| { *o = std::mem::take(o).with_inline(vec![t.clone()]); });
            push(&move |o| {
                *o = std::mem::take(o).with_inline(vec![t2.clone()]);
                o.api.check = true;
                o.api.backup = true;
                o.api.verbose = true;
                o.api.files_with_diff = true;
                o.api.color = Some("Never".into());
                o.api.unstable = true;
                o.api.skip_children = Some(true);
            });
        }
    }
    (layouts, obs)
}

/// style_edition / version / edition: every combination in the file x a list of command lines
fn gen_precedence(ctx: &Ctx, base: &Path, first_layout: usize) -> (Vec<Layout>, Vec<LoadObs>, Vec<(usize, usize)>) {
    let ses = ["", "2015", "2018", "2021", "2024", "2027"];
    let vers = ["", "One", "Two"];
    let eds = ["", "2015", "2018", "2021", "2024"];
    // (--style-edition, --edition, --config pairs)
    let clis: Vec<(Option<&str>, Option<&str>, Vec<(&str, &str)>)> = vec![
        (None, None, vec![]),
        (Some("2024"), None, vec![]),
        (Some("2015"), None, vec![]),
        (Some("2027"), None, vec![]),
        (None, Some("2024"), vec![]),
        (None, Some("2018"), vec![]),
        (None, None, vec![("style_edition", "2024")]),
        (None, None, vec![("style_edition", "2018")]),
        (None, None, vec![("version", "Two")]),
        (None, None, vec![("version", "One")]),
        (None, None, vec![("edition", "2024")]),
        (None, None, vec![("edition", "2021")]),
        (Some("2015"), None, vec![("style_edition", "2024")]),
        (None, Some("2024"), vec![("version", "One")]),
        (None, Some("2015"), vec![("edition", "2024")]),
        (Some("2021"), Some("2024"), vec![("version", "Two")]),
        (None, None, vec![("style_edition", "2021"), ("edition", "2024"), ("version", "Two")]),
    ];
    let mut layouts = vec![];
    let mut obs = vec![];
    let mut index = vec![];
    let mut n = 0;
    for se in ses {
        for ver in vers {
            for ed in eds {
                let root = base.join(format!("p{}", n));
                let dir = root.join("t");
                let mut c = vec![];
                if !se.is_empty() { c.push(ctx.tv("style_edition", se)); }
                if !ver.is_empty() { c.push(ctx.tv("version", ver)); }
                if !ed.is_empty() { c.push(ctx.tv("edition", ed)); }
                let l = Layout { root: root.clone(), dirs: vec![DirSpec { path: dir.clone(), dotted: Slot::Absent, plain: Slot::File(0) }], contents: vec![c], home: root.join("_home"), xdg: None, sources: vec![(dir.join("f0.rs"), n % N_GENERIC_SOURCES)], extra: vec![] };
                for (ci, (fse, fed, inl)) in clis.iter().enumerate() {
                    let mut oo = Opts::default().with_inline(inl.iter().map(|(k, v)| ctx.tv(k, v)).collect());
                    oo.api.style_edition = fse.map(|x| x.to_string());
                    oo.api.edition = fed.map(|x| x.to_string());
                    oo.split_config = (n + ci) % 2 == 0;
                    obs.push(LoadObs { layout: first_layout + layouts.len(), file_dir: Some(dir.clone()), opts: oo, family: "style-edition-precedence" });
                    index.push((n, ci));
                }
                layouts.push(l);
                n += 1;
            }
        }
    }
    (layouts, obs, index)
}

// ------------------------------------------------------------------------------------------------
// stage: end-to-end.  The model says which configuration is in force for every file; the binary's
// output for that file must be the text that the same source gets under exactly those values
// (given explicitly with --config, on standard input, in a directory without any config file).

/// options whose effective value is handed to the reference run
fn e2e_keys(s: &Schema) -> Vec<String> {
    let skip = ["verbose", "emit_mode", "make_backup", "print_misformatted_file_names", "color", "unstable_features", "merge_imports", "fn_args_layout", "hide_parse_errors", "version"];
    s.names.iter().filter(|k| !OPAQUE.contains(&k.as_str()) && !skip.contains(&k.as_str())).cloned().collect()
}

fn permutations(n: usize) -> Vec<Vec<usize>> {
    fn rec(cur: &mut Vec<usize>, used: &mut Vec<bool>, n: usize, out: &mut Vec<Vec<usize>>) {
        if cur.len() == n {
            out.push(cur.clone());
            return;
        }
        for i in 0..n {
            if !used[i] {
                used[i] = true;
                cur.push(i);
                rec(cur, used, n, out);
                cur.pop();
                used[i] = false;
            }
        }
    }
    let mut out = vec![];
    rec(&mut vec![], &mut vec![false; n], n, &mut out);
    out
}

/// `--emit stdout` of several files: "<path>:\n\n<text>" per file, in command-line order
fn split_stdout(out: &str, files: &[PathBuf]) -> Option<Vec<String>> {
    let mut pos = vec![];
    let mut from = 0;
    for f in files {
        let h = format!("{}:\n\n", f.display());
        let at = out[from..].find(&h)? + from;
        pos.push((at, at + h.len()));
        from = at + h.len();
    }
    let mut res = vec![];
    for i in 0..files.len() {
        let end = if i + 1 < files.len() { pos[i + 1].0 } else { out.len() };
        res.push(out[pos[i].1..end].to_string());
    }
    Some(res)
}

struct E2eSet {
    layout: usize,
    opts: Opts,
    family: &'static str,
}

fn stage_e2e(ctx: &Ctx, o: &mut Outcome, layouts: &[Layout], sets: &[E2eSet], max_orders: usize) {
    let keys = e2e_keys(&ctx.s);
    let keys_arg = keys.join(",");
    // 1. the model's effective values for every (set, file), and the defaults
    let _ = &keys_arg;
    let mut reqs: Vec<String> = vec!["cfg.loadall 1 _ - - - _ _ _".to_string()];
    let mut index: Vec<(usize, usize)> = vec![];
    for (si, set) in sets.iter().enumerate() {
        let l = &layouts[set.layout];
        for (fi, (p, _)) in l.sources.iter().enumerate() {
            reqs.push(format!("cfg.loadall {}", l.load_args(p.parent(), &set.opts)));
            index.push((si, fi));
        }
    }
    let answers = run_model(&reqs, ctx.jobs);
    let parse_vals = |a: &str| -> Option<Vec<(String, String)>> {
        if a.starts_with("err") || a.starts_with('!') || a == "?" {
            return None;
        }
        // `file;key=value:was_set:was_set_cli;…`: the values of the e2e keys; a width option only when it
        // was set (else it is derived from max_width and use_small_heuristics, which are handed over)
        let (_, fields) = a.split_once(';')?;
        let f = parse_fields(fields);
        Some(keys.iter().map(|k| {
            let e = f.get(k).cloned().unwrap_or_default();
            let v = if WIDTH_KEYS.contains(&k.as_str()) && !e.1 { "derived".to_string() } else { dec_model_val(&e.0) };
            (k.clone(), v)
        }).collect())
    };
    let defaults = match parse_vals(&answers[0]) {
        Some(d) => d,
        None => {
            o.direct_failures.push(json!({"sig": "c14:model-defaults", "what": format!("the model did not answer the default configuration: {}", answers[0])}));
            return;
        }
    };
    // per (set, file): Some(pairs that differ from the defaults) | None (the model says: error)
    let mut model_cfg: HashMap<(usize, usize), Option<Vec<(String, String)>>> = HashMap::new();
    for ((si, fi), a) in index.iter().zip(answers[1..].iter()) {
        let v = parse_vals(a).map(|vals| vals.into_iter().zip(defaults.iter()).filter(|(x, d)| x.1 != d.1).map(|(x, _)| x).collect::<Vec<_>>());
        model_cfg.insert((*si, *fi), v);
    }
    // 2. reference texts (memoised): source x explicit values
    let mut want: BTreeSet<(usize, String)> = BTreeSet::new();
    for ((si, fi), cfg) in &model_cfg {
        if let Some(pairs) = cfg {
            let src = layouts[sets[*si].layout].sources[*fi].1;
            want.insert((src, pairs.iter().map(|(k, v)| format!("{}={}", k, v)).collect::<Vec<_>>().join(",")));
        }
    }
    let want: Vec<(usize, String)> = want.into_iter().collect();
    let refs: Vec<Option<String>> = par_map(&want, |(src, pairs)| {
        let mut args: Vec<String> = vec!["--emit".into(), "stdout".into()];
        if !pairs.is_empty() {
            args.push("--config".into());
            args.push(pairs.clone());
        }
        let r = run_bin(ctx, &ctx.neutral, &ctx.empty_home, Some(&ctx.empty_home.to_string_lossy()), &args, PROBE_SOURCES[*src % PROBE_SOURCES.len()].as_bytes());
        if r.code == Some(0) && !r.timed_out { Some(r.out_str()) } else { None }
    });
    let reference: HashMap<(usize, String), Option<String>> = want.into_iter().zip(refs.into_iter()).collect();
    o.count_n("e2e:reference-texts", reference.len() as u64);
    o.count_n("e2e:distinct-reference-texts", reference.values().filter_map(|x| x.as_ref()).collect::<BTreeSet<_>>().len() as u64);

    // 3. the runs: every file alone, then jointly in every order
    struct Job {
        set: usize,
        order: Vec<usize>,
        /// the source on standard input, working directory = the file's directory (main.rs format_string:
        /// load_config(Some("."), ..))
        stdin: bool,
    }
    let mut jobs: Vec<Job> = vec![];
    for (si, set) in sets.iter().enumerate() {
        let n = layouts[set.layout].sources.len();
        for i in 0..n {
            jobs.push(Job { set: si, order: vec![i], stdin: false });
        }
        for i in 0..n {
            jobs.push(Job { set: si, order: vec![i], stdin: true });
        }
        if n > 1 {
            let mut perms = permutations(n);
            if perms.len() > max_orders {
                // a fixed spread of the orders (independent of the seed)
                let step = perms.len() / max_orders;
                perms = perms.into_iter().step_by(step.max(1)).take(max_orders).collect();
            }
            for p in perms {
                jobs.push(Job { set: si, order: p, stdin: false });
            }
        }
    }
    let runs: Vec<cli::Ran> = par_map(&jobs, |j| {
        let set = &sets[j.set];
        let l = &layouts[set.layout];
        let mut args = set.opts.argv();
        if j.stdin {
            let (p, si) = &l.sources[j.order[0]];
            return run_bin(ctx, p.parent().unwrap(), &l.home, l.xdg.as_deref(), &args, PROBE_SOURCES[*si % PROBE_SOURCES.len()].as_bytes());
        }
        args.push("--emit".into());
        args.push("stdout".into());
        for i in &j.order {
            args.push(l.sources[*i].0.to_string_lossy().into_owned());
        }
        run_bin(ctx, &l.root, &l.home, l.xdg.as_deref(), &args, b"")
    });
    let mut singles: HashMap<(usize, usize), String> = HashMap::new();
    for (j, r) in jobs.iter().zip(runs.iter()) {
        let set = &sets[j.set];
        let l = &layouts[set.layout];
        let files: Vec<PathBuf> = j.order.iter().map(|i| l.sources[*i].0.clone()).collect();
        let cmd = format!("cd {} && HOME={} XDG_CONFIG_HOME={:?} rustfmt {} --emit stdout {}", l.root.display(), l.home.display(), l.xdg, set.opts.describe(), files.iter().map(|f| f.display().to_string()).collect::<Vec<_>>().join(" "));
        if r.timed_out {
            o.count("e2e:timeout");
            continue;
        }
        o.count(&format!("e2e:{}:{}", set.family, if j.stdin { "stdin".to_string() } else { format!("{}-files", j.order.len()) }));
        let model_err = j.order.iter().any(|i| model_cfg.get(&(j.set, *i)).map(|x| x.is_none()).unwrap_or(true));
        if model_err {
            // the model says a configuration fails to load: the run must not succeed silently
            o.direct_evals += 1;
            if r.code == Some(0) {
                o.direct_failures.push(json!({"sig": "c14:e2e-load-error-expected", "what": "the model says that a configuration of this run fails to load, the binary exits 0", "cmd": cmd, "layout": l.describe()}));
            }
            continue;
        }
        let cmd = if j.stdin { format!("cd {} && HOME={} XDG_CONFIG_HOME={:?} rustfmt {} < {}", files[0].parent().unwrap().display(), l.home.display(), l.xdg, set.opts.describe(), files[0].display()) } else { cmd };
        let texts = match (r.code, if j.stdin { Some(vec![r.out_str()]) } else { split_stdout(&r.out_str(), &files) }) {
            (Some(0), Some(t)) => t,
            _ => {
                o.direct_evals += 1;
                o.direct_failures.push(json!({"sig": "c14:e2e-run-failed", "what": format!("{} stderr: {}", r.status_word(), r.stderr.chars().take(300).collect::<String>()), "cmd": cmd, "layout": l.describe()}));
                continue;
            }
        };
        for (pos, i) in j.order.iter().enumerate() {
            let pairs = model_cfg[&(j.set, *i)].clone().unwrap();
            let key = (l.sources[*i].1, pairs.iter().map(|(k, v)| format!("{}={}", k, v)).collect::<Vec<_>>().join(","));
            let expect = match reference.get(&key).and_then(|x| x.as_ref()) {
                Some(e) => e,
                None => {
                    o.count("e2e:no-reference");
                    continue;
                }
            };
            o.direct_evals += 1;
            if j.order.len() == 1 && !j.stdin {
                o.direct_distinct += 1;
                singles.insert((j.set, *i), texts[pos].clone());
            }
            if &texts[pos] != expect {
                // which configuration of the tree WOULD give this text?
                let matching: Vec<String> = reference.iter().filter(|(k, v)| k.0 == key.0 && v.as_deref() == Some(texts[pos].as_str())).map(|(k, _)| k.1.clone()).collect();
                o.direct_failures.push(json!({
                    "sig": "c14:e2e-wrong-config",
                    "what": format!("{} (position {} of {}) is not formatted with the configuration the model resolves for it [{}]; its text is what [{}] gives", files[pos].display(), pos + 1, files.len(), key.1, if matching.is_empty() { "no configuration of this run".to_string() } else { matching.join(" | ") }),
                    "cmd": cmd, "layout": l.describe(), "expected": expect, "got": texts[pos],
                }));
            } else if j.order.len() > 1 {
                if let Some(s) = singles.get(&(j.set, *i)) {
                    o.direct_evals += 1;
                    if s != &texts[pos] {
                        o.direct_failures.push(json!({"sig": "c14:e2e-joint-vs-single", "what": format!("{} gets a different text in the joint run than alone", files[pos].display()), "cmd": cmd, "layout": l.describe()}));
                    }
                }
            }
        }
    }
}

// ------------------------------------------------------------------------------------------------
// enumerated probes of the known-dirty shapes (seed-independent)

fn probes(ctx: &Ctx, o: &mut Outcome) {
    let ops_case = |ops: Vec<Op>, keys: &[&str]| json!({"t": "ops", "ops": ops.iter().map(|x| x.real()).collect::<Vec<_>>(), "keys": keys});
    let d = ctx.work.join("probe");
    let _ = std::fs::remove_dir_all(&d);
    std::fs::create_dir_all(&d).unwrap();
    std::fs::write(d.join("f.rs"), "fn main() {}\n").unwrap();
    std::fs::write(d.join("rustfmt.toml"), "unstable_features = true\n").unwrap();
    let cases = vec![
        ops_case(vec![Op::Override(ctx.tv("max_width", "50"))], &["max_width", "fn_call_width", "attr_fn_like_width"]),
        json!({"t": "ops", "ops": [Op::Override(ctx.tv("max_width", "50")).real()], "roundtrip": true}),
        ops_case(vec![Op::Set(ctx.tv("fn_call_width", "50"))], &["fn_call_width"]),
        ops_case(vec![Op::Override(ctx.tv("fn_call_width", "50"))], &["fn_call_width"]),
        ops_case(vec![Op::Set(ctx.tv("merge_imports", "true"))], &["imports_granularity"]),
        ops_case(vec![Op::Override(ctx.tv("merge_imports", "true"))], &["imports_granularity"]),
        ops_case(vec![Op::Override(ctx.tv("hide_parse_errors", "true"))], &["show_parse_errors"]),
        json!({"t": "load", "home": ctx.empty_home.to_string_lossy(), "xdg": ctx.empty_home.to_string_lossy(), "dir": d.to_string_lossy(), "opts": ApiOpts::default().to_json(), "keys": ["unstable_features"]}),
        json!({"t": "load", "home": ctx.empty_home.to_string_lossy(), "xdg": ctx.empty_home.to_string_lossy(), "dir": ctx.neutral.to_string_lossy(), "opts": ApiOpts { inline: vec![("unstable_features".into(), "true".into())], ..Default::default() }.to_json(), "keys": ["unstable_features"]}),
        json!({"t": "ops", "ops": [Op::Toml(vec![ctx.tv("skip_macro_invocations", "vec")]).real()], "roundtrip": true}),
        json!({"t": "ops", "ops": [Op::Toml(vec![ctx.tv("skip_macro_invocations", "*")]).real()], "roundtrip": true}),
    ];
    let res = run_children(&cases, &ctx.work, "probe", 1, Duration::from_secs(60));
    let get = |i: usize| -> String { res.get(i).and_then(|x| x.as_ref()).map(|v| v["r"].as_str().or(v["fields"].as_str()).unwrap_or("").to_string()).unwrap_or_default() };
    let val = |i: usize, k: &str| -> String { parse_fields(&get(i)).get(k).map(|x| dec_model_val(&x.0)).unwrap_or_default() };
    if res.iter().any(|x| x.is_none()) {
        o.count("probe:child-inconclusive");
        return;
    }
    // F8b
    let (mw, fc, af) = (val(0, "max_width"), val(0, "fn_call_width"), val(0, "attr_fn_like_width"));
    let exceeds = fc.parse::<usize>().unwrap_or(0) > mw.parse::<usize>().unwrap_or(0);
    o.probes.push(json!({"id": "F8b", "fails": exceeds || get(1) != "same", "what": format!("`--config max_width=50` (use_small_heuristics = Default): fn_call_width = {}, attr_fn_like_width = {} exceed max_width = {}; printing this configuration and loading the text again gives `{}` (the widths come back clamped)", fc, af, mw, get(1)), "detail": {"fields": get(0), "roundtrip": get(1)}}));
    // F16
    o.probes.push(json!({"id": "F16", "fails": val(2, "fn_call_width") != val(3, "fn_call_width"), "what": format!("config.set().fn_call_width(50) leaves fn_call_width = {} (the setter does not mark the option as set, the set_heuristics() it triggers overwrites it); override_value gives {}", val(2, "fn_call_width"), val(3, "fn_call_width")), "detail": {"api": get(2), "override": get(3)}}));
    o.probes.push(json!({"id": "F16b", "fails": val(4, "imports_granularity") != val(5, "imports_granularity"), "what": format!("config.set().merge_imports(true) leaves imports_granularity = {} (set_merge_imports acts only when was_set, which the API setter never makes true); override_value gives {}", val(4, "imports_granularity"), val(5, "imports_granularity")), "detail": {"api": get(4), "override": get(5)}}));
    // F29
    o.probes.push(json!({"id": "F29", "fails": val(6, "show_parse_errors") == "true", "what": format!("`--config hide_parse_errors=true` yields show_parse_errors = {}: set_hide_parse_errors copies the value of the deprecated alias into its successor without negating it", val(6, "show_parse_errors")), "detail": {"fields": get(6)}}));
    // F30
    o.probes.push(json!({"id": "F30", "fails": val(7, "unstable_features") != val(8, "unstable_features"), "what": format!("`unstable_features = true` in rustfmt.toml ends as {} (apply_to calls config.set().unstable_features(false) when the flag is absent), `--config unstable_features=true` as {}", val(7, "unstable_features"), val(8, "unstable_features")), "detail": {"file": get(7), "config": get(8)}}));
    // F31
    o.probes.push(json!({"id": "F31", "fails": get(9) != "same" || get(10) != "same", "what": format!("print / re-parse of `skip_macro_invocations = [\"vec\"]` gives `{}`, of `[\"*\"]` gives `{}`", get(9), get(10)), "detail": {}}));
    // F8a and F3 on the binary
    let args: Vec<String> = ["--print-config", "current", "f.rs", "--config", "use_small_heuristics=Off"].iter().map(|s| s.to_string()).collect();
    let r = run_bin(ctx, &ctx.neutral, &ctx.empty_home, Some(&ctx.empty_home.to_string_lossy()), &args, b"");
    o.probes.push(json!({"id": "F8a", "fails": r.code != Some(0), "what": format!("`rustfmt --print-config current f.rs --config use_small_heuristics=Off`: {} `{}` (four widths are usize::MAX, which the TOML serialiser rejects)", r.status_word(), r.stderr.trim().chars().take(160).collect::<String>()), "detail": {"stderr": r.stderr}}));
    let args: Vec<String> = ["--print-config", "current", "f.rs", "--config", "max_width=120,fn_call_width=110,chain_width=115"].iter().map(|s| s.to_string()).collect();
    let idx: Vec<usize> = (0..16).collect();
    let outs: Vec<String> = par_map(&idx, |_| {
        let r = run_bin(ctx, &ctx.neutral, &ctx.empty_home, Some(&ctx.empty_home.to_string_lossy()), &args, b"");
        r.out_str().lines().filter(|l| l.starts_with("fn_call_width") || l.starts_with("chain_width")).collect::<Vec<_>>().join(" ")
    });
    let distinct: BTreeSet<&String> = outs.iter().collect();
    o.probes.push(json!({"id": "F3", "fails": distinct.len() != 1 || !outs[0].contains("fn_call_width = 110") || !outs[0].contains("chain_width = 115"), "what": format!("16 runs of `--config max_width=120,fn_call_width=110,chain_width=115` print {:?}", distinct), "detail": {"values": outs}}));
}

// ------------------------------------------------------------------------------------------------

fn ancestors_clean(p: &Path) -> bool {
    let mut cur = Some(p);
    while let Some(d) = cur {
        for n in [".rustfmt.toml", "rustfmt.toml"] {
            if d.join(n).is_file() {
                return false;
            }
        }
        cur = d.parent();
    }
    true
}

pub fn run(tier: &str, seed: u64, out: &Path) -> i32 {
    crate::pool::install_panic_hook();
    let mut o = Outcome::new("C14", tier, seed);
    let thorough = tier == "thorough";
    let mut rng = Rng::new(seed ^ 0xc14);
    let mut work = out.parent().unwrap_or(Path::new("/verif/work")).join("c14");
    let _ = std::fs::remove_dir_all(&work);
    std::fs::create_dir_all(&work).unwrap();
    work = std::fs::canonicalize(&work).unwrap_or(work);
    if !ancestors_clean(&work) {
        work = std::env::temp_dir().join(format!("rfverif-c14-{}", std::process::id()));
        let _ = std::fs::remove_dir_all(&work);
        std::fs::create_dir_all(&work).unwrap();
        work = std::fs::canonicalize(&work).unwrap_or(work);
    }
    if !ancestors_clean(&work) {
        o.notes.push("no scratch directory without a rustfmt.toml above it: nothing was run".into());
        o.direct_failures.push(json!({"sig": "c14:environment", "what": "a rustfmt.toml exists above every candidate scratch directory"}));
        return o.finish(out, jobs());
    }
    let bin = crate::c05::rustfmt_bin();
    if !bin.exists() {
        o.direct_failures.push(json!({"sig": "c14:no-rustfmt-binary", "what": format!("{} is missing", bin.display())}));
        return o.finish(out, jobs());
    }
    let s = Schema::new();
    let enums = enum_values(&s);
    let empty_home = work.join("empty-home");
    let neutral = work.join("neutral");
    std::fs::create_dir_all(&empty_home).unwrap();
    std::fs::create_dir_all(&neutral).unwrap();
    std::fs::write(neutral.join("f.rs"), "fn main() {}\n").unwrap();
    let ctx = Ctx { s, enums, bin, work: work.clone(), empty_home, neutral, jobs: jobs().min(8) };
    o.count_n("schema:options", ctx.s.names.len() as u64);
    o.count_n("schema:enum-values", ctx.enums.values().map(|v| v.len() as u64).sum());

    // (b) value resolution
    let mut cases = gen_singles(&ctx);
    let n_singles = cases.len();
    cases.extend(gen_aliases(&ctx));
    cases.extend(gen_widths(&ctx, &mut rng, thorough));
    cases.extend(gen_mixed(&ctx, &mut rng, if thorough { 30000 } else { 500 }));
    let results = stage_ops(&ctx, &mut o, &cases);
    same_effect_oracle(&mut o, &cases[..n_singles], &results[..n_singles]);
    alias_oracle(&mut o, &cases, &results);
    // (c) heuristics, exhaustively
    stage_scaled(&ctx, &mut o);
    // (d) print / re-parse
    stage_roundtrip(&ctx, &mut o, &mut rng, if thorough { 12000 } else { 250 });

    // (a) layouts
    let lay = work.join("lay");
    let mut layouts = enumerated_layouts(&ctx, &lay);
    let n_enum = layouts.len();
    let n_random = if thorough { 2500 } else { 70 };
    for i in 0..n_random {
        layouts.push(gen_layout(&ctx, &mut rng, lay.join(format!("r{}", i))));
    }
    let idx: Vec<usize> = (0..layouts.len()).collect();
    par_map(&idx, |i| layouts[*i].materialise());
    let mut obs: Vec<LoadObs> = vec![];
    for (li, l) in layouts.iter().enumerate() {
        for (p, _) in &l.sources {
            let dir = p.parent().unwrap().to_path_buf();
            if li < n_enum {
                obs.push(LoadObs { layout: li, file_dir: Some(dir.clone()), opts: Opts::default(), family: "enumerated-two-levels" });
            } else {
                obs.push(LoadObs { layout: li, file_dir: Some(dir.clone()), opts: Opts::default(), family: "random-layout" });
                obs.push(LoadObs { layout: li, file_dir: Some(dir.clone()), opts: random_opts(&ctx, &mut rng, l), family: "random-layout+options" });
            }
        }
        if li >= n_enum {
            // every kind of --config-path once per layout, and the directory-less call
            obs.push(LoadObs { layout: li, file_dir: Some(l.sources[0].0.parent().unwrap().to_path_buf()), opts: Opts::default().with_cfg_path(random_cfg_path(&mut rng, l)), family: "config-path" });
            obs.push(LoadObs { layout: li, file_dir: None, opts: random_opts(&ctx, &mut rng, l), family: "no-directory" });
            obs.push(LoadObs { layout: li, file_dir: Some(l.root.join("_missing_dir")), opts: Opts::default(), family: "missing-directory" });
        }
    }
    // the missing-directory and no-directory families have no source file: API only
    let (with_file, api_only): (Vec<LoadObs>, Vec<LoadObs>) = obs.into_iter().partition(|b| b.file_dir.as_ref().map(|d| layouts[b.layout].sources.iter().any(|(p, _)| p.parent() == Some(d.as_path()))).unwrap_or(false));
    stage_loads(&ctx, &mut o, &layouts, &with_file, &|_| 1);
    stage_loads(&ctx, &mut o, &layouts, &api_only, &|_| 0);

    // the stable channel (binary only: the channel is a compile-time constant)
    {
        let n_stable = if thorough { with_file.len() } else { with_file.len().min(160) };
        stage_stable(&ctx, &mut o, &layouts, &with_file[with_file.len() - n_stable..]);
    }

    // the dedicated flags
    {
        let (fl, fobs) = gen_flags(&ctx, &lay, 0);
        for l in &fl {
            l.materialise();
        }
        stage_loads(&ctx, &mut o, &fl, &fobs, &|_| 2);
    }

    // style_edition / version / edition precedence
    {
        let (pl, pobs, pindex) = gen_precedence(&ctx, &lay, 0);
        let idx: Vec<usize> = (0..pl.len()).collect();
        par_map(&idx, |i| pl[*i].materialise());
        let stride = if thorough { 1 } else { 6 };
        let answers = stage_loads(&ctx, &mut o, &pl, &pobs, &|i| (i % stride == 0) as u8);
        // one of the three options alone: from the file (no flag) and from --config (empty file) — all fields equal
        let fields = |a: &Option<String>| a.as_ref().and_then(|x| x.split_once(';').map(|y| y.1.to_string()));
        let find = |n: usize, ci: usize| pindex.iter().position(|x| *x == (n, ci)).and_then(|i| fields(&answers[i]));
        // the documented precedence, computed here on its own: style_edition > version > edition, command line
        // (--config pair > flag) before the file, field by field
        for (i, (n, _)) in pindex.iter().enumerate() {
            let f = match fields(&answers[i]) {
                Some(f) => parse_fields(&f),
                None => continue,
            };
            let ob = &pobs[i];
            let file = &pl[*n].contents[0];
            let from_file = |k: &str| file.iter().find(|t| t.key == k).map(|t| dec_model_val(&t.model));
            let from_inline = |k: &str| ob.opts.inline.iter().rev().find(|t| t.key == k).map(|t| dec_model_val(&t.model));
            let se = from_inline("style_edition").or(ob.opts.api.style_edition.clone()).or(from_file("style_edition"));
            let ver = from_inline("version").or(from_file("version"));
            let ed = from_inline("edition").or(ob.opts.api.edition.clone()).or(from_file("edition"));
            let chosen = match (&se, &ver, &ed) {
                (Some(s), _, _) => s.clone(),
                (None, Some(v), _) => if v == "Two" { "2024".to_string() } else { "2015".to_string() },
                (None, None, Some(e)) => e.clone(),
                _ => "2015".to_string(),
            };
            let new_style = chosen == "2024" || chosen == "2027";
            let want_se = se.clone().unwrap_or_else(|| if new_style { "2024".into() } else { "2015".into() });
            let want_ver = ver.clone().unwrap_or_else(|| if new_style { "Two".into() } else { "One".into() });
            let got_se = f.get("style_edition").map(|x| dec_model_val(&x.0)).unwrap_or_default();
            let got_ver = f.get("version").map(|x| dec_model_val(&x.0)).unwrap_or_default();
            o.direct_evals += 1;
            if got_se != want_se || got_ver != want_ver {
                o.direct_failures.push(json!({"sig": "c14:style-edition-precedence", "what": format!("rustfmt.toml {{{}}} with `{}`: the defaults of style edition {} are due (style_edition = {}, version = {}), got style_edition = {}, version = {}", toml_text(file).replace('\n', "; "), ob.opts.describe(), chosen, want_se, want_ver, got_se, got_ver)}));
            }
        }
        // layout numbering of gen_precedence: n = (se * 3 + ver) * 5 + ed; command lines 6.. are the single --config pairs
        let singles: [(usize, usize, &str); 6] = [((4 * 3) * 5, 6, "style_edition=2024"), ((2 * 3) * 5, 7, "style_edition=2018"), (2 * 5, 8, "version=Two"), (5, 9, "version=One"), (4, 10, "edition=2024"), (3, 11, "edition=2021")];
        for (n_file, ci, what) in singles {
            if let (Some(a), Some(b)) = (find(n_file, 0), find(0, ci)) {
                o.direct_evals += 1;
                o.direct_distinct += 1;
                if a != b {
                    let (fa, fb) = (parse_fields(&a), parse_fields(&b));
                    let diff: Vec<String> = fa.iter().filter(|(k, v)| fb.get(*k) != Some(v)).map(|(k, v)| format!("{}: file {:?} vs --config {:?}", k, v, fb.get(k))).collect();
                    o.direct_failures.push(json!({"sig": "c14:file-vs-config", "what": format!("`{}` has a different effect from a file and from --config (through load_config): {}", what, diff.join("; "))}));
                }
            }
        }
    }

    // end to end
    let mut sets: Vec<E2eSet> = vec![];
    for li in 0..layouts.len() {
        let l = &layouts[li];
        if li < n_enum {
            if li % 4 == 0 || thorough {
                sets.push(E2eSet { layout: li, opts: Opts::default(), family: "enumerated" });
            }
            continue;
        }
        sets.push(E2eSet { layout: li, opts: Opts::default(), family: "plain" });
        let mut oo = random_opts(&ctx, &mut rng, l);
        // a --config-path that does not resolve is covered by the load stage
        if let Some(cp) = &oo.cfg_path {
            let ok = match cp {
                CfgPath::File(f) => f.is_file(),
                CfgPath::Dir(d) => d.join(".rustfmt.toml").is_file() || d.join("rustfmt.toml").is_file(),
            };
            if !ok {
                oo.cfg_path = None;
                oo.api.config_path = None;
            }
        }
        sets.push(E2eSet { layout: li, opts: oo, family: "with-options" });
        let mut files = all_config_files(l);
        files.extend(l.extra.iter().map(|(p, _)| p.clone()));
        if !files.is_empty() && (li % 2 == 0 || !l.extra.is_empty()) {
            sets.push(E2eSet { layout: li, opts: Opts::default().with_cfg_path(CfgPath::File(rng.pick(&files).clone())), family: "config-path" });
        }
    }
    stage_e2e(&ctx, &mut o, &layouts, &sets, if thorough { 24 } else { 6 });

    // both sources: file and command line with different values; aliases x successors over two levels
    {
        let b = gen_both_sources(&ctx, &lay);
        stage_both_sources(&ctx, &mut o, &b);
        let sets: Vec<E2eSet> = b.obs.iter().zip(b.e2e.iter()).filter(|(_, e)| **e).map(|(ob, _)| E2eSet { layout: ob.layout, opts: ob.opts.clone(), family: "both-sources" }).collect();
        stage_e2e(&ctx, &mut o, &b.layouts, &sets, 2);
    }

    probes(&ctx, &mut o);

    o.notes.push("direct comparisons: formatted text of every file (alone and in every order of a joint run) = text of the same source under the values the MODEL resolves for it (reference run on stdin with explicit --config, no config file in reach); joint = single; one option from a file vs --config (all fields) and vs the API setter (values); heuristic widths <= max_width (Max, Default from 70); print/re-parse = same".into());
    o.notes.push("not generated: file_lines / width_heuristics in a rustfmt.toml (the first panics in serde, C16's matter), TOML integers above i64::MAX, HOME or the config directory being a regular file, symlinks".into());
    if std::env::var("C14_KEEP").is_err() {
        let _ = std::fs::remove_dir_all(&work);
    }
    o.finish(out, jobs())
}
