import RF.Model.Proto
import RF.Model.StringFmt
import RF.Model.CommentFmt
/-!
Line-protocol operations for `src/string.rs` (`RF/Model/StringFmt.lean`).

  str.class <char>                                   -> <ws><nl><punct><notWsExceptLf>:<width>      (bits 0|1)
  str.break <max_width> <trim_end> <line_end> <input> -> E:<line>:0 | L:<line>:<len> | F:<line>:<len>   `break_string`
  str.url <input> <index>                            -> panic | none | <n>                          `detect_url`
  str.valid <input> <pos>                            -> 0 | 1                                       `is_valid_linebreak`
  str.trimlf <trim_end> <text>                       -> <text>                                      `trim_end_but_line_feed`
  str.strip <orig>                                   -> <text>      the regex `strip_line_breaks_re` replaced by `$1`
  str.rewrite <opener> <closer> <line_start> <line_end> <width> <block_indent> <alignment> <offset> <trim_end>
              <max_width> <hard_tabs> <tab_spaces> <newline_max_chars> <orig>
                                                     -> none | panic | S:<text>                     `rewrite_string`
  str.value <body>                                   -> <text>      SPEC: the body without its line continuations
  str.valeq <body a> <body b>                        -> ok | diff:<value a>:<value b>               ORACLE
  cmt.words <line_start> <text>                      -> <list>      SPEC: words of a wrapped comment text
  cmt.wordseq <line_start> <orig> <wrapped>          -> ok | diff:<list orig>:<list wrapped>        ORACLE
  cmt.payloadeq <line_start> <orig> <wrapped>        -> ok | diff:<payload orig>:<payload wrapped>  ORACLE
  cmt.refines <line_start> <orig> <wrapped>          -> ok | bad    ORACLE: the wrapped words are the original words,
                                                        some of them cut after a punctuation character

  cmt.style <orig> <normalize>                       -> d | t | o | s | b | e | c:<opener>          `comment_style`
  cmt.lefttrim <line> <style_of>                     -> <text>:<0|1>     `left_trim_comment_line(line, &comment_style(style_of, false))`
  cmt.hasurl <s>  /  cmt.table <s>                   -> 0 | 1            `has_url` (comment.rs), `is_table_item`
  cmt.trim2 <s> <is_doc>                             -> <text>           `trim_end_unless_two_whitespaces`
  cmt.marker <trimmed>                               -> none | <n>       `ItemizedBlock::get_marker_length`
  cmt.inner <orig> <block_style> <width> <block_indent> <alignment> <offset> <wrap_comments> <normalize_comments>
            <max_width> <hard_tabs> <tab_spaces> <is_doc_comment>
                                                     -> outside | panic | S:<text>   `rewrite_comment_inner` with the
                                                        style `comment_style(orig, false)`; `outside` = a code block or an
                                                        itemized block is involved (not modelled)

numbers decimal, booleans 0|1, texts hex of UTF-8 (`-` empty), lists `,`-joined (`_` empty)
-/
namespace RF.Driver.StringFmt
open RF.Proto RF.StringFmt RF.CommentFmt

def decBool : String → Option Bool
  | "0" => some false | "1" => some true | _ => none

def bit (b : Bool) : String := if b then "1" else "0"

def encSnippet : Snippet → String
  | .endOfInput l => s!"E:{encChars l}:0"
  | .lineEnd l n => s!"L:{encChars l}:{n}"
  | .endWithLineFeed l n => s!"F:{encChars l}:{n}"

def encWords (ws : List (List Char)) : String := encList (ws.map String.ofList)

def handle (op : String) (args : List String) : Option String :=
  match op, args with
  | "str.class", [c] => some <| (do
      let cs ← decChars c
      match cs with
      | [ch] => pure s!"{bit (isWs ch)}{bit (isNl ch)}{bit (isPunct ch)}{bit (notWsExceptLf ch)}:{cw ch}"
      | _ => none).getD "err"
  | "str.break", [mw, te, le, inp] => some <| (do
      let mw ← mw.toNat?
      let te ← decBool te
      let le ← decChars le
      let inp ← decChars inp
      pure (encSnippet (breakString mw te le inp))).getD "err"
  | "str.url", [inp, idx] => some <| (do
      let inp ← decChars inp
      let idx ← idx.toNat?
      pure (match detectUrl? inp idx with
        | none => "panic"
        | some none => "none"
        | some (some n) => toString n)).getD "err"
  | "str.valid", [inp, pos] => some <| (do
      let inp ← decChars inp
      let pos ← pos.toNat?
      pure (bit (isValidLinebreak inp pos))).getD "err"
  | "str.trimlf", [te, t] => some <| (do
      let te ← decBool te
      let t ← decChars t
      pure (encChars (trimEndButLf te t.reverse).reverse)).getD "err"
  | "str.strip", [t] => some <| (do
      let t ← decChars t
      pure (encChars (stripLineBreaks t))).getD "err"
  | "str.rewrite", [op_, cl, ls, le, w, b, a, off, te, mw, ht, ts, nm, orig] => some <| (do
      let op_ ← decChars op_
      let cl ← decChars cl
      let ls ← decChars ls
      let le ← decChars le
      let w ← w.toNat?
      let b ← b.toNat?
      let a ← a.toNat?
      let off ← off.toNat?
      let te ← decBool te
      let mw ← mw.toNat?
      let ht ← decBool ht
      let ts ← ts.toNat?
      let nm ← nm.toNat?
      let orig ← decChars orig
      let f : Fmt := { opener := op_, closer := cl, lineStart := ls, lineEnd := le,
                       shape := ⟨w, ⟨b, a⟩, off⟩, trimEnd := te,
                       config := { hard_tabs := ht, tab_spaces := ts, max_width := mw, comment_width := 80 } }
      pure (match rewriteString orig f nm with
        | .error _ => "panic"
        | .ok none => "none"
        | .ok (some s) => "S:" ++ encChars s)).getD "err"
  | "str.value", [t] => some <| (do
      let t ← decChars t
      pure (encChars (strValue t))).getD "err"
  | "str.valeq", [a, b] => some <| (do
      let a ← decChars a
      let b ← decChars b
      let va := strValue a
      let vb := strValue b
      pure (if va == vb then "ok" else s!"diff:{encChars va}:{encChars vb}")).getD "err"
  | "cmt.words", [ls, t] => some <| (do
      let ls ← decChars ls
      let t ← decChars t
      pure (encWords (commentWords ls t))).getD "err"
  | "cmt.wordseq", [ls, o, t] => some <| (do
      let ls ← decChars ls
      let o ← decChars o
      let t ← decChars t
      let wo := words o
      let wt := commentWords ls t
      pure (if wo == wt then "ok" else s!"diff:{encWords wo}:{encWords wt}")).getD "err"
  | "cmt.payloadeq", [ls, o, t] => some <| (do
      let ls ← decChars ls
      let o ← decChars o
      let t ← decChars t
      let po := payload o
      let pt := payload (undecorate ls t)
      pure (if po == pt then "ok" else s!"diff:{encChars po}:{encChars pt}")).getD "err"
  | "cmt.refines", [ls, o, t] => some <| (do
      let ls ← decChars ls
      let o ← decChars o
      let t ← decChars t
      pure (if refinesWords (words o) (commentWords ls t) then "ok" else "bad")).getD "err"
  | "cmt.style", [o, n] => some <| (do
      let o ← decChars o
      let n ← decBool n
      pure (match commentStyle o n with
        | .doubleSlash => "d" | .tripleSlash => "t" | .doc => "o" | .singleBullet => "s"
        | .doubleBullet => "b" | .exclamation => "e" | .custom op => "c:" ++ encChars op)).getD "err"
  | "cmt.lefttrim", [l, so] => some <| (do
      let l ← decChars l
      let so ← decChars so
      pure (match leftTrimCommentLine l (commentStyle so false) with
        | none => "panic"
        | some (t, b) => s!"{encChars t}:{bit b}")).getD "err"
  | "cmt.hasurl", [t] => some <| (do
      let t ← decChars t
      pure (bit (hasUrl t))).getD "err"
  | "cmt.table", [t] => some <| (do
      let t ← decChars t
      pure (bit (isTableItem t))).getD "err"
  | "cmt.trim2", [t, d] => some <| (do
      let t ← decChars t
      let d ← decBool d
      pure (encChars (trimEndUnlessTwoWhitespaces t d))).getD "err"
  | "cmt.marker", [t] => some <| (do
      let t ← decChars t
      pure (match markerLength t with | none => "none" | some n => toString n)).getD "err"
  | "cmt.inner", [o, bs, w, b, a, off, wr, no, mw, ht, ts, dc] => some <| (do
      let o ← decChars o
      let bs ← decBool bs
      let w ← w.toNat?
      let b ← b.toNat?
      let a ← a.toNat?
      let off ← off.toNat?
      let wr ← decBool wr
      let no ← decBool no
      let mw ← mw.toNat?
      let ht ← decBool ht
      let ts ← ts.toNat?
      let dc ← decBool dc
      let cfg : Cfg := { wrap := wr, normalize := no,
                         shapeCfg := { hard_tabs := ht, tab_spaces := ts, max_width := mw, comment_width := 80 } }
      pure (match rewriteCommentInner o bs (commentStyle o false) ⟨w, ⟨b, a⟩, off⟩ cfg dc with
        | .outside => "outside"
        | .panic => "panic"
        | .ok s => "S:" ++ encChars s)).getD "err"
  | _, _ => none

end RF.Driver.StringFmt
