//! A multi-input `Session` run in a child process of the harness (`rfverif --sessrun <spec.json>`), so
//! that a panic, an abort or rustc's `FatalError` unwinding out of `Session::format` cannot kill the
//! check.  Two shapes:
//!   * `cli_loop = true`: the loop of `format` in src/bin/main.rs replayed through the public API
//!     (`load_config(None, opts)`, `Session::new`, per path `load_config(Some(parent), opts)` +
//!     `Session::override_config` + `Session::format(Input::File)`, `add_operational_error` on `Err`
//!     and on a missing path, abort on a configuration that fails to load);
//!   * `cli_loop = false`: an API session: one `Session` under one configuration, `Session::format`
//!     called on every input in turn.
//! What comes back (written to `<spec>.out`): per input the kind of result, the `ReportedErrors` of its
//! report, the bytes the session wrote to `out` while handling it, the session's flags afterwards;
//! then the header/footer bytes of the emitter and the final session flags.
use std::io::Write;
use std::path::{Path, PathBuf};
use std::process::Command;
use std::sync::{Arc, Mutex};
use std::time::Duration;

use rustfmt_nightly::verif_hooks::report as hr;
use rustfmt_nightly::{load_config, CliOptions, Config, Edition, EmitMode, Input, Session, StyleEdition, Verbosity, Version};
use serde_json::{json, Value};

use crate::util::*;

#[derive(Clone)]
struct Shared(Arc<Mutex<Vec<u8>>>);

impl Write for Shared {
    fn write(&mut self, buf: &[u8]) -> std::io::Result<usize> {
        self.0.lock().unwrap().extend_from_slice(buf);
        Ok(buf.len())
    }
    fn flush(&mut self) -> std::io::Result<()> {
        Ok(())
    }
}

#[derive(Clone)]
struct Opts {
    emit: Option<EmitMode>,
    check: bool,
    backup: bool,
    inline: Vec<(String, String)>,
}

/// the part of `GetOptsOptions::apply_to` (src/bin/main.rs) for the options the harness uses
impl CliOptions for Opts {
    fn apply_to(self, config: &mut Config) {
        config.set().verbose(Verbosity::Normal);
        config.set().unstable_features(false);
        if self.check {
            config.set_cli().emit_mode(EmitMode::Diff);
        } else if let Some(e) = self.emit {
            config.set_cli().emit_mode(e);
        }
        if self.backup {
            config.set_cli().make_backup(true);
        }
        for (k, v) in self.inline {
            config.override_value(&k, &v);
        }
    }
    fn config_path(&self) -> Option<&Path> {
        None
    }
    fn edition(&self) -> Option<Edition> {
        None
    }
    fn style_edition(&self) -> Option<StyleEdition> {
        None
    }
    fn version(&self) -> Option<Version> {
        None
    }
}

fn emit_of(s: &str) -> Option<EmitMode> {
    match s {
        "files" => Some(EmitMode::Files),
        "stdout" => Some(EmitMode::Stdout),
        "json" => Some(EmitMode::Json),
        "checkstyle" => Some(EmitMode::Checkstyle),
        "diff" => Some(EmitMode::Diff),
        "modifiedLines" => Some(EmitMode::ModifiedLines),
        _ => None,
    }
}

fn flags_str(f: &[bool; 7]) -> String {
    f.iter().map(|b| if *b { '1' } else { '0' }).collect()
}

fn short(msg: &str) -> String {
    msg.chars().take(200).collect()
}

/// one `format_and_emit_report` (main.rs:398-415) without the printing
fn one<'b>(session: &mut Session<'b, Shared>, input: Input, buf: &Shared, entries: &mut Vec<Value>) -> bool {
    let before = buf.0.lock().unwrap().len();
    let r = std::panic::catch_unwind(std::panic::AssertUnwindSafe(|| session.format(input)));
    let out = buf.0.lock().unwrap()[before..].to_vec();
    match r {
        Ok(Ok(report)) => {
            let diag: Vec<Value> = hr::entries(&report).iter().map(|e| json!({"file": e.file, "line": e.line, "kind": e.kind, "found": e.overflow.map(|x| x.0).unwrap_or(0), "max": e.overflow.map(|x| x.1).unwrap_or(0), "c": e.is_comment, "s": e.is_string})).collect();
            entries.push(json!({"kind": "ok", "flags": flags_str(&hr::report_flags(&report)), "out": enc_bytes(&out), "sess": flags_str(&hr::session_flags(session)), "diag": diag}));
            true
        }
        Ok(Err(e)) => {
            session.add_operational_error();
            entries.push(json!({"kind": "err", "msg": short(&format!("{}", e)), "out": enc_bytes(&out), "sess": flags_str(&hr::session_flags(session))}));
            true
        }
        Err(_) => {
            entries.push(json!({"kind": "panic", "out": enc_bytes(&out)}));
            false
        }
    }
}

pub fn child_main(spec_path: &str) -> i32 {
    crate::pool::install_panic_hook();
    let spec: Value = match std::fs::read(spec_path).ok().and_then(|b| serde_json::from_slice(&b).ok()) {
        Some(v) => v,
        None => return 9,
    };
    if let Some(cwd) = spec["cwd"].as_str() {
        if std::env::set_current_dir(cwd).is_err() {
            return 8;
        }
    }
    let opts = Opts {
        emit: spec["emit"].as_str().and_then(emit_of),
        check: spec["check"].as_bool().unwrap_or(false),
        backup: spec["backup"].as_bool().unwrap_or(false),
        inline: spec["config"].as_array().map(|a| a.iter().filter_map(|kv| Some((kv[0].as_str()?.to_string(), kv[1].as_str()?.to_string()))).collect()).unwrap_or_default(),
    };
    let cli = spec["cli_loop"].as_bool().unwrap_or(false);
    let inputs: Vec<Value> = spec["inputs"].as_array().cloned().unwrap_or_default();
    let buf = Shared(Arc::new(Mutex::new(vec![])));
    let mut sink = buf.clone();
    let mut entries: Vec<Value> = vec![];
    let mut aborted = false;
    let mut died = false;
    let header_len;
    let final_flags;
    let no_errors;
    let body_len;
    {
        let config = if cli {
            match load_config(None, Some(opts.clone())) {
                Ok((c, _)) => c,
                Err(e) => {
                    let _ = std::fs::write(format!("{}.out", spec_path), serde_json::to_vec(&json!({"global_config_error": short(&format!("{}", e))})).unwrap());
                    return 0;
                }
            }
        } else {
            let mut c = Config::default();
            for (k, v) in &opts.inline {
                if Config::is_valid_key_val(k, v) {
                    c.override_value(k, v);
                }
            }
            c.set().verbose(Verbosity::Normal);
            c.set().emit_mode(if opts.check { EmitMode::Diff } else { opts.emit.unwrap_or(EmitMode::Stdout) });
            if opts.backup {
                c.set().make_backup(true);
            }
            c
        };
        let mut session = Session::new(config, Some(&mut sink));
        header_len = buf.0.lock().unwrap().len();
        for inp in &inputs {
            if let Some(t) = inp["text"].as_str() {
                if !one(&mut session, Input::Text(t.to_string()), &buf, &mut entries) {
                    died = true;
                    break;
                }
                continue;
            }
            let mut file = PathBuf::from(inp["path"].as_str().unwrap_or(""));
            if cli {
                // main.rs canonicalises the paths of the command line before anything else
                file = file.canonicalize().unwrap_or(file);
                if !file.exists() || file.is_dir() {
                    session.add_operational_error();
                    entries.push(json!({"kind": "missing", "sess": flags_str(&hr::session_flags(&session))}));
                    continue;
                }
                if inp["plain"].as_bool().unwrap_or(false) {
                    // an API client that formats this input under the session's own configuration,
                    // between inputs that go through `override_config`
                    if !one(&mut session, Input::File(file), &buf, &mut entries) {
                        died = true;
                        break;
                    }
                    continue;
                }
                match load_config(Some(file.parent().unwrap()), Some(opts.clone())) {
                    Err(e) => {
                        entries.push(json!({"kind": "cfgerr", "msg": short(&format!("{}", e))}));
                        aborted = true;
                        break;
                    }
                    Ok((local, _)) => {
                        let ok = session.override_config(local, |s| one(s, Input::File(file.clone()), &buf, &mut entries));
                        if !ok {
                            died = true;
                            break;
                        }
                    }
                }
            } else if !one(&mut session, Input::File(file), &buf, &mut entries) {
                died = true;
                break;
            }
        }
        final_flags = flags_str(&hr::session_flags(&session));
        no_errors = session.has_no_errors();
        body_len = buf.0.lock().unwrap().len();
        if died {
            // the state of a session a panic went through is not meaningful: do not run its destructor
            std::mem::forget(session);
        }
    }
    let all = buf.0.lock().unwrap().clone();
    let res = json!({
        "entries": entries,
        "aborted": aborted,
        "died": died,
        "session_flags": final_flags,
        "no_errors": no_errors,
        "header": enc_bytes(&all[..header_len]),
        "footer": enc_bytes(&all[body_len.min(all.len())..]),
    });
    let _ = std::fs::write(format!("{}.out", spec_path), serde_json::to_vec(&res).unwrap());
    0
}

/// Runs the spec in a child process; `None` = the child died without an answer or ran out of time.
pub fn run_child(spec: &Value, spec_path: &Path, home: &Path, timeout: Duration) -> Option<Value> {
    std::fs::write(spec_path, serde_json::to_vec(spec).unwrap()).ok()?;
    let outp = PathBuf::from(format!("{}.out", spec_path.display()));
    let _ = std::fs::remove_file(&outp);
    let exe = std::env::current_exe().ok()?;
    let mut cmd = Command::new(exe);
    cmd.arg("--sessrun").arg(spec_path).env("HOME", home).env("XDG_CONFIG_HOME", home).env_remove("RUSTFMT_CONFIG");
    let r = run_cmd(&mut cmd, b"", timeout);
    let _ = std::fs::remove_file(spec_path);
    if r.timed_out {
        return None;
    }
    let v = std::fs::read(&outp).ok().and_then(|b| serde_json::from_slice(&b).ok());
    let _ = std::fs::remove_file(&outp);
    v
}
