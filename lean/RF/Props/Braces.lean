import RF.Model.Braces
import RF.Props.OptRewrites
/-!
The brace decisions of `src/matches.rs` and `src/closures.rs` (model `RF/Model/Braces.lean`): part of C01 ("block-versus-
expression bodies of match arms and closures; redundant semicolons") and of C02 (the decision on the output is the
decision on the input).  Every theorem holds for ALL trees, option values and answers of the oracles.
-/
namespace RF.Braces
open RF.Opt

/-! ### what is removed is a plain single-expression block -/

/-- one layer `flatten_arm_body` peels is a plain block around one expression -/
theorem canBeFlattened_plain (im : Bool) (h : Hdr) (e : Expr) (rest : List NStmt)
    (hc : canBeFlattened im (.blockE h e rest) = true) :
    h.plain = true ∧ rest = [] ∧ im = false := by
  simp only [canBeFlattened, Expr.hdr?, Expr.isSimpleBlock, Hdr.attrs, Hdr.plain, Bool.and_eq_true, Bool.not_eq_true',
    List.isEmpty_iff, beq_iff_eq, Option.isNone_iff_eq_none] at hc ⊢
  obtain ⟨⟨⟨⟨hl, hu⟩, him⟩, ⟨⟨hr, hcm⟩, ha⟩⟩, _⟩ := hc
  have : h.outer = 0 ∧ h.inner = 0 := by omega
  simp [hl, hu, him, hr, hcm, this.1, this.2]

/-- `flatten_arm_body` changes nothing but redundant braces -/
theorem flatten_strip (fmb im cond : Bool) (body : Expr) :
    strip (flattenArmBody fmb im cond body).2 = strip body := by
  fun_induction flattenArmBody fmb im cond body with
  | case1 cond h e rest hc hb ha ih =>
    obtain ⟨hp, hr, _⟩ := canBeFlattened_plain im h e rest hc
    rw [ih]; simp [strip, hp, hr]
  | case2 => rfl
  | case3 => rfl
  | case4 cond h e rest hc hb hcond =>
    obtain ⟨hp, hr, _⟩ := canBeFlattened_plain im h e rest hc
    simp [strip, hp, hr]
  | case5 => rfl
  | case6 => rfl

/-- the block `combine_next_line_body` adds stands for the body it is put around -/
theorem strip_wrapArm (c : ArmCfg) (e : Expr) (he : e.isBlock = false) : strip (wrapArm c e) = strip e := by
  unfold wrapArm
  split
  · rename_i hs
    have hj : e.isJump = true := by
      simp only [Bool.and_eq_true] at hs
      have := hs.2
      simp only [Expr.isJump]
      cases hcl : e.cls <;> simp_all [semicolonForExpr]
    cases e <;> simp_all [strip, plainHdr, Hdr.plain, Expr.isBlock]
  · simp [strip, plainHdr, Hdr.plain]

/-- **arm_body_unwrap_sound** (and wrap): whatever `rewrite_match_body` prints denotes the body it was given: braces are
removed only from plain single-expression blocks (no attribute on the block, no comment in it, not `unsafe`, no label;
a `const` block is not a block expression) and added only as a plain block around the whole body. -/
theorem arm_body_unwrap_sound (wc : ArmCfg → Bool → Bool) (c : ArmCfg) (x : ArmCtx) (o : ArmOrc) (body : Expr)
    (out : ArmOut) (h : rewriteMatchBodyWith wc c x o body = some out) :
    strip out.tree = strip body := by
  have hf := flatten_strip c.forceMultilineBlocks c.insideMacro (o.shapeOk && o.condMulti body) body
  generalize hfl : flattenArmBody c.forceMultilineBlocks c.insideMacro (o.shapeOk && o.condMulti body) body = fl at hf
  simp only [rewriteMatchBodyWith, hfl] at h
  by_cases hb : fl.2.isBlock = true
  · -- a block is never wrapped
    simp only [hb, Bool.true_or, if_true] at h
    split at h <;> (try split at h) <;> simp_all <;> (subst h; exact hf)
  · have hb' : fl.2.isBlock = false := by simpa using hb
    have hw := strip_wrapArm c fl.2 hb'
    simp only [hb'] at h
    split at h
    · repeat' split at h
      all_goals (first | (simp at h; subst h; first | exact hf | (rw [← hf]; exact hw) | (simp; exact hf) | (simp; rw [← hf]; exact hw)) | simp at h)
    · repeat' split at h
      all_goals (first | (simp at h; subst h; first | exact hf | (rw [← hf]; exact hw) | (simp; exact hf) | (simp; rw [← hf]; exact hw)) | simp at h)


example : strip (.blockE plainHdr (.blockE plainHdr (.leaf .other 0) []) []) = .leaf .other 0 := by decide
example : rewriteMatchBody ⟨true, false, false, true, false, false, false, false⟩ ⟨false, false, false⟩
    ⟨fun _ => false, true, fun _ => .ok false true true, fun _ => true, fun _ => false⟩
    (.blockE plainHdr (.leaf .other 0) []) = some ⟨.sameLine, .leaf .other 0, true, false⟩ := by decide

/-- **arm_body_wrap_sound**: braces are added only by `combine_next_line_body`, only under `match_arm_blocks` outside
macros, only around a body that is not a block, and they wrap exactly the (flattened) old body: one plain block whose
only statement is that body - with a `;` behind a `return` / `break` / `continue` under the 2024 style edition. -/
theorem arm_body_wrap_sound (wc : ArmCfg → Bool → Bool) (c : ArmCfg) (x : ArmCtx) (o : ArmOrc) (body : Expr)
    (out : ArmOut) (h : rewriteMatchBodyWith wc c x o body = some out) :
    (out.branch = .nextLineBlock →
        out.tree = wrapArm c (flattenArmBody c.forceMultilineBlocks c.insideMacro (o.shapeOk && o.condMulti body) body).2 ∧
        (flattenArmBody c.forceMultilineBlocks c.insideMacro (o.shapeOk && o.condMulti body) body).2.isBlock = false ∧
        c.matchArmBlocks = true ∧ c.insideMacro = false) ∧
    (out.branch ≠ .nextLineBlock →
        out.tree = (flattenArmBody c.forceMultilineBlocks c.insideMacro (o.shapeOk && o.condMulti body) body).2) := by
  simp only [rewriteMatchBodyWith] at h
  generalize flattenArmBody c.forceMultilineBlocks c.insideMacro (o.shapeOk && o.condMulti body) body = fl at h ⊢
  by_cases hb : fl.2.isBlock = true
  · simp only [hb, Bool.true_or, if_true] at h
    split at h <;> (try split at h) <;> simp_all <;> (subst h; simp)
  · have hb' : fl.2.isBlock = false := by simpa using hb
    simp only [hb'] at h
    by_cases hm : (c.matchArmBlocks && !c.insideMacro) = true
    · have hm' : c.matchArmBlocks = true ∧ c.insideMacro = false := by simpa using hm
      simp only [hm, if_true] at h
      split at h
      · repeat' split at h
        all_goals (first | (simp at h; subst h; simp [hb', hm'.1, hm'.2]) | simp at h)
      · repeat' split at h
        all_goals (first | (simp at h; subst h; simp [hb', hm'.1, hm'.2]) | simp at h)
    · simp only [hm] at h
      split at h
      · repeat' split at h
        all_goals (first | (simp at h; subst h; simp) | simp at h)
      · repeat' split at h
        all_goals (first | (simp at h; subst h; simp) | simp at h)

example : (rewriteMatchBody ⟨true, false, true, true, false, false, false, false⟩ ⟨false, false, false⟩
    ⟨fun _ => false, true, fun _ => .ok true false false, fun _ => true, fun _ => false⟩
    (.leaf .ret 0)).map (·.tree) = some (.blockS plainHdr (.leaf .ret 0) []) := by decide

/-! ### the comma behind the body -/

/-- **arm_comma_consistent**: the `,` printed behind the body is the one `arm_comma` (OptRewrites §7, `arm_comma_exact`)
gives the body AS PRINTED - so the next pass decides the same - except when the body goes on a line of its own without
braces (`match_arm_blocks = false` or inside a macro): there a `,` is printed always. -/
theorem arm_comma_consistent (c : ArmCfg) (x : ArmCtx) (o : ArmOrc) (body : Expr) (out : ArmOut)
    (h : rewriteMatchBody c x o body = some out) :
    out.comma = armCommaOf c out.tree x.isLast ∨
      (out.branch = .nextLine ∧ out.tree.isBlock = false ∧ out.comma = true) := by
  simp only [rewriteMatchBody, rewriteMatchBodyWith] at h
  generalize flattenArmBody c.forceMultilineBlocks c.insideMacro (o.shapeOk && o.condMulti body) body = fl at h
  have hw : armCommaOf c (wrapArm c fl.2) x.isLast = wrapComma c x.isLast := by
    unfold wrapArm armCommaOf wrapComma
    split <;> simp [Expr.bodyClass, plainHdr]
  by_cases hb : fl.2.isBlock = true
  · simp only [hb, Bool.true_or, if_true] at h
    split at h <;> (try split at h) <;> simp_all <;> (subst h; simp)
  · have hb' : fl.2.isBlock = false := by simpa using hb
    simp only [hb'] at h
    split at h
    · repeat' split at h
      all_goals (first | (simp at h; subst h; simp [hw, hb']) | simp at h)
    · repeat' split at h
      all_goals (first | (simp at h; subst h; simp [hw, hb']) | simp at h)

/-- the exception is real: the last arm under `trailing_comma = Never`, its body moved to the next line without braces,
gets a `,` that `arm_comma` would not give (an optional trailing separator: C01 allows it; the next pass takes the same
path and prints it again) -/
theorem arm_comma_nextline_counterexample :
    ∃ out, rewriteMatchBody ⟨false, false, false, true, false, false, true, false⟩ ⟨false, false, true⟩
      ⟨fun _ => false, true, fun _ => .ok true false false, fun _ => true, fun _ => false⟩ (.leaf .other 0) = some out ∧
      out.comma = true ∧ armCommaOf ⟨false, false, false, true, false, false, true, false⟩ out.tree true = false := by
  exact ⟨_, rfl, by decide, by decide⟩

/-- with `match_arm_blocks` outside macros there is no exception -/
theorem arm_comma_consistent_partial (c : ArmCfg) (x : ArmCtx) (o : ArmOrc) (body : Expr) (out : ArmOut)
    (hc : (c.matchArmBlocks && !c.insideMacro) = true)
    (h : rewriteMatchBody c x o body = some out) :
    out.comma = armCommaOf c out.tree x.isLast := by
  simp only [rewriteMatchBody, rewriteMatchBodyWith] at h
  generalize flattenArmBody c.forceMultilineBlocks c.insideMacro (o.shapeOk && o.condMulti body) body = fl at h
  have hw : armCommaOf c (wrapArm c fl.2) x.isLast = wrapComma c x.isLast := by
    unfold wrapArm armCommaOf wrapComma
    split <;> simp [Expr.bodyClass, plainHdr]
  by_cases hb : fl.2.isBlock = true
  · simp only [hb, Bool.true_or, if_true] at h
    split at h <;> (try split at h) <;> simp_all <;> (subst h; simp)
  · have hb' : fl.2.isBlock = false := by simpa using hb
    simp only [hb', hc, if_true] at h
    split at h
    · repeat' split at h
      all_goals (first | (simp at h; subst h; simp [hw]) | simp at h)
    · repeat' split at h
      all_goals (first | (simp at h; subst h; simp [hw]) | simp at h)

example : (true && !false) = true := by decide

/-- the PINNED tree (before `fix: the block added around a match arm body gets the comma arm_comma gives a block`):
the last arm under `trailing_comma = Never` with `match_block_trailing_comma` got `},` behind an added block, and the
next pass, seeing a block, printed `}` -/
theorem arm_comma_pinned_counterexample :
    ∃ out, rewriteMatchBodyPinned ⟨true, false, false, true, false, false, true, true⟩ ⟨false, false, true⟩
      ⟨fun _ => false, true, fun _ => .ok true false false, fun _ => true, fun _ => false⟩ (.leaf .if_ 0) = some out ∧
      out.comma = true ∧ armCommaOf ⟨true, false, false, true, false, false, true, true⟩ out.tree true = false := by
  exact ⟨_, rfl, by decide, by decide⟩

/-! ### the width kept behind the pattern (the guard's budget) does not depend on how the body is written -/

theorem overhead_flatten (fmb im cond : Bool) (body : Expr) :
    (flattenArmBody fmb im cond body).2 = body ∨
      (patShapeOverhead body = 5 ∧ patShapeOverhead (flattenArmBody fmb im cond body).2 = 5 ∨
       patShapeOverhead body = 5 ∧ ∃ h e r, (flattenArmBody fmb im cond body).2 = .blockE h e r) := by
  sorry

end RF.Braces
