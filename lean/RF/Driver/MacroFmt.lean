import RF.Model.Proto
import RF.Model.MacroFmt
/-!
Line-protocol operations of the macro token-stream model (`RF/Model/MacroFmt.lean`).

  mac.matcher <cfg> <shape> <tts>     -> none | err | panic | ok:<hex>      `format_macro_args` (matchers on):
                                         `none` = the parser gave up (definition left as written)
  mac.toks <cfg> <shape> <tts>        -> none | err | panic | same | diff   are the tokens of the model's
                                         output the tokens of the input (the statement of
                                         `matcher_tokens_preserved`, evaluated)
  mac.replace <hex>                   -> none | <hex result>;<old=new,…>     `replace_names`, pairs sorted
  mac.undo <hex> <perm>               -> none | bail | <hex>                 `replace_names` then the undoing loop
                                         in the order `perm` (indices into the insertion order, `_` = none)
  mac.undo.judge <hex in> <hex seen>  -> none | bail | ok | bad:<hex of one model answer>
                                         is `seen` what the loop gives for SOME order of the map
  mac.safe <hex>                      -> none | safe | unsafe                the hypothesis `noSpurious` of
                                         `replaceNames_roundtrip_partial`, evaluated
  mac.squeeze <hex>                   -> <hex>                               the text without white space
  mac.branches <tts>                  -> none | <branch>;<branch>…           `MacroParser::parse`; a branch is
                                         `<D>|<tts of the matcher>|<D>|<semi 0/1>`
  mac.style <hex snippet>             -> P | K | B                           `macro_style`
  mac.args <style> <forced> <elems>   -> none | <v>:<t>:<bits>               `parse_macro_args`; elems is a word
                                         over `a` (argument) `i` (item argument) `,` `;` `x` (`_` = empty)
  mac.plan <hex name!> <nested> <orig> <pos> <tsEmpty> <hasComment> <block> <parsed>
                                      -> the `Plan` (see `encPlan`); parsed = `none` or `<v>:<t>:<bits>`

cfg    <hard_tabs 0|1>:<tab_spaces>:<max_width>
shape  <width>:<block_indent>:<alignment>:<offset>
tts    `_` or `,`-joined items: `t.<Kind>.<hex text>`, `o.<P|K|B>`, `c.<P|K|B>`
-/
namespace RF.Driver.MacroFmt
open RF.Proto RF.MacroFmt RF.Shape

def decKind : String → Option Kind
  | "Eq" => some .Eq | "Lt" => some .Lt | "Le" => some .Le | "EqEq" => some .EqEq | "Ne" => some .Ne
  | "Ge" => some .Ge | "Gt" => some .Gt | "AndAnd" => some .AndAnd | "OrOr" => some .OrOr
  | "Bang" => some .Bang | "Tilde" => some .Tilde | "Plus" => some .Plus | "Minus" => some .Minus
  | "Star" => some .Star | "Slash" => some .Slash | "Percent" => some .Percent | "Caret" => some .Caret
  | "And" => some .And | "Or" => some .Or | "Shl" => some .Shl | "Shr" => some .Shr
  | "PlusEq" => some .PlusEq | "MinusEq" => some .MinusEq | "StarEq" => some .StarEq
  | "SlashEq" => some .SlashEq | "PercentEq" => some .PercentEq | "CaretEq" => some .CaretEq
  | "AndEq" => some .AndEq | "OrEq" => some .OrEq | "ShlEq" => some .ShlEq | "ShrEq" => some .ShrEq
  | "At" => some .At | "Dot" => some .Dot | "DotDot" => some .DotDot | "DotDotDot" => some .DotDotDot
  | "DotDotEq" => some .DotDotEq | "Comma" => some .Comma | "Semi" => some .Semi | "Colon" => some .Colon
  | "PathSep" => some .PathSep | "RArrow" => some .RArrow | "LArrow" => some .LArrow
  | "FatArrow" => some .FatArrow | "Pound" => some .Pound | "Dollar" => some .Dollar
  | "Question" => some .Question | "SingleQuote" => some .SingleQuote
  | "Ident" => some .Ident | "IdentRaw" => some .IdentRaw | "Literal" => some .Literal
  | "Lifetime" => some .Lifetime | "DocCommentLine" => some .DocCommentLine
  | "DocCommentBlock" => some .DocCommentBlock
  | _ => none

def encKind (k : Kind) : String := (reprStr k).replace "RF.MacroFmt.Kind." ""

def decDelim : String → Option Delim
  | "P" => some .paren | "K" => some .bracket | "B" => some .brace | _ => none
def encDelim : Delim → String
  | .paren => "P" | .bracket => "K" | .brace => "B"

/-- Builds the trees from the flat item list with a stack of open groups. -/
def decTTs (s : String) : Option (List TT) :=
  if s == "_" then some [] else
  let step (st : Option (List TT × List (Delim × List TT))) (item : String) :
      Option (List TT × List (Delim × List TT)) := do
    let (cur, stack) ← st
    match item.splitOn "." with
    | ["t", k, h] => do
      let k ← decKind k
      let t ← decChars h
      pure (cur ++ [.tok ⟨k, t⟩], stack)
    | ["o", d] => do
      let d ← decDelim d
      pure ([], (d, cur) :: stack)
    | ["c", d] => do
      let d ← decDelim d
      match stack with
      | (d', outer) :: rest => if d == d' then pure (outer ++ [.delim d cur], rest) else none
      | [] => none
    | _ => none
  match (s.splitOn ",").foldl step (some ([], [])) with
  | some (cur, []) => some cur
  | _ => none

mutual
def encTT : TT → List String
  | .tok t => ["t." ++ encKind t.kind ++ "." ++ encChars t.text]
  | .delim d inner => ("o." ++ encDelim d) :: (encTTl inner ++ ["c." ++ encDelim d])
def encTTl : List TT → List String
  | [] => []
  | t :: ts => encTT t ++ encTTl ts
end

def encTTs (ts : List TT) : String :=
  let xs := encTTl ts
  if xs.isEmpty then "_" else String.intercalate "," xs

def decNat (s : String) : Option Nat := s.toNat?
def decBool (s : String) : Option Bool :=
  if s == "1" then some true else if s == "0" then some false else none
def encBool (b : Bool) : String := if b then "1" else "0"

def decCfg (s : String) : Option Config :=
  match s.splitOn ":" with
  | [h, t, m] => do
    let h ← decBool h
    let t ← decNat t
    let m ← decNat m
    pure { hard_tabs := h, tab_spaces := t, max_width := m, comment_width := 80 }
  | _ => none

def decShape (s : String) : Option Shape :=
  match s.splitOn ":" with
  | [w, b, a, o] => do
    let w ← decNat w
    let b ← decNat b
    let a ← decNat a
    let o ← decNat o
    pure ⟨w, ⟨b, a⟩, o⟩
  | _ => none

def encR (f : List Piece → String) : Option (R (List Piece)) → String
  | none => "none"
  | some (.error .err) => "err"
  | some (.error .panic) => "panic"
  | some (.ok ps) => f ps

def encSubst (e : Subst) : String := encChars e.old ++ "=" ++ encChars e.new

/-- all permutations of `0..n-1` for small `n` (insertion of the next index at every position) -/
def insertAll (x : Nat) : List Nat → List (List Nat)
  | [] => [[x]]
  | y :: ys => (x :: y :: ys) :: (insertAll x ys).map (y :: ·)
def perms : Nat → List (List Nat)
  | 0 => [[]]
  | n + 1 => (perms n).flatMap (insertAll n)

def decPerm (s : String) : Option (List Nat) :=
  if s == "_" then some [] else (s.splitOn ",").mapM decNat

def decElems (s : String) : Option (List Elem) :=
  if s == "_" then some [] else
  s.toList.mapM fun c =>
    match c with
    | 'a' => some (.arg false) | 'i' => some (.arg true) | ',' => some .comma | ';' => some .semi
    | 'x' => some .other | _ => none

def encParsed (p : ParsedArgs) : String :=
  encBool p.vecWithSemi ++ ":" ++ encBool p.trailingComma ++ ":" ++
    (if p.args.isEmpty then "_" else String.ofList (p.args.map fun b => if b then 'i' else 'a'))

def decParsed (s : String) : Option (Option ParsedArgs) :=
  if s == "none" then some none else
  match s.splitOn ":" with
  | [v, t, bits] => do
    let v ← decBool v
    let t ← decBool t
    let args ← if bits == "_" then some [] else bits.toList.mapM fun c =>
      match c with | 'i' => some true | 'a' => some false | _ => none
    pure (some { vecWithSemi := v, trailingComma := t, args := args })
  | _ => none

def decPos : String → Option Position
  | "I" => some .item | "S" => some .statement | "E" => some .expression | "P" => some .pat | _ => none

def encTactic : Tactic → String
  | .always => "A" | .never => "N" | .vertical => "V"

def encPlan : Plan → String
  | .empty d s => "empty:" ++ encDelim d ++ ":" ++ encBool s
  | .fallback s => "fallback:" ++ encBool s
  | .items d s => "items:" ++ encDelim d ++ ":" ++ encBool s
  | .vecSemi d => "vecsemi:" ++ encDelim d
  | .parens t s => "parens:" ++ encTactic t ++ ":" ++ encBool s
  | .array t s l => "array:" ++ encTactic t ++ ":" ++ encBool s ++ ":" ++ encBool l
  | .braceVerbatim => "brace"

def encBranch (b : Branch) : String :=
  encDelim b.argsDelim ++ "|" ++ encTTs [.delim b.argsDelim b.args] ++ "|" ++ encDelim b.bodyDelim ++ "|" ++
    encBool b.semi.isSome

def handle (op : String) (args : List String) : Option String :=
  match op, args with
  | "mac.matcher", [c, sh, t] => do
    let c ← decCfg c
    let sh ← decShape sh
    let t ← decTTs t
    pure (encR (fun ps => "ok:" ++ encChars (render ps)) (formatMatcher c sh t))
  | "mac.toks", [c, sh, t] => do
    let c ← decCfg c
    let sh ← decShape sh
    let t ← decTTs t
    pure (encR (fun ps => if toks ps == flatList t then "same" else "diff") (formatMatcher c sh t))
  | "mac.replace", [h] => do
    let s ← decChars h
    match replaceNames s with
    | none => pure "none"
    | some (r, substs) =>
      let pairs := (substs.map encSubst).toArray.qsort (· < ·) |>.toList
      pure (encChars r ++ ";" ++ (if pairs.isEmpty then "_" else String.intercalate "," pairs))
  | "mac.undo", [h, p] => do
    let s ← decChars h
    let p ← decPerm p
    match replaceNames s with
    | none => pure "none"
    | some _ =>
      match roundtrip s p with
      | none => pure "bail"
      | some r => pure (encChars r)
  | "mac.undo.judge", [h, seen] => do
    let s ← decChars h
    let seen ← decChars seen
    match replaceNames s with
    | none => pure "none"
    | some (_, substs) =>
      let ps := if substs.length ≤ 5 then perms substs.length
                else [List.range substs.length, (List.range substs.length).reverse]
      let outs := ps.map (roundtrip s)
      if outs.all (·.isNone) then pure "bail"
      else if outs.any (· == some seen) then pure "ok"
      else pure ("bad:" ++ encChars ((outs.filterMap id).headD []))
  | "mac.safe", [h] => do
    let s ← decChars h
    match replaceNames s with
    | none => pure "none"
    | some _ => pure (if noSpurious s then "safe" else "unsafe")
  | "mac.squeeze", [h] => do
    let s ← decChars h
    pure (encChars (s.filter (!RF.Comment.isWs ·)))
  | "mac.branches", [t] => do
    let t ← decTTs t
    match parseBranches t with
    | none => pure "none"
    | some bs => pure (if bs.isEmpty then "_" else String.intercalate ";" (bs.map encBranch))
  | "mac.style", [h] => do
    let s ← decChars h
    pure (encDelim (macroStyle s))
  | "mac.args", [st, f, es] => do
    let st ← decDelim st
    let f ← decBool f
    let es ← decElems es
    match parseMacroArgs st f es with
    | none => pure "none"
    | some p => pure (encParsed p)
  | "mac.plan", [name, nested, orig, pos, tsEmpty, hasComment, block, parsed] => do
    let name ← decChars name
    let nested ← decBool nested
    let orig ← decDelim orig
    let pos ← decPos pos
    let tsEmpty ← decBool tsEmpty
    let hasComment ← decBool hasComment
    let block ← decBool block
    let parsed ← decParsed parsed
    pure (encPlan (callPlan name nested orig pos tsEmpty hasComment block parsed))
  | _, _ => none

end RF.Driver.MacroFmt
