import RF.Model.Proto
import RF.Model.Budgets
import RF.Driver.Shape
/-!
Line-protocol operations for `RF/Model/Budgets.lean`.  All arguments are decimal numbers, blank
separated; `I` = `<block_indent> <alignment>`, `S` = `<width> <block_indent> <alignment> <offset>`.
Enumerations: indent_style 0 visual / 1 block; brace_style 0 AlwaysNextLine / 1 PreferSameLine /
2 SameLineWhere; fn brace 0 SameLine / 1 NextLine / 2 None; control_brace_style 0 AlwaysSameLine /
1 ClosingNextLine / 2 AlwaysNextLine; fn_params_layout 0 Compressed / 1 Tall / 2 Vertical; rhs tactics
0 Default / 1 ForceNextLineWithoutIndent / 2 AllowOverflow.  `OPT` = a number + 1, 0 for none.

  bud.budget <max_width> <used>                                            -> n
  bud.llused <last_line_width> <multiline> <offset>                        -> n
  bud.params <max_width> <tab_spaces> <indent_style> <result_len> <result_newline> I <ret_len> <brace> <force>
                                                                           -> one:multi:block:align
  bud.brace <brace_style> <where_single_line> <preds>                      -> 0|1|2
  bud.generics <max_width> <tab_spaces> <indent_style> S <offset>          -> shape | err:<w>
  bud.rhs_tactic <max_width> <tab_spaces> S <t>                            -> shape | none
  bud.rhs <max_width> <tab_spaces> S <t> <lhs_last_line_width> <lhs_multiline> <orig OPT> <new OPT> <inf>
                                             -> <place>;<shape seen>;… (place: empty same next overflow err)
  bud.cond <max_width> <tab_spaces> <control_brace_style> S <nested_if> <is_if> <cond_len>
                                             -> err | <cond_on_next_line>:<newline_brace>:<used_width>
  bud.where_visual_pinned <max_width> <tab_spaces> S                       -> n | panic
  bud.where_visual <max_width> <tab_spaces> S                              -> n
  bud.where_clause_shape <max_width> <tab_spaces> S                        -> shape | err:<w>
  bud.sig <max_width> <tab_spaces> <indent_style> <fn_params_layout> <brace_style> I <prefix> <ret> <preds> <has_body> <param>…
        -> <one_line_budget>:<tactic v|h|m>:<paren_break>:<ret_should_indent>:<closing_paren_overflow>:<force_newline_brace>:<one_line>:<brace on next line 0|1|?>
     (the fn brace style is `newline_for_brace` for a function with body, `None` else; `?`: the model
      does not know the last line of the signature)
-/
namespace RF.Driver.Budgets
open RF.Shape RF.Budgets RF.Driver.Shape

def decIS : Nat → Option IndentStyle
  | 0 => some .visual | 1 => some .block | _ => none
def decBS : Nat → Option BraceStyle
  | 0 => some .alwaysNextLine | 1 => some .preferSameLine | 2 => some .sameLineWhere | _ => none
def decFB : Nat → Option FnBraceStyle
  | 0 => some .sameLine | 1 => some .nextLine | 2 => some .none | _ => none
def encFB : FnBraceStyle → String
  | .sameLine => "0" | .nextLine => "1" | .none => "2"
def decCB : Nat → Option ControlBraceStyle
  | 0 => some .alwaysSameLine | 1 => some .closingNextLine | 2 => some .alwaysNextLine | _ => none
def decD : Nat → Option Density
  | 0 => some .compressed | 1 => some .tall | 2 => some .vertical | _ => none
def decT : Nat → Option RhsTactics
  | 0 => some .default | 1 => some .forceNextLineWithoutIndent | 2 => some .allowOverflow | _ => none
def decOpt : Nat → Option Nat
  | 0 => none | n + 1 => some n
def b01 (b : Bool) : String := if b then "1" else "0"
def encTactic : Tactic → String
  | .vertical => "v" | .horizontal => "h" | .mixed => "m"
def encPlace : RhsPlace → String
  | .empty => "empty" | .sameLine => "same" | .nextLine => "next" | .overflow => "overflow" | .err => "err"

def rhsAnswer (c : Cfg) (shape : Shape) (t : RhsTactics) (llw : Nat) (ml : Bool) (orig new : Option Nat)
    (inf : Bool) : String :=
  let o := rhs_orig_shape shape llw ml
  let place := choose_rhs c o t orig new inf
  let first_guard := (match orig with | some 0 => true | some w => decide (w ≤ o.width) | none => false)
  let seen : List Shape :=
    if first_guard then [o]
    else match shape_from_rhs_tactic c o t with
      | none => [o]
      | some n =>
        if orig.isNone && new.isNone && t = .allowOverflow then [o, n, o.infinite_width] else [o, n]
  ";".intercalate (encPlace place :: seen.map encShape)

def handleNums (op : String) (a : List Nat) : Option String :=
  match op, a with
  | "bud.budget", [mw, used] => pure (toString (budget { max_width := mw, tab_spaces := 0 } used))
  | "bud.llused", [w, ml, off] => do
    pure (toString (last_line_used_width w (← decBool ml) off))
  | "bud.params", [mw, ts, is, rl, rn, b, al, ret, br, force] => do
    let c : Cfg := { max_width := mw, tab_spaces := ts, indent_style := (← decIS is) }
    let (one, multi, ind) :=
      compute_budgets_for_params c rl (← decBool rn) ⟨b, al⟩ ret (← decFB br) (← decBool force)
    pure s!"{one}:{multi}:{ind.block_indent}:{ind.alignment}"
  | "bud.brace", [bs, wsl, preds] => do
    let c : Cfg := { max_width := 0, tab_spaces := 0, brace_style := (← decBS bs),
                     where_single_line := (← decBool wsl) }
    pure (encFB (newline_for_brace c preds))
  | "bud.generics", [mw, ts, is, w, b, al, o, off] => do
    let c : Cfg := { max_width := mw, tab_spaces := ts, indent_style := (← decIS is) }
    pure (encR encShape (generics_shape_from_config c ⟨w, ⟨b, al⟩, o⟩ off))
  | "bud.rhs_tactic", [mw, ts, w, b, al, o, t] => do
    let c : Cfg := { max_width := mw, tab_spaces := ts }
    pure (encO encShape (shape_from_rhs_tactic c ⟨w, ⟨b, al⟩, o⟩ (← decT t)))
  | "bud.rhs", [mw, ts, w, b, al, o, t, llw, ml, orig, new, inf] => do
    let c : Cfg := { max_width := mw, tab_spaces := ts }
    pure (rhsAnswer c ⟨w, ⟨b, al⟩, o⟩ (← decT t) llw (← decBool ml) (decOpt orig) (decOpt new) (← decBool inf))
  | "bud.cond", [mw, ts, cb, w, b, al, o, nested, isIf, len] => do
    let c : Cfg := { max_width := mw, tab_spaces := ts, control_brace_style := (← decCB cb) }
    match rewrite_cond c ⟨w, ⟨b, al⟩, o⟩ (← decBool nested) (← decBool isIf) len with
    | none => pure "err"
    | some r => pure s!"{b01 r.cond_on_next_line}:{b01 r.newline_brace}:{r.used_width}"
  | "bud.where_visual_pinned", [mw, ts, w, b, al, o] =>
    pure (encP toString (where_visual_budget_pinned { max_width := mw, tab_spaces := ts } ⟨w, ⟨b, al⟩, o⟩))
  | "bud.where_visual", [mw, ts, w, b, al, o] =>
    pure (toString (where_visual_budget { max_width := mw, tab_spaces := ts } ⟨w, ⟨b, al⟩, o⟩))
  | "bud.where_clause_shape", [mw, ts, w, b, al, o] =>
    pure (encR encShape (where_clause_shape { max_width := mw, tab_spaces := ts } ⟨w, ⟨b, al⟩, o⟩))
  | "bud.sig", mw :: ts :: is :: d :: bs :: b :: al :: pre :: ret :: preds :: hasBody :: params => do
    let c : Cfg := { max_width := mw, tab_spaces := ts, indent_style := (← decIS is),
                     fn_params_layout := (← decD d), brace_style := (← decBS bs) }
    let brace := if (← decBool hasBody) then newline_for_brace c preds else FnBraceStyle.none
    let s : Sig := ⟨⟨b, al⟩, pre, params, ret, preds, brace⟩
    let l := sig_layout c s
    let br := match sig_last_line_width c s with
      | none => "?"
      | some w => b01 (brace_on_next_line c preds l.force_newline_brace w (saturatingSub mw s.indent.width))
    pure (":".intercalate [toString l.one_line_budget, encTactic l.tactic, b01 (l.paren_break c),
      b01 l.ret_should_indent, b01 l.closing_paren_overflow, b01 l.force_newline_brace,
      b01 (sig_one_line c s), br])
  | _, _ => none

def handle (op : String) (args : List String) : Option String :=
  if op.startsWith "bud." then
    match args.mapM String.toNat? with
    | some nums => handleNums op nums
    | none => none
  else none

end RF.Driver.Budgets
