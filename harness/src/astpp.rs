//! C01, second oracle: parse a text with `rustc_parse` (the compiler's own parser, NOT through rustfmt) and print
//! the AST with `rustc_ast_pretty`.  The printer forgets the layout and the optional separators but keeps what the
//! parser decided (which `&&` is one operator and which is two borrows, where a type ends and `<` is a comparison,
//! what a `>>` closes), so comparing the printed forms of input and output with the token validator judges the
//! PARSE of both sides where the first oracle judges their token streams.
use std::panic::{catch_unwind, AssertUnwindSafe};
use std::sync::Arc;

use rustc_errors::emitter::{HumanEmitter, SilentEmitter};
use rustc_errors::{ColorConfig, DiagCtxt};
use rustc_session::parse::ParseSess;
use rustc_span::edition::Edition;
use rustc_span::source_map::{FilePathMapping, SourceMap};
use rustc_span::FileName;

fn silent_dcx(sm: Arc<SourceMap>) -> DiagCtxt {
    let fallback_bundle = rustc_errors::fallback_fluent_bundle(rustc_driver::DEFAULT_LOCALE_RESOURCES.to_vec(), false);
    let emitter = Box::new(HumanEmitter::new(rustc_errors::emitter::stderr_destination(ColorConfig::Never), fallback_bundle).sm(Some(sm)));
    DiagCtxt::new(Box::new(SilentEmitter { fatal_emitter: emitter, fatal_note: None, emit_fatal_diagnostic: false }))
}

/// `Ok(printed crate)` or `Err(reason)` when the text does not parse (or the parser panicked)
pub fn pretty(src: &str, edition: &str) -> Result<String, String> {
    let ed = match edition {
        "2015" => Edition::Edition2015,
        "2018" => Edition::Edition2018,
        "2021" => Edition::Edition2021,
        _ => Edition::Edition2024,
    };
    let src = src.to_string();
    let r = catch_unwind(AssertUnwindSafe(|| {
        rustc_span::create_session_globals_then(ed, None, || {
            let sm = Arc::new(SourceMap::new(FilePathMapping::empty()));
            let psess = ParseSess::with_dcx(silent_dcx(sm.clone()), sm);
            let mut parser = match rustc_parse::new_parser_from_source_str(&psess, FileName::Custom("c01".into()), src) {
                Ok(p) => p,
                Err(ds) => {
                    for d in ds {
                        d.cancel();
                    }
                    return Err("lexer error".to_string());
                }
            };
            let krate = match parser.parse_crate_mod() {
                Ok(k) => k,
                Err(d) => {
                    d.cancel();
                    return Err("parse error".to_string());
                }
            };
            if psess.dcx().has_errors().is_some() {
                return Err("parse error (recovered)".to_string());
            }
            Ok(rustc_ast_pretty::pprust::crate_to_string_for_macros(&krate))
        })
    }));
    match r {
        Ok(x) => x,
        Err(_) => Err("parser panicked".to_string()),
    }
}

/// parses every text (in threads with a large stack); `true` = parses without any diagnostic
pub fn parse_ok_batch(items: &[(String, String)], threads: usize) -> Vec<bool> {
    let n = items.len();
    let threads = threads.max(1).min(n.max(1));
    let chunk = (n + threads - 1) / threads.max(1);
    let mut out = vec![false; n];
    std::thread::scope(|s| {
        let mut handles = vec![];
        for (k, (part, res)) in items.chunks(chunk.max(1)).zip(out.chunks_mut(chunk.max(1))).enumerate() {
            let h = std::thread::Builder::new()
                .name(format!("astpp{}", k))
                .stack_size(512 << 20)
                .spawn_scoped(s, move || {
                    for (i, (src, ed)) in part.iter().enumerate() {
                        res[i] = pretty(src, ed).is_ok();
                    }
                })
                .expect("spawn");
            handles.push(h);
        }
        for h in handles {
            let _ = h.join();
        }
    });
    out
}
