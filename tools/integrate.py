#!/usr/bin/env python3
"""integrate.py <worker> <prop> [<prop>…]: copies a harness worker's deliverables from /tmp/hw/<worker>/verif into /verif:
harness/src/cNN.rs (+ main.rs lines), table/meta entries, known findings of those properties, and any file under
checks/, translate/, tools/, corpus/, lean/RF that is new or differs (listed, copied unless --dry)."""
import json, os, re, shutil, sys, filecmp
w = sys.argv[1]; props = [p.upper() for p in sys.argv[2:] if not p.startswith('--')]; dry = '--dry' in sys.argv
S = f"/tmp/hw/{w}/verif"; D = "/verif"
def cp(rel):
    src, dst = os.path.join(S, rel), os.path.join(D, rel)
    os.makedirs(os.path.dirname(dst), exist_ok=True)
    print(("would copy " if dry else "copy ") + rel)
    if not dry: shutil.copy2(src, dst)
# 1. harness sources
main_s = open(os.path.join(S, "harness/src/main.rs")).read(); main_d = open(os.path.join(D, "harness/src/main.rs")).read()
for f in sorted(os.listdir(os.path.join(S, "harness/src"))):
    a, b = os.path.join(S, "harness/src", f), os.path.join(D, "harness/src", f)
    if f == "main.rs": continue
    if not os.path.exists(b): cp("harness/src/" + f)
    elif not filecmp.cmp(a, b, shallow=False): print("DIFFERS (not copied): harness/src/" + f)
for m in re.finditer(r"^mod (\w+);$", main_s, re.M):
    if f"mod {m.group(1)};" not in main_d:
        main_d = main_d.replace("mod util;", f"mod {m.group(1)};\nmod util;"); print("main.rs: mod", m.group(1))
for m in re.finditer(r'^\s*"(c\d+)" => (.+),$', main_s, re.M):
    if f'"{m.group(1)}" =>' not in main_d:
        main_d = main_d.replace('        "probe" => probe(&out),', f'        "{m.group(1)}" => {m.group(2)},\n        "probe" => probe(&out),'); print("main.rs: dispatch", m.group(1))
if not dry: open(os.path.join(D, "harness/src/main.rs"), "w").write(main_d)
# Cargo.toml deps
ct_s = open(os.path.join(S, "harness/Cargo.toml")).read(); ct_d = open(os.path.join(D, "harness/Cargo.toml")).read()
for line in ct_s.splitlines():
    if re.match(r"^[\w-]+ = ", line) and line not in ct_d and "path =" not in line and not line.startswith(("name", "version", "edition", "publish", "opt-level", "debug")):
        print("Cargo.toml extra dependency line:", line)
# 2. table / meta
for name in ("checks/table.json", "checks/manifest_meta.json"):
    s = json.load(open(os.path.join(S, name))); d = json.load(open(os.path.join(D, name)))
    for p in props:
        src = s if name.endswith("table.json") else s["checks"]; dst = d if name.endswith("table.json") else d["checks"]
        if p in src: dst[p] = src[p]; print(f"{name}: {p}")
        else: print(f"{name}: {p} MISSING in worker copy")
    if not dry: json.dump(d, open(os.path.join(D, name), "w"), indent=1)
# 3. known findings
have = set(l.strip() for l in open(os.path.join(D, "known_findings.jsonl")))
add = []
for l in open(os.path.join(S, "known_findings.jsonl")):
    l = l.strip()
    if not l or l in have: continue
    try: j = json.loads(l)
    except Exception: continue
    if j.get("property") in props: add.append(l)
print(f"known findings: +{len(add)}")
if not dry and add: open(os.path.join(D, "known_findings.jsonl"), "a").write("\n".join(add) + "\n")
# 4. other files
for top in ("checks", "translate", "tools", "corpus", "lean/RF", "lean/Main.lean", "setup.sh", "check"):
    base = os.path.join(S, top)
    files = [base] if os.path.isfile(base) else [os.path.join(r, f) for r, _, fs in os.walk(base) for f in fs]
    for a in files:
        rel = os.path.relpath(a, S)
        if rel in ("checks/table.json", "checks/manifest_meta.json") or "__pycache__" in rel or "/.lake/" in rel: continue
        b = os.path.join(D, rel)
        if not os.path.exists(b): cp(rel)
        elif not filecmp.cmp(a, b, shallow=False): print("DIFFERS (not copied):", rel)
