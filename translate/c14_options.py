#!/usr/bin/env python3
"""translator:c14_options — the option table (`create_config!` in src/config/mod.rs), the per-style-edition
defaults (`config_option_with_style_edition_default!` in src/config/options.rs) and the three hand-maintained
lists of keys that trigger `set_heuristics` / the alias setters (src/config/config_type.rs)
-> RF/Gen/Options.lean.  Used by C14 and C09."""
import os, re, sys
sys.path.insert(0, os.path.dirname(os.path.abspath(__file__)))
from common import *

NAME = "c14_options"


def q(s):
    return '"' + s.replace("\\", "\\\\").replace('"', '\\"') + '"'


def main():
    a = args()
    mod = strip_rust_comments(read(a.repo, "src/config/mod.rs", NAME))
    m = re.search(r"^create_config!\s*\{", mod, re.M)
    if not m:
        refuse(NAME, "create_config! invocation not found in src/config/mod.rs")
    body, _ = block_after(mod, m.start())
    opts = []
    for item in re.finditer(r"(\w+)\s*:\s*(\w+)\s*,\s*(true|false)\s*,\s*((?:\"(?:[^\"\\]|\\.|\\\n)*\"\s*)+);", body):
        opts.append((item.group(1), item.group(2), item.group(3)))
    n_semis = len(re.findall(r";", re.sub(r'"(?:[^"\\]|\\.|\\\n)*"', '""', body)))
    if len(opts) != n_semis or len(opts) < 60:
        refuse(NAME, f"create_config!: parsed {len(opts)} options but the invocation has {n_semis} entries")
    optsrc = strip_rust_comments(read(a.repo, "src/config/options.rs", NAME))
    m = re.search(r"^config_option_with_style_edition_default!\s*\(", optsrc, re.M)
    if not m:
        refuse(NAME, "config_option_with_style_edition_default! invocation not found")
    i = optsrc.index("(", m.start())
    d, j = 0, i
    while True:
        if optsrc[j] == "(":
            d += 1
        elif optsrc[j] == ")":
            d -= 1
            if d == 0:
                break
        j += 1
    dbody = optsrc[i + 1:j]
    defaults = []
    for ent in dbody.split(";"):
        ent = " ".join(ent.split())
        if not ent:
            continue
        mm = re.match(r"(\w+), ([\w:<>]+), (?:Edition2024 => (.+?), )?_ => (.+)$", ent)
        if not mm:
            refuse(NAME, f"default entry not understood: `{ent[:80]}`")
        defaults.append((mm.group(1), mm.group(2), mm.group(4), mm.group(3)))
    tys = {t for (_, t, _) in opts}
    dts = {d_[0] for d_ in defaults}
    if not tys <= dts:
        refuse(NAME, f"options without a default entry: {sorted(tys - dts)}")
    ct = strip_rust_comments(read(a.repo, "src/config/config_type.rs", NAME))
    # the three `match … { "max_width" | … => set_heuristics(), "merge_imports" => …, … }` blocks
    blocks = []
    for mm in re.finditer(r"match\s+(stringify!\(\$i\)|key)\s*\{\s*\"max_width\"", ct):
        blk, _ = block_after(ct, mm.start())
        arms = []
        for am in re.finditer(r"((?:\"\w+\"\s*\|?\s*)+)=>\s*self(?:\.0)?\.(\w+)\(\)", blk):
            arms.append((re.findall(r"\"(\w+)\"", am.group(1)), am.group(2)))
        blocks.append(arms)
    if len(blocks) != 3:
        refuse(NAME, f"expected the 3 key-dispatch blocks (ConfigSetter, CliConfigSetter, override_value), found {len(blocks)}")
    # bin/main.rs `GetOptsOptions::apply_to`: is the `max_width` pair of `--config` applied before the loop over the
    # `HashMap` of pairs (and skipped inside it)?  Anything that is neither the plain loop nor that shape is refused.
    mainrs = strip_rust_comments(read(a.repo, "src/bin/main.rs", NAME))
    mm = re.search(r"impl\s+CliOptions\s+for\s+GetOptsOptions\s*\{", mainrs)
    if not mm:
        refuse(NAME, "impl CliOptions for GetOptsOptions not found in src/bin/main.rs")
    impl_body, _ = block_after(mainrs, mm.start())
    mm = re.search(r"fn\s+apply_to\s*\(", impl_body)
    if not mm:
        refuse(NAME, "GetOptsOptions::apply_to not found")
    apply_body, _ = block_after(impl_body, mm.start())
    flat = " ".join(apply_body.split())
    loops = re.findall(r"for \(key, val\) in self\.inline_config \{(.*?)\} \}", flat + " }")
    n_override = len(re.findall(r"override_value\(", flat))
    plain = re.search(r"for \(key, val\) in self\.inline_config \{ config\.override_value\(&key, &val\); \}", flat)
    first = re.search(r"if let Some\(val\) = self\.inline_config\.get\(\"max_width\"\) \{ config\.override_value\(\"max_width\", val\); \} "
                      r"for \(key, val\) in self\.inline_config \{ if key != \"max_width\" \{ config\.override_value\(&key, &val\); \} \}", flat)
    if first and n_override == 2:
        mw_first = True
    elif plain and n_override == 1:
        mw_first = False
    else:
        refuse(NAME, "GetOptsOptions::apply_to: the application of the --config pairs has neither of the two shapes understood "
                     "(plain loop over inline_config / max_width first, then the loop without it)")
    # `PartialConfig::to_toml`: the options blanked before serialisation
    mm = re.search(r"pub\s+fn\s+to_toml\s*\(", mod)
    if not mm:
        refuse(NAME, "PartialConfig::to_toml not found in src/config/mod.rs")
    toml_body, _ = block_after(mod, mm.start())
    hidden = re.findall(r"cloned\.(\w+)\s*=\s*None\s*;", toml_body)
    if not hidden or "::toml::to_string(&cloned)" not in "".join(toml_body.split()):
        refuse(NAME, "PartialConfig::to_toml: shape not understood (expected `cloned.<opt> = None;` lines, then ::toml::to_string(&cloned))")
    optnames = {n for (n, _, _) in opts}
    if not set(hidden) <= optnames:
        refuse(NAME, f"to_toml blanks names that are not options: {sorted(set(hidden) - optnames)}")
    names = ["configSetter", "cliConfigSetter", "overrideValue"]
    # was_set marking: which of the three paths mark `.1 = true`
    L = ["/- GENERATED by translate/c14_options.py from src/config/{mod,options,config_type}.rs and src/bin/main.rs.  Do not edit. -/",
         "namespace RF.Gen.Options\n",
         "/-- (option name, option type struct, stable) in declaration order -/",
         "def options : List (String × String × Bool) := [" + ", ".join(f"({q(n)}, {q(t)}, {s})" for n, t, s in opts) + "]\n",
         "/-- (type struct, config type, default for every style edition but 2024, default for 2024 when it differs) -/",
         "def defaults : List (String × String × String × Option String) := [" + ", ".join(
             f"({q(n)}, {q(t)}, {q(dv)}, {'some ' + q(d24) if d24 else 'none'})" for n, t, dv, d24 in defaults) + "]\n"]
    for nm, arms in zip(names, blocks):
        L.append(f"/-- key dispatch after a value is stored through `{nm}`: (keys, method called) -/")
        L.append(f"def {nm}Dispatch : List (List String × String) := [" + ", ".join(
            "([" + ", ".join(q(k) for k in ks) + f"], {q(meth)})" for ks, meth in arms) + "]\n")
    L.append("/-- options that `PartialConfig::to_toml` (src/config/mod.rs) blanks before printing -/")
    L.append("def tomlHidden : List String := [" + ", ".join(q(h) for h in hidden) + "]\n")
    L.append("/-- bin/main.rs `apply_to`: the `--config max_width=…` pair is applied before the other pairs -/")
    L.append(f"def inlineMaxWidthFirst : Bool := {'true' if mw_first else 'false'}\n")
    L.append("end RF.Gen.Options\n")
    changed = write_if_changed(os.path.join(a.out, "Options.lean"), "\n".join(L))
    ed = [d_[0] for d_ in defaults if d_[3]]
    print(f"c14_options: ok ({'rewritten' if changed else 'unchanged'}); {len(opts)} options; edition-dependent defaults: {ed}")


if __name__ == "__main__":
    main()
