import RF.Gen.Contain
/-
Containment of panics (C16).  rustc's lexer and parser report fatal errors by unwinding
(`FatalError.raise()`), and a bug in the formatting of one macro may panic; rustfmt is meant to contain
both with `catch_unwind` and turn them into an ordinary failure of that input.  The model: a run passes
through the stages of `RF.Gen.Contain.Stage` (generated from the source: which of them sit under a
`catch_unwind`); any stage may raise.
-/
namespace RF.Contain
open RF.Gen.Contain

inductive Outcome where
  | success           -- exit 0
  | failure           -- a diagnostic was printed, exit 1
  | abnormal          -- an unwind reached `main`: exit 101, or an abort
  deriving DecidableEq, Repr

def Outcome.exitCode : Outcome → Nat
  | .success => 0 | .failure => 1 | .abnormal => 101

/-- `raises s`: stage `s` raises on this input.  `cont` says which stages are under a catch. -/
def run (cont : Stage → Bool) (raises : Stage → Bool) : Outcome :=
  if Stage.all.any (fun s => raises s && !cont s) then .abnormal
  else if Stage.all.any raises then .failure
  else .success

end RF.Contain
